# add(pid, engine, category, technique, text, note, design_ref) entries; exec'd by gen_manifest.py
