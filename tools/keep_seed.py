#!/usr/bin/env python3
"""Files a confirmed seeded change under /verif/seeded/<id>/ and (re)generates /verif/seeded/README.md.

usage: keep_seed.py <id> <property> <src OUT dir> <demo file> <demo dest rel. to /repo> "<needs to manifest>" "<what it is>" [--missed-before "<text>"]
Reads /verif/seeded/<id>/confirm.log (written by tools/confirm_seed.sh) for what was run and observed.
"""
import json, os, re, shutil, sys, glob

def main():
    sid, prop, src, demo, dest, needs, what = sys.argv[1:8]
    extra = sys.argv[8:]
    out = f"/verif/seeded/{sid}"
    os.makedirs(out, exist_ok=True)
    shutil.copy(os.path.join(src, "patch.diff"), os.path.join(out, "patch.diff"))
    shutil.copy(os.path.join(src, demo), os.path.join(out, demo))
    for f in ("demo_howto.txt", "meta.txt"):
        if os.path.exists(os.path.join(src, f)):
            shutil.copy(os.path.join(src, f), os.path.join(out, "author_" + f))
    log = open(os.path.join(out, "confirm.log")).read() if os.path.exists(os.path.join(out, "confirm.log")) else ""
    verdict = re.findall(r"^%s: suite_rc=(\d+) demo_with_change_rc=(\d+) demo_without_change_rc=(\d+) check_\w+_rc=(\d+)" % re.escape(sid), log, re.M)
    suite = re.findall(r"^passed=(\d+) failed=(\d+) baseline=(\d+) baseline_missing=(\d+)", log, re.M)
    missing = re.findall(r"MISSING/FAILED: (\S+)", log)
    classes = re.findall(r"^VIOLATION property=\S+ replay=\S+\s+\[([^\]]+)\] x(\d+)", log, re.M)
    meta = {
        "id": sid,
        "breaks_property": prop,
        "what_the_change_is": what,
        "needs_in_order_to_manifest": needs,
        "written_by": "an independent sub-agent that saw only the property text and a scratch worktree of /repo (nothing from /verif)",
        "demonstration": {"file": demo, "place_at": dest},
        "what_was_run_to_confirm": [
            "git -C /repo apply patch.diff",
            "tools/run_baseline.sh /repo  (the repository's suite with the guard off; tests that fail in the loaded sandbox are re-run alone)",
            "the demonstration with the change (must fail) and, after `git -C /repo checkout -- .`, without it (must pass)",
            f"./check {prop} --tier quick with the change applied (expected: VIOLATION, exit 1)",
        ],
        "observed": {
            "suite": ({"passed": int(suite[-1][0]), "baseline": int(suite[-1][2]), "baseline_tests_not_passing": missing} if suite else None),
            "demo_with_change_exit": int(verdict[-1][1]) if verdict else None,
            "demo_without_change_exit": int(verdict[-1][2]) if verdict else None,
            "check_exit_with_change": int(verdict[-1][3]) if verdict else None,
            "violation_classes_reported_with_change": [{"class": c, "count": int(n)} for c, n in classes],
        },
    }
    i = 0
    while i < len(extra):
        if extra[i] == "--missed-before":
            meta["missed_before_strengthening"] = extra[i + 1]; i += 2
        elif extra[i] == "--note":
            meta.setdefault("notes", []).append(extra[i + 1]); i += 2
        else:
            i += 1
    json.dump(meta, open(os.path.join(out, "meta.json"), "w"), indent=1)
    readme()

def readme():
    rows = []
    for f in sorted(glob.glob("/verif/seeded/*/meta.json")):
        m = json.load(open(f))
        o = m.get("observed", {})
        cls = ", ".join(c["class"] for c in o.get("violation_classes_reported_with_change", [])[:3])
        more = len(o.get("violation_classes_reported_with_change", [])) - 3
        if more > 0:
            cls += f" (+{more} more)"
        caught = "caught" if o.get("check_exit_with_change") == 1 else ("MISSED" if o.get("check_exit_with_change") == 0 else "?")
        if m.get("missed_before_strengthening"):
            caught += " (after strengthening: " + m["missed_before_strengthening"] + ")"
        rows.append(f"| `{m['id']}` | {m['breaks_property']} | {m['what_the_change_is']} | {m['needs_in_order_to_manifest']} | {caught} | {cls} |")
    text = "# Seeded property-breaking changes\n\nEach directory holds `patch.diff` (apply with `git -C /repo apply`), the demonstration test, the author's notes, `confirm.log` and `meta.json`.\nNone of these changes is ever committed to /repo.\n\n| id | property | change | needs to manifest | check verdict (quick tier) | classes reported |\n|---|---|---|---|---|---|\n" + "\n".join(rows) + "\n"
    open("/verif/seeded/README.md", "w").write(text)

if __name__ == "__main__":
    if len(sys.argv) == 2 and sys.argv[1] == "--readme":
        readme()
    else:
        main()
