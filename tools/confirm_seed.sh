#!/usr/bin/env bash
# Confirms a seeded property-breaking change and records what the checks say about it.
#   tools/confirm_seed.sh <seed-id> <property> <dir with patch.diff> <demo file> <demo dest path rel. to /repo> <demo run cmd...>
# Steps (all in /repo itself, undone at the end):  apply patch -> repo suite must still pass -> demo must FAIL
#   -> ./check <property> --tier quick must exit 1 -> undo patch -> demo must PASS -> remove demo.
# Output: /verif/seeded/<seed-id>/confirm.log and a one-line verdict on stdout.
set -u
id="$1"; prop="$2"; src="$3"; demo="$4"; dest="$5"; shift 5
out="/verif/seeded/$id"; mkdir -p "$out"; log="$out/confirm.log"; : > "$log"
cd /repo || exit 2
if [ -n "$(git status --porcelain --untracked-files=no)" ]; then echo "/repo not clean"; exit 2; fi
cleanup() { git -C /repo checkout -- . ; [ -n "$dest" ] && rm -f "/repo/$dest"; }
trap cleanup EXIT
git apply "$src/patch.diff" >>"$log" 2>&1 || { echo "$id: patch does not apply"; exit 2; }
echo "== repo suite with the change" >>"$log"
/verif/tools/run_baseline.sh /repo >>"$log" 2>&1; suite=$?
tail -n 8 "$log" | grep -E "passed=" | tail -1
mkdir -p "$(dirname "/repo/$dest")"; cp "$src/$demo" "/repo/$dest"
echo "== demo with the change: $*" >>"$log"
( cd /repo && "$@" ) >>"$log" 2>&1; demo_with=$?
echo "== check $prop quick with the change" >>"$log"
/verif/check "$prop" --tier quick > "$out/check_with_change.log" 2>&1; chk=$?
grep -E "^VIOLATION|^KNOWN-FINDING|^SUMMARY|MACHINERY" "$out/check_with_change.log" | cut -c1-300 >>"$log"
# keep what the check wrote about the mutant with the seed, restore the committed evidence/replays of the real tree
rm -rf "$out/replays_with_change"; mkdir -p "$out/replays_with_change"
cp -r "/verif/replays/$prop/." "$out/replays_with_change/" 2>/dev/null
cp "/verif/evidence/$prop.json" "$out/evidence_with_change.json" 2>/dev/null
git -C /verif checkout -- evidence replays 2>/dev/null; git -C /verif clean -fdq replays evidence 2>/dev/null
git -C /repo checkout -- .
echo "== demo without the change" >>"$log"
( cd /repo && "$@" ) >>"$log" 2>&1; demo_without=$?
rm -f "/repo/$dest"
echo "$id: suite_rc=$suite demo_with_change_rc=$demo_with demo_without_change_rc=$demo_without check_${prop}_rc=$chk" | tee -a "$log"
