#!/usr/bin/env bash
# Runs the repository's own suite (guard OFF) in <repo_dir> (default /repo) and compares with BASELINE.json stable_pass.
# usage: tools/run_baseline.sh [repo_dir] [target_dir]
repo="${1:-/repo}"; tgt="${2:-$repo/target}"
cd "$repo" || exit 2
export CARGO_NET_OFFLINE=true CARGO_TARGET_DIR="$tgt"
cargo nextest run --workspace --no-fail-fast --tool-config-file pb:/w/lib/nextest.toml --profile pb --test-threads 8 --offline > "$tgt/../baseline_run.log" 2>&1
rc=$?
junit="$repo/target/nextest/pb/junit.xml"; [ -f "$junit" ] || junit="$tgt/nextest/pb/junit.xml"
python3 - "$junit" <<'PY'
import sys, json, xml.etree.ElementTree as ET
b = json.load(open('/root/.vp/BASELINE.json'))
stable = set(b['stable_pass'])
t = ET.parse(sys.argv[1]).getroot()
passed, failed = set(), set()
for ts in t.iter('testsuite'):
    suite = ts.get('name')
    for tc in ts.iter('testcase'):
        name = f"{suite}::{tc.get('name')}"
        bad = any(c.tag in ('failure', 'error') for c in tc)
        (failed if bad else passed).add(name)
missing = sorted(stable - passed)
print(f"passed={len(passed)} failed={len(failed)} baseline={len(stable)} baseline_missing={len(missing)}")
for m in missing[:40]: print("  MISSING/FAILED:", m)
extra_fail = sorted(failed - set(b.get('always_fail', [])))
for m in extra_fail[:40]: print("  FAILED (not in always_fail):", m)
sys.exit(0 if not missing else 1)
PY
