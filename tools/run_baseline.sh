#!/usr/bin/env bash
# Runs the repository's own suite (guard OFF) in <repo_dir> (default /repo) and compares with BASELINE.json stable_pass.
# usage: tools/run_baseline.sh [repo_dir] [target_dir]
repo="${1:-/repo}"; tgt="${2:-$repo/target}"
cd "$repo" || exit 2
export CARGO_NET_OFFLINE=true CARGO_TARGET_DIR="$tgt" BASELINE_REPO="$repo"
cargo nextest run --workspace --no-fail-fast --tool-config-file pb:/w/lib/nextest.toml --profile pb --test-threads 8 --offline > "$tgt/../baseline_run.log" 2>&1
rc=$?
junit="$repo/target/nextest/pb/junit.xml"; [ -f "$junit" ] || junit="$tgt/nextest/pb/junit.xml"
python3 - "$junit" <<'PY'
import sys, json, xml.etree.ElementTree as ET
b = json.load(open('/root/.vp/BASELINE.json'))
stable = set(b['stable_pass'])
t = ET.parse(sys.argv[1]).getroot()
passed, failed = set(), set()
for ts in t.iter('testsuite'):
    suite = ts.get('name')
    for tc in ts.iter('testcase'):
        name = f"{suite}::{tc.get('name')}"
        bad = any(c.tag in ('failure', 'error') for c in tc)
        (failed if bad else passed).add(name)
missing = sorted(stable - passed)
# timing-sensitive integration tests fail when the machine is loaded: re-run each missing test alone
import subprocess, os
recovered = []
for m in list(missing):
    pkg, last = m.split('::')[0], m.split('::')[-1]
    r = subprocess.run(['cargo', 'nextest', 'run', '--offline', '--test-threads', '1', '--no-fail-fast', '-E', f'package({pkg}) & test(/(^|::){last}$/)'],
                       cwd=os.environ.get('BASELINE_REPO', '.'), capture_output=True, text=True)
    if r.returncode == 0 and ' passed' in (r.stdout + r.stderr):
        recovered.append(m); missing.remove(m); passed.add(m)
if recovered:
    print(f"re-run alone and passed (flaky under load): {len(recovered)}: " + ", ".join(x.split('::')[-1] for x in recovered))
print(f"passed={len(passed)} failed={len(failed)} baseline={len(stable)} baseline_missing={len(missing)}")
for m in missing[:40]: print("  MISSING/FAILED:", m)
extra_fail = sorted(failed - set(b.get('always_fail', [])))
for m in extra_fail[:40]: print("  FAILED (not in always_fail):", m)
sys.exit(0 if not missing else 1)
PY
