#!/usr/bin/env python3
"""Generates /verif/MANIFEST.json from the table below (single source of truth for the checks)."""
import json, os, subprocess, sys

ROOT = os.path.dirname(os.path.dirname(os.path.abspath(__file__)))

# id -> dict(engine, category, technique, text, note, design_ref)   (only implemented checks are listed)
CHECKS = {}

def add(pid, engine, category, technique, text, note, design_ref):
    CHECKS[pid] = dict(engine=engine, category=category, technique=technique, text=text, note=note, design_ref=design_ref)

exec(open(os.path.join(ROOT, "tools", "checks_table.py")).read())

ALL = ["C%02d" % i for i in range(1, 21)]
NOT_YET = {}
try:
    NOT_YET = json.load(open(os.path.join(ROOT, "tools", "not_applicable.json")))
except FileNotFoundError:
    pass

def repo_hook_commits():
    try:
        out = subprocess.check_output(["git", "-C", "/repo", "log", "--format=%H %s"], text=True)
    except Exception:
        return []
    return [l.split()[0] for l in out.splitlines() if " verif hooks:" in " " + l]

manifest = {
    "version": 1,
    "setup_cmd": "./check build",
    "hooks": {
        "guard": "cargo feature `verif-hooks` (crates scion-stack, snap-dataplane); default off",
        "enable": "the harness workspace (/verif/harness/Cargo.toml) depends on /repo crates by path with features=[\"verif-hooks\"]",
        "baseline_off_cmd": "cd /repo && cargo nextest run --workspace --no-fail-fast --test-threads 8 --offline",
        "source_commits": repo_hook_commits(),
        "add_only": True,
    },
    "engines": [
        {"name": "vp-sciparse", "path": "harness/vp-sciparse", "serves_properties": ["C02", "C03", "C04", "C11", "C12", "C15", "C16", "C18", "C19"], "kind_free_text": "bounded-exhaustive enumeration of inputs / op sequences of the real sciparse code against spec-derived reference models (R-wire, R-mac, R-combine)"},
        {"name": "vp-edgetun", "path": "harness/vp-edgetun", "serves_properties": ["C17"], "kind_free_text": "explicit-state exploration of frame delivery histories on the real Fragmenter/Defragmenter"},
        {"name": "vp-snap", "path": "harness/vp-snap", "serves_properties": ["C08", "C09", "C10"], "kind_free_text": "explicit-state exploration of the real SnapTunServer + IdentityRegistry; exhaustive mutation neighbourhoods of tokens and datagrams"},
        {"name": "vp-stack", "path": "harness/vp-stack", "serves_properties": ["C05", "C06", "C07", "C20"], "kind_free_text": "explicit-state exploration of the real PathSet/MultiPathManager step functions; stateless preemption-bounded schedule exploration of the real async manager"},
        {"name": "vp-pocket", "path": "harness/vp-pocket", "serves_properties": ["C01", "C13", "C14"], "kind_free_text": "exhaustive topology enumeration; lock-step exploration of the real pocketscion simulator against a reference router"},
    ],
    "checks": [],
    "not_applicable": [],
    "notes": "All checks are invoked through ./check <id> --tier <tier>; exit 2 = machinery failure (never a verdict). Known findings: /verif/known-findings.txt.",
}
for pid in ALL:
    if pid in CHECKS:
        c = CHECKS[pid]
        manifest["checks"].append({
            "property_id": pid,
            "quick_cmd": f"./check {pid} --tier quick",
            "thorough_cmd": f"./check {pid} --tier thorough",
            "evidence_file": f"/verif/evidence/{pid}.json",
            "replay_cmd_template": f"./check {pid} --replay {{path}}",
            "engine": c["engine"],
            "level_claimed": {"category": c["category"], "text": c["text"], "design_ref": c["design_ref"]},
            "level_note": c["note"],
            "technique": c["technique"],
        })
    else:
        manifest["not_applicable"].append({"property_id": pid, "reason": NOT_YET.get(pid, "check not built yet (under construction in this round); no claim is made")})

json.dump(manifest, open(os.path.join(ROOT, "MANIFEST.json"), "w"), indent=1)
print("checks:", [c["property_id"] for c in manifest["checks"]], "not_applicable:", [n["property_id"] for n in manifest["not_applicable"]])
try:
    import jsonschema
    jsonschema.validate(manifest, json.load(open("/root/.vp/MANIFEST.schema.json")))
    print("MANIFEST.json validates")
except ImportError:
    print("(jsonschema not available in this python; validate with python3-vt)")
