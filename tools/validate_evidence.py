#!/usr/bin/env python3
import json, sys, glob
import jsonschema
schema = json.load(open("/root/.vp/EVIDENCE.schema.json"))
ok = True
for f in sys.argv[1:] or sorted(glob.glob("/verif/evidence/*.json")):
    try:
        jsonschema.validate(json.load(open(f)), schema); print("ok  ", f)
    except Exception as e:
        ok = False; print("FAIL", f, str(e)[:300])
sys.exit(0 if ok else 1)
