#!/usr/bin/env bash
# Re-runs, on an idle machine and with the seeded change applied, the baseline tests that did not pass in the
# (loaded) confirmation run of a seed:  tools/recheck_flaky.sh <seed-id>
set -u
id="$1"; out="/verif/seeded/$id"; log="$out/confirm.log"
tests=$(grep -h "MISSING/FAILED:" "$log" | awk '{print $2}' | sort -u)
[ -z "$tests" ] && { echo "$id: nothing to recheck"; exit 0; }
cd /repo || exit 2
[ -n "$(git status --porcelain --untracked-files=no)" ] && { echo "/repo not clean"; exit 2; }
trap 'git -C /repo checkout -- .' EXIT
git apply "$out/patch.diff" || exit 2
ok=1
for t in $tests; do
  pkg="${t%%::*}"; last="${t##*::}"
  res=fail
  for try in 1 2 3; do
    if cargo nextest run --offline --test-threads 1 --no-fail-fast -E "package($pkg) & test(/(^|::)$last\$/)" >/tmp/recheck.$$ 2>&1 && grep -q " passed" /tmp/recheck.$$; then res=pass; break; fi
  done
  echo "recheck (idle machine, change applied): $t -> $res" | tee -a "$log"
  [ "$res" = pass ] || ok=0
done
rm -f /tmp/recheck.$$
echo "$id: recheck_all_passed=$ok" | tee -a "$log"
