//! Hop-pattern part: every AST in three spellings x every hop sequence, against the derivative DFA.
use sciparse::path::policy::{
    PathPolicy, Policy,
    acl::AclPolicy,
    hop_pattern::HopPatternPolicy,
    types::PathPolicyHop,
};
use vpc::{json, rayon::prelude::*};

use super::{H, PP, acl::path_shaped_set, refmodel::*, space::Pattern, support::*};

pub fn pp_strings() -> Vec<String> {
    PP.iter().map(|p| ref_print_pred(p).unwrap()).collect()
}

pub struct PatDfs<'a> {
    pub cx: Option<&'a Cx<'a>>,
    pub pol: &'a HopPatternPolicy,
    pub text: &'a str,
    pub spelling: &'static str,
    pub dfa: &'a Dfa,
    pub alphabet: &'a [RHop],
    pub real_h: &'a [PathPolicyHop],
    pub maxlen: usize,
    pub buf: Vec<PathPolicyHop>,
    pub idx: Vec<u8>,
    pub slot: Option<&'a Slot>,
    pub evals: u64,
    pub allow: u64,
    pub deny_live: u64,
    pub deny_dead: u64,
    pub sig: u64,
    pub mismatches: u64,
}
impl PatDfs<'_> {
    pub fn go(&mut self, state: u16, code: u64) {
        if let Some(s) = self.slot {
            s.progress.store(code, std::sync::atomic::Ordering::Relaxed);
        }
        let exp = self.dfa.acc[state as usize];
        self.evals += 1;
        if exp {
            self.allow += 1;
        } else if self.dfa.dead[state as usize] {
            self.deny_dead += 1;
        } else {
            self.deny_live += 1;
        }
        self.sig = (self.sig ^ (exp as u64 + 1)).wrapping_mul(0x100000001b3);
        let (pol, buf) = (self.pol, &self.buf);
        match vpc::catch(|| pol.matches(buf)) {
            Ok(got) if got == exp => {}
            Ok(got) => {
                self.mismatches += 1;
                if let Some(cx) = self.cx {
                    let class = if got { "pattern-accepts-outside-language" } else { "pattern-rejects-inside-language" };
                    let seq = seq_of(&self.idx, self.alphabet);
                    cx.violation(class, (self.text.len(), seq.len(), format!("{} {:?}", self.text, self.idx)), || {
                        (
                            format!("hop pattern `{}` ({} spelling) on hops {seq:?}: HopPatternPolicy::matches={got}, regular-language membership (derivatives)={exp}", self.text, self.spelling),
                            json!({"kind": "pattern", "policy": self.text, "hops": hops_json(&seq)}),
                        )
                    });
                }
            }
            Err(m) => {
                self.mismatches += 1;
                if let Some(cx) = self.cx {
                    let seq = seq_of(&self.idx, self.alphabet);
                    cx.panic_violation("HopPatternPolicy::matches", &m, (self.text.len(), seq.len(), self.text.to_string()), json!({"kind": "pattern", "policy": self.text, "hops": hops_json(&seq)}));
                }
            }
        }
        if self.buf.len() < self.maxlen {
            for h in 0..self.alphabet.len() {
                self.buf.push(self.real_h[h]);
                self.idx.push(h as u8);
                let n = self.dfa.trans[state as usize][h];
                self.go(n, code * 7 + h as u64 + 1);
                self.idx.pop();
                self.buf.pop();
            }
        }
    }
}

pub fn check_patterns(cx: &Cx, patterns: &[Pattern], seq_len: usize) -> vpc::Value {
    let preds = pp_strings();
    let real_h: Vec<PathPolicyHop> = H.iter().map(real_hop).collect();
    let paths = path_shaped_set(cx, seq_len);
    let nseq: u64 = (0..=seq_len).map(|k| 6u64.pow(k as u32)).sum();
    let max_states = std::sync::atomic::AtomicU64::new(0);
    patterns.par_iter().for_each(|pat| {
        let spell = [("minimal", print_min(pat, &preds)), ("parenthesised", print_full(pat, &preds)), ("whitespace", print_ws(pat, &preds))];
        let slot = cx.enter("pattern-match", &spell[0].1);
        // parse the three spellings
        let mut pols: Vec<Option<HopPatternPolicy>> = vec![];
        for (name, s) in &spell {
            cx.counters.add("eval.parse", 1);
            let wit = || json!({"kind": "parse", "parser": "pattern", "input": s});
            match vpc::catch(|| HopPatternPolicy::parse(s)) {
                Ok(Ok(p)) => {
                    cx.counters.add("pattern.spelling.accept", 1);
                    pols.push(Some(p));
                }
                Ok(Err(e)) => {
                    pols.push(None);
                    cx.violation(&format!("pattern-documented-syntax-rejected-{name}"), (s.len(), 0, s.clone()), || (format!("HopPatternPolicy::parse({s:?}) fails: {e:?}"), wit()));
                }
                Err(m) => {
                    pols.push(None);
                    cx.panic_violation("HopPatternPolicy::parse", &m, (s.len(), 0, s.clone()), wit());
                }
            }
        }
        let dfa = build_dfa(pat, &PP, &H);
        max_states.fetch_max(dfa.acc.len() as u64, std::sync::atomic::Ordering::Relaxed);
        let base = pols[0].clone();
        for (k, pol) in pols.iter().enumerate() {
            let Some(pol) = pol else { continue };
            let equal = k > 0 && base.as_ref() == Some(pol);
            if k > 0 && !equal && base.is_some() {
                cx.violation("pattern-spelling-parses-differently", (spell[k].1.len(), 0, spell[k].1.clone()), || {
                    (
                        format!("`{}` and `{}` are spellings of one pattern (redundant parentheses / whitespace) but parse to different policies: {:?} vs {:?}", spell[0].1, spell[k].1, base, pol),
                        json!({"kind": "spelling", "spellings": [spell[0].1, spell[k].1]}),
                    )
                });
            }
            // spellings that parsed to an == policy are re-matched on short sequences only
            let maxlen = if equal { seq_len.min(3) } else { seq_len };
            let mut d = PatDfs { cx: Some(cx), pol, text: &spell[k].1, spelling: spell[k].0, dfa: &dfa, alphabet: &H, real_h: &real_h, maxlen, buf: vec![], idx: vec![], slot: Some(slot), evals: 0, allow: 0, deny_live: 0, deny_dead: 0, sig: 0xcbf29ce484222325, mismatches: 0 };
            d.go(0, 0);
            cx.counters.add("eval.pattern", d.evals);
            cx.counters.add("pattern.verdict.allow", d.allow);
            cx.counters.add("pattern.verdict.deny-live-prefix", d.deny_live);
            cx.counters.add("pattern.verdict.deny-dead", d.deny_dead);
            if k == 0 {
                cx.counters.add("nontrivial.pattern", d.allow + d.deny_live);
                cx.distinct.add_hash(d.sig);
            }
        }
        // ScionPath route
        let mut lc = Local::default();
        if let Some(pol) = &pols[0] {
            for (idx, path) in &paths {
                let exp = dfa_accepts(&dfa, idx);
                lc.add("eval.path", 1);
                match vpc::catch(|| pol.path_allowed(path)) {
                    Ok(Ok(got)) if got == exp => lc.add("pattern.path_allowed.agree", 1),
                    Ok(other) => {
                        let seq = seq_of(idx, &H);
                        cx.violation("pattern-path-allowed-differs", (spell[0].1.len(), seq.len(), format!("{} {idx:?}", spell[0].1)), || {
                            (format!("hop pattern `{}` path_allowed(path with hops {seq:?}) = {other:?}, language membership = {exp}", spell[0].1), json!({"kind": "pattern", "via": "path", "policy": spell[0].1, "hops": hops_json(&seq)}))
                        });
                    }
                    Err(m) => cx.panic_violation("HopPatternPolicy::path_allowed", &m, (spell[0].1.len(), idx.len(), spell[0].1.clone()), json!({"kind": "pattern", "via": "path", "policy": spell[0].1, "hops": hops_json(&seq_of(idx, &H))})),
                }
            }
        }
        lc.flush(&cx.counters);
        cx.leave(slot);
    });
    for i in [patterns.len() / 3, patterns.len() / 2, patterns.len() - 1] {
        let pat = &patterns[i];
        cx.run.sample(6, || json!({"pattern_minimal": print_min(pat, &preds), "parenthesised": print_full(pat, &preds), "whitespace": print_ws(pat, &preds), "dfa_states": build_dfa(pat, &PP, &H).acc.len()}));
    }
    json!({"patterns": patterns.len(), "sequences": nseq, "path_shaped_sequences": paths.len(), "max_dfa_states": max_states.into_inner(), "distinct_languages_up_to_bound": cx.distinct.len()})
}

/// `Policy` (ACL and hop pattern together) = conjunction: all ACLs with <= 1 entry x all single-item
/// patterns of depth <= 1 x all non-empty hop sequences of length <= 3 (slice) and all path-shaped
/// sequences of length <= 4 (ScionPath).
pub fn check_combined(cx: &Cx) -> vpc::Value {
    let preds = pp_strings();
    let acls = super::acl::all_acls(1);
    let items = all_depth(1, &[0, 1, 2, 3]);
    let real_h: Vec<PathPolicyHop> = H.iter().map(real_hop).collect();
    let paths = path_shaped_set(cx, 4);
    let mut seqs: Vec<Vec<u8>> = vec![];
    for a in 0..6u8 {
        seqs.push(vec![a]);
        for b in 0..6u8 {
            seqs.push(vec![a, b]);
            for c in 0..6u8 {
                seqs.push(vec![a, b, c]);
            }
        }
    }
    acls.par_iter().for_each(|acl| {
        let atext = super::acl::acl_text(acl);
        let slot = cx.enter("combined-policy", &atext);
        let lc = std::cell::RefCell::new(Local::default());
        for item in &items {
            let pat = vec![item.clone()];
            let ptext = print_min(&pat, &preds);
            let Ok(Ok(hp)) = vpc::catch(|| HopPatternPolicy::parse(&ptext)) else { continue };
            let pol = Policy::new(Some(real_acl(acl)), Some(hp));
            let dfa = build_dfa(&pat, &PP, &H);
            let text = format!("acl `{atext}` & pattern `{ptext}`");
            let exp_of = |idx: &[u8]| ref_acl_allows(acl, &seq_of(idx, &H)) && dfa_accepts(&dfa, idx);
            let report = |idx: &[u8], got: String, exp: bool, via: &str| {
                let seq = seq_of(idx, &H);
                cx.violation("combined-policy-not-conjunction", (text.len(), seq.len(), format!("{text} {idx:?}")), || {
                    (format!("Policy{{{text}}} via {via} on {seq:?} = {got}, expected {exp} (ACL statement AND pattern language)"), json!({"kind": "combined", "acl": super::acl::acl_json(acl), "pattern": ptext, "hops": hops_json(&seq)}))
                });
            };
            for idx in &seqs {
                let hops: Vec<PathPolicyHop> = idx.iter().map(|h| real_h[*h as usize]).collect();
                let exp = exp_of(idx);
                lc.borrow_mut().add("eval.combined", 1);
                match vpc::catch(|| pol.matches(&hops)) {
                    Ok(g) if g == exp => lc.borrow_mut().add(if exp { "combined.allow" } else { "combined.deny" }, 1),
                    Ok(g) => report(idx, g.to_string(), exp, "matches"),
                    Err(m) => report(idx, format!("panic {m}"), exp, "matches"),
                }
            }
            for (idx, path) in &paths {
                let exp = exp_of(idx);
                lc.borrow_mut().add("eval.combined", 1);
                match vpc::catch(|| pol.path_allowed(path)) {
                    Ok(Ok(g)) if g == exp => lc.borrow_mut().add(if exp { "combined.allow" } else { "combined.deny" }, 1),
                    Ok(o) => report(idx, format!("{o:?}"), exp, "path_allowed"),
                    Err(m) => report(idx, format!("panic {m}"), exp, "path_allowed"),
                }
            }
        }
        lc.borrow_mut().flush(&cx.counters);
        cx.leave(slot);
    });
    let _ = AclPolicy::parse; // (type used through real_acl)
    json!({"acls": acls.len(), "patterns": items.len(), "slice_sequences": seqs.len(), "path_sequences": paths.len()})
}
