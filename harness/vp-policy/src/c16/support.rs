//! Plumbing of the C16 check: conversions reference -> real types, violation aggregation with a
//! deterministic minimal witness per class, per-thread hang watchdog.
use std::{
    collections::BTreeMap,
    sync::{
        Mutex,
        atomic::{AtomicBool, AtomicU64, Ordering},
    },
    time::Instant,
};

use sciparse::{
    dataplane_path::view::ScionDpPathView,
    identifier::{asn::Asn, isd::Isd, isd_asn::IsdAsn},
    path::{
        ScionPath,
        metadata::{PathMetadata, path_interface::PathInterface},
        policy::{
            acl::{AclEntry, AclEntryOperator, AclPolicy},
            types::{HopPredicate, InterfacePredicate, InterfacesPredicate, PathPolicyHop},
        },
    },
};
use vpc::{Value, json};

use super::refmodel::*;

pub fn real_pred(p: &RPred) -> HopPredicate {
    HopPredicate {
        isd: Isd(p.isd),
        asn: p.asn.map(Asn),
        interfaces: match p.ifs {
            RIf::Any => InterfacesPredicate::Any,
            RIf::Either(i) => InterfacesPredicate::Either(InterfacePredicate::new(i)),
            RIf::Both(i, e) => InterfacesPredicate::Both { ingress: InterfacePredicate::new(i), egress: InterfacePredicate::new(e) },
        },
    }
}
pub fn real_hop(h: &RHop) -> PathPolicyHop {
    PathPolicyHop { isd_asn: IsdAsn::new(Isd(h.isd), Asn(h.asn)), ingress: h.ing, egress: h.eg }
}
pub fn real_op(allow: bool) -> AclEntryOperator {
    if allow { AclEntryOperator::Allow } else { AclEntryOperator::Deny }
}
pub fn real_acl(a: &RAcl) -> AclPolicy {
    AclPolicy::new_from_entries(real_op(a.default), a.entries.iter().map(|(o, p)| AclEntry::new(real_op(*o), real_pred(p))))
}

/// A hop sequence is path-shaped when a SCION path can produce it: >= 2 hops, first hop has
/// ingress 0 and egress != 0, last hop ingress != 0 and egress 0, transit hops both != 0.
pub fn path_shaped(seq: &[RHop]) -> bool {
    seq.len() >= 2
        && seq[0].ing == 0
        && seq[0].eg != 0
        && seq[seq.len() - 1].ing != 0
        && seq[seq.len() - 1].eg == 0
        && seq[1..seq.len() - 1].iter().all(|h| h.ing != 0 && h.eg != 0)
}
/// ScionPath whose metadata interface list is the flattening of `seq` (as in the crate's own test helper).
pub fn mk_path(seq: &[RHop]) -> ScionPath {
    let mut ifs = vec![];
    for h in seq {
        let ia = IsdAsn::new(Isd(h.isd), Asn(h.asn));
        if h.ing != 0 {
            ifs.push(PathInterface { isd_asn: ia, id: h.ing });
        }
        if h.eg != 0 {
            ifs.push(PathInterface { isd_asn: ia, id: h.eg });
        }
    }
    let src = ifs.first().unwrap().isd_asn;
    let dst = ifs.last().unwrap().isd_asn;
    ScionPath::new(src, dst, ScionDpPathView::Empty, Some(PathMetadata::new_minimal(0, 0, ifs)), None)
}

pub fn hops_json(seq: &[RHop]) -> Value {
    json!(seq.iter().map(|h| json!([h.isd, h.asn, h.ing, h.eg])).collect::<Vec<_>>())
}
pub fn hops_from_json(v: &Value) -> Vec<RHop> {
    v.as_array()
        .map(|a| {
            a.iter()
                .map(|h| RHop { isd: h[0].as_u64().unwrap() as u16, asn: h[1].as_u64().unwrap(), ing: h[2].as_u64().unwrap() as u16, eg: h[3].as_u64().unwrap() as u16 })
                .collect()
        })
        .unwrap_or_default()
}
pub fn seq_of(idx: &[u8], alphabet: &[RHop]) -> Vec<RHop> {
    idx.iter().map(|i| alphabet[*i as usize]).collect()
}

struct Found {
    count: u64,
    key: (usize, usize, String),
    what: String,
    witness: Value,
}

#[derive(Default)]
pub struct Counters(Mutex<BTreeMap<&'static str, u64>>);
impl Counters {
    pub fn add(&self, k: &'static str, n: u64) {
        if n > 0 {
            *self.0.lock().unwrap().entry(k).or_default() += n;
        }
    }
    pub fn get(&self, k: &'static str) -> u64 {
        self.0.lock().unwrap().get(k).copied().unwrap_or(0)
    }
    pub fn snapshot(&self) -> Vec<(&'static str, u64)> {
        self.0.lock().unwrap().iter().map(|(k, v)| (*k, *v)).collect()
    }
}

/// Per-unit counter buffer (the shared `Counters` mutex must stay out of hot loops).
#[derive(Default)]
pub struct Local(BTreeMap<&'static str, u64>);
impl Local {
    pub fn add(&mut self, k: &'static str, n: u64) {
        *self.0.entry(k).or_default() += n;
    }
    pub fn flush(&mut self, c: &Counters) {
        let mut g = c.0.lock().unwrap();
        for (k, v) in std::mem::take(&mut self.0) {
            *g.entry(k).or_default() += v;
        }
    }
}

pub struct Slot {
    start_ms: AtomicU64, // 0 = idle, else ms since run start + 1
    pub progress: AtomicU64,
    desc: Mutex<(String, String)>, // (kind, policy/input text)
}

pub struct Cx<'r> {
    pub run: &'r vpc::Run,
    pub counters: Counters,
    pub distinct: vpc::Distinct,
    found: Mutex<BTreeMap<String, Found>>,
    slots: Vec<Slot>,
    t0: Instant,
    budget_s: u64,
    pub done: AtomicBool,
}

impl<'r> Cx<'r> {
    pub fn new(run: &'r vpc::Run, budget_s: u64) -> Cx<'r> {
        let n = vpc::rayon::current_num_threads() + 2;
        Cx {
            run,
            counters: Counters::default(),
            distinct: vpc::Distinct::default(),
            found: Mutex::new(BTreeMap::new()),
            slots: (0..n).map(|_| Slot { start_ms: AtomicU64::new(0), progress: AtomicU64::new(0), desc: Mutex::new(Default::default()) }).collect(),
            t0: Instant::now(),
            budget_s,
            done: AtomicBool::new(false),
        }
    }

    /// Report one violating case. The witness kept per class is the one with the smallest `key`
    /// (policy text length, sequence length, text) so the replay artefact is minimal and the same
    /// on every run regardless of thread scheduling.
    pub fn violation(&self, class: &str, key: (usize, usize, String), mk: impl FnOnce() -> (String, Value)) {
        let mut f = self.found.lock().unwrap();
        match f.get_mut(class) {
            Some(e) => {
                e.count += 1;
                if key < e.key {
                    let (what, witness) = mk();
                    e.key = key;
                    e.what = what;
                    e.witness = witness;
                }
            }
            None => {
                let (what, witness) = mk();
                f.insert(class.to_string(), Found { count: 1, key, what, witness });
            }
        }
    }
    /// A panic of the subject: class `panic@file:line`.
    pub fn panic_violation(&self, ctx: &str, msg: &str, key: (usize, usize, String), witness: Value) {
        let loc = vpc::last_panic_location();
        let class = format!("panic@{}", loc.rsplit("/crates/").next().unwrap_or(&loc));
        self.violation(&class, key, || (format!("{ctx} panicked: {msg}"), witness));
    }
    pub fn class_summary(&self) -> Value {
        json!(self.found.lock().unwrap().iter().map(|(k, v)| json!({"class": k, "count": v.count, "minimal_witness": v.witness, "what": v.what})).collect::<Vec<_>>())
    }
    /// Hand the aggregated classes to `Run` (minimal witness first, then the remaining count).
    pub fn flush_violations(&self) {
        let f = self.found.lock().unwrap();
        for (class, v) in f.iter() {
            self.run.violation(class, &format!("{} [{} witnesses in this run; minimal one kept]", v.what, v.count), v.witness.clone());
            for _ in 1..v.count {
                self.run.violation(class, &v.what, Value::Null);
            }
        }
    }

    // ---- watchdog
    fn slot(&self) -> &Slot {
        let i = vpc::rayon::current_thread_index().map(|i| i + 1).unwrap_or(0);
        &self.slots[i.min(self.slots.len() - 1)]
    }
    /// Marks the calling thread as working on one unit (a policy with all its sequences, or a block
    /// of strings); the watchdog reports a hang when a unit exceeds the wall budget.
    pub fn enter(&self, kind: &str, text: &str) -> &Slot {
        let s = self.slot();
        {
            let mut d = s.desc.lock().unwrap();
            d.0.clear();
            d.0.push_str(kind);
            d.1.clear();
            d.1.push_str(text);
        }
        s.progress.store(0, Ordering::Relaxed);
        s.start_ms.store(self.t0.elapsed().as_millis() as u64 + 1, Ordering::SeqCst);
        s
    }
    pub fn leave(&self, s: &Slot) {
        s.start_ms.store(0, Ordering::SeqCst);
    }
    pub fn watchdog(&self) {
        while !self.done.load(Ordering::SeqCst) {
            std::thread::sleep(std::time::Duration::from_millis(250));
            let now = self.t0.elapsed().as_millis() as u64 + 1;
            for s in &self.slots {
                let st = s.start_ms.load(Ordering::SeqCst);
                if st != 0 && now.saturating_sub(st) > self.budget_s * 1000 {
                    let (kind, text) = s.desc.lock().unwrap().clone();
                    let prog = s.progress.load(Ordering::Relaxed);
                    let class = format!("hang-{kind}");
                    self.run.violation(
                        &class,
                        &format!("{kind} on {text:?} did not finish within the {} s wall budget (normal: milliseconds); progress code {prog}", self.budget_s),
                        json!({"kind": "hang", "unit": kind, "text": text, "progress": prog, "decode": "pattern/acl: hop indices+1 in base 7, most significant first; strings: index of the string inside its block"}),
                    );
                    println!("C16: unit exceeded its wall budget - reported as a hang, aborting the run");
                    println!("SUMMARY property=C16 violations=1 (hang) evidence=not-written");
                    std::process::exit(1);
                }
            }
        }
    }
}
