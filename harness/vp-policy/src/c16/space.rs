//! Pattern space of C16 and the start-up self-test of the derivative oracle.
use std::collections::BTreeSet;

use super::{H, PP, refmodel::*};

pub type Pattern = Vec<Ast>;

/// The literal space "depth <= 3, <= 3 items, 4 predicates" has ~2*10^18 members (1.27*10^6 items
/// of depth <= 3, cubed), so the completed bound is the union of four exhaustive sub-spaces:
///  U1  all single-item ASTs of depth <= 2 over the 4 predicates                    (1124)
///  U2  all series of 0..=3 items, each of depth <= 1, over the 4 predicates        (1+32+32^2+32^3)
///  U3  (thorough) all single-item ASTs of depth <= 3 over 2 predicates (`1-1#1`, `1-1#0,2`)  (33672)
///  U4  all series of 1..=3 items, each of depth <= `depth`, with <= `nodes` AST nodes in total
pub fn pattern_space(thorough: bool, depth: usize, nodes: usize) -> Vec<Pattern> {
    let all4: Vec<u8> = vec![0, 1, 2, 3];
    let mut set: BTreeSet<Pattern> = BTreeSet::new();
    // U1
    for a in all_depth(2, &all4) {
        set.insert(vec![a]);
    }
    // U2
    let d1 = all_depth(1, &all4);
    set.insert(vec![]);
    for a in &d1 {
        set.insert(vec![a.clone()]);
        for b in &d1 {
            set.insert(vec![a.clone(), b.clone()]);
            for c in &d1 {
                set.insert(vec![a.clone(), b.clone(), c.clone()]);
            }
        }
    }
    // U3
    if thorough {
        for a in all_depth(3, &[2, 3]) {
            set.insert(vec![a]);
        }
    }
    // U4
    let bn = by_nodes(depth, nodes, &all4);
    for n1 in 1..=nodes {
        for a in &bn[n1] {
            set.insert(vec![a.clone()]);
            for n2 in 1..=nodes.saturating_sub(n1) {
                for b in &bn[n2] {
                    set.insert(vec![a.clone(), b.clone()]);
                    for n3 in 1..=nodes.saturating_sub(n1 + n2) {
                        for c in &bn[n3] {
                            set.insert(vec![a.clone(), b.clone(), c.clone()]);
                        }
                    }
                }
            }
        }
    }
    let mut v: Vec<Pattern> = set.into_iter().collect();
    // smallest first (deterministic order; the minimal-witness rule does not depend on it)
    v.sort_by_key(|p| (p.iter().map(|a| a.nodes()).sum::<usize>(), p.len()));
    v
}

pub fn pattern_space_text(thorough: bool, depth: usize, nodes: usize) -> String {
    format!(
        "[U1 all single-item ASTs of depth <= 2 over 4 predicates; U2 all series of 0..3 items of depth <= 1 over 4 predicates; {}U4 all series of 1..3 items of depth <= {depth} with <= {nodes} AST nodes in total over 4 predicates] (the literal depth<=3 x 3-item space has ~2e18 members)",
        if thorough { "U3 all single-item ASTs of depth <= 3 over 2 predicates; " } else { "" }
    )
}

/// Derivative matcher vs. set-theoretic language semantics on all depth<=2 items over 2 predicates
/// and all 2-item series of depth<=1 items, words of length <= 3 over H. A disagreement is a
/// machinery failure (the oracle cannot be trusted), never a verdict.
pub fn oracle_selftest() {
    let mut pats: Vec<Pattern> = all_depth(2, &[2, 3]).into_iter().map(|a| vec![a]).collect();
    let d1 = all_depth(1, &[1, 2, 3]);
    for a in &d1 {
        for b in &d1 {
            pats.push(vec![a.clone(), b.clone()]);
        }
    }
    pats.push(vec![]);
    let maxlen = 3;
    for pat in &pats {
        let dfa = build_dfa(pat, &PP, &H);
        let lang = lang_pattern(pat, &PP, &H, maxlen);
        let mut n = 0usize;
        let mut word = vec![];
        fn go(d: &Dfa, lang: &BTreeSet<Vec<u8>>, word: &mut Vec<u8>, maxlen: usize, n: &mut usize, pat: &Pattern) {
            let a = dfa_accepts(d, word);
            if a != lang.contains(word) {
                vpc::machinery_failure(&format!("oracle self-test: derivative matcher and set semantics disagree on {pat:?} / {word:?}"));
            }
            if a {
                *n += 1;
            }
            if word.len() < maxlen {
                for h in 0..H.len() as u8 {
                    word.push(h);
                    go(d, lang, word, maxlen, n, pat);
                    word.pop();
                }
            }
        }
        go(&dfa, &lang, &mut word, maxlen, &mut n, pat);
        if n != lang.len() {
            vpc::machinery_failure("oracle self-test: language sizes differ");
        }
    }
}
