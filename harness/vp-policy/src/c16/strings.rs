//! Parser robustness: all short strings over the 14-character alphabet into every parser; where
//! the documented grammar (reference parser) also accepts, the meaning must agree.
use std::{
    collections::{BTreeMap, BTreeSet},
    str::FromStr,
    sync::Mutex,
};

use sciparse::path::policy::{
    acl::{AclEntry, AclPolicy},
    hop_pattern::HopPatternPolicy,
    types::{HopPredicate, PathPolicyHop},
};
use vpc::{json, rayon::prelude::*};

use super::{pat::PatDfs, refmodel::*, support::*};

pub const ALPHA: &[u8] = b"01-#, ()|?+*!&";
/// Hops used to compare meanings of accepted strings (predicates spell ISD/AS/interface 0,1,10,11..).
pub const H2: [RHop; 4] = [
    RHop { isd: 1, asn: 1, ing: 0, eg: 1 },
    RHop { isd: 1, asn: 1, ing: 1, eg: 0 },
    RHop { isd: 10, asn: 1, ing: 1, eg: 1 },
    RHop { isd: 1, asn: 10, ing: 1, eg: 10 },
];

struct Diverge(Mutex<BTreeMap<&'static str, BTreeSet<(usize, String)>>>);
impl Diverge {
    fn note(&self, class: &'static str, s: &str) {
        let mut m = self.0.lock().unwrap();
        let e = m.entry(class).or_default();
        e.insert((s.len(), s.to_string()));
        while e.len() > 6 {
            let last = e.iter().next_back().cloned().unwrap();
            e.remove(&last);
        }
    }
}

pub fn one_string(cx: &Cx, lc: &mut Local, dv: Option<&Diverge>, s: &str, real_h2: &[PathPolicyHop], slot: Option<&Slot>) {
    let key = || (s.len(), 0usize, s.to_string());
    let note = |c: &'static str| {
        if let Some(d) = dv {
            d.note(c, s)
        }
    };
    // ---- hop pattern
    lc.add("eval.parse", 4);
    let r = ref_parse_pattern(s);
    match vpc::catch(|| HopPatternPolicy::parse(s)) {
        Err(m) => cx.panic_violation("HopPatternPolicy::parse", &m, key(), json!({"kind": "parse", "parser": "pattern", "input": s})),
        Ok(Ok(pol)) => {
            lc.add("strings.pattern.accept", 1);
            match &r {
                Some((items, preds)) => {
                    let dfa = build_dfa(items, preds, &H2);
                    let mut d = PatDfs { cx: Some(cx), pol: &pol, text: s, spelling: "string-space", dfa: &dfa, alphabet: &H2, real_h: real_h2, maxlen: 3, buf: vec![], idx: vec![], slot, evals: 0, allow: 0, deny_live: 0, deny_dead: 0, sig: 0, mismatches: 0 };
                    d.go(0, 0);
                    lc.add("eval.pattern", d.evals);
                    lc.add("strings.pattern.meaning-compared", 1);
                }
                None => {
                    lc.add("strings.pattern.accepted-outside-documented-grammar", 1);
                    note("pattern accepted, not in documented grammar");
                }
            }
        }
        Ok(Err(e)) => {
            lc.add("strings.pattern.reject", 1);
            if r.is_some() {
                lc.add("strings.pattern.rejected-inside-documented-grammar", 1);
                note("pattern rejected, but in documented grammar");
            }
            if let Err(m) = vpc::catch(|| e.report(s)) {
                cx.panic_violation("ParseError::report", &m, key(), json!({"kind": "parse", "parser": "pattern", "input": s}));
            }
        }
    }
    // ---- ACL
    let r = ref_parse_acl(s);
    match vpc::catch(|| AclPolicy::parse(s)) {
        Err(m) => cx.panic_violation("AclPolicy::parse", &m, key(), json!({"kind": "parse", "parser": "acl", "input": s})),
        Ok(Ok(q)) => {
            lc.add("strings.acl.accept", 1);
            match &r {
                Some(ra) => {
                    if q != real_acl(ra) {
                        cx.violation("acl-parse-differs-from-documented-reading", key(), || (format!("AclPolicy::parse({s:?}) = {q:?}, documented reading {ra:?}"), json!({"kind": "parse", "parser": "acl", "input": s})));
                    }
                }
                None => {
                    lc.add("strings.acl.accepted-outside-documented-grammar", 1);
                    note("acl accepted, not in documented grammar");
                }
            }
        }
        Ok(Err(_)) => {
            lc.add("strings.acl.reject", 1);
            if r.is_some() {
                lc.add("strings.acl.rejected-inside-documented-grammar", 1);
                note("acl rejected, but in documented grammar");
            }
        }
    }
    match vpc::catch(|| AclEntry::parse(s)) {
        Err(m) => cx.panic_violation("AclEntry::parse", &m, key(), json!({"kind": "parse", "parser": "aclentry", "input": s})),
        Ok(Ok(_)) => lc.add("strings.aclentry.accept", 1),
        Ok(Err(_)) => lc.add("strings.aclentry.reject", 1),
    }
    // ---- predicate
    let r = ref_parse_pred(s);
    match vpc::catch(|| HopPredicate::from_str(s)) {
        Err(m) => cx.panic_violation("HopPredicate::from_str", &m, key(), json!({"kind": "parse", "parser": "pred", "input": s})),
        Ok(Ok(q)) => {
            lc.add("strings.pred.accept", 1);
            match &r {
                Some(rp) => {
                    if q != real_pred(rp) {
                        cx.violation("hop-predicate-documented-spelling-misparsed", key(), || (format!("HopPredicate::from_str({s:?}) = {q:?}, documented reading {rp:?}"), json!({"kind": "parse", "parser": "pred", "input": s})));
                    }
                }
                None => {
                    lc.add("strings.pred.accepted-outside-documented-grammar", 1);
                    note("predicate accepted, not in documented grammar");
                }
            }
            // whatever was accepted must survive print + re-parse
            match vpc::catch(|| HopPredicate::from_str(&q.to_string())) {
                Ok(Ok(b)) if b == q => lc.add("pred.roundtrip.ok", 1),
                Ok(other) => cx.violation("hop-predicate-parsed-value-does-not-roundtrip", key(), || (format!("{s:?} parses to {q:?}, prints {:?}, re-parses to {other:?}", q.to_string()), json!({"kind": "parse", "parser": "pred", "input": s}))),
                Err(m) => cx.panic_violation("HopPredicate print/re-parse", &m, key(), json!({"kind": "parse", "parser": "pred", "input": s})),
            }
        }
        Ok(Err(_)) => {
            lc.add("strings.pred.reject", 1);
            if r.is_some() {
                lc.add("strings.pred.rejected-inside-documented-grammar", 1);
                note("predicate rejected, but in documented grammar");
            }
        }
    }
}

pub fn check_strings(cx: &Cx, maxlen: usize) -> vpc::Value {
    let real_h2: Vec<PathPolicyHop> = H2.iter().map(real_hop).collect();
    let dv = Diverge(Mutex::new(BTreeMap::new()));
    // units: (length, prefix of min(len,2) characters)
    let mut units: Vec<(usize, Vec<u8>)> = vec![];
    for len in 0..=maxlen {
        match len {
            0 => units.push((0, vec![])),
            1 => units.extend(ALPHA.iter().map(|a| (1, vec![*a]))),
            _ => {
                for a in ALPHA {
                    for b in ALPHA {
                        units.push((len, vec![*a, *b]));
                    }
                }
            }
        }
    }
    let total = std::sync::atomic::AtomicU64::new(0);
    units.par_iter().for_each(|(len, prefix)| {
        let slot = cx.enter("parse", &format!("strings of length {len} with prefix {:?}", String::from_utf8_lossy(prefix)));
        let rest = len - prefix.len();
        let mut ctr = vec![0usize; rest];
        let mut buf: Vec<u8> = prefix.clone();
        buf.extend(std::iter::repeat(ALPHA[0]).take(rest));
        let mut n = 0u64;
        let mut lc = Local::default();
        loop {
            for (i, c) in ctr.iter().enumerate() {
                buf[prefix.len() + i] = ALPHA[*c];
            }
            slot.progress.store(n, std::sync::atomic::Ordering::Relaxed);
            one_string(cx, &mut lc, Some(&dv), std::str::from_utf8(&buf).unwrap(), &real_h2, None);
            n += 1;
            // odometer
            let mut k = rest;
            let mut done = true;
            while k > 0 {
                k -= 1;
                ctr[k] += 1;
                if ctr[k] < ALPHA.len() {
                    done = false;
                    break;
                }
                ctr[k] = 0;
            }
            if done {
                break;
            }
        }
        lc.flush(&cx.counters);
        total.fetch_add(n, std::sync::atomic::Ordering::Relaxed);
        cx.leave(slot);
    });
    let dvj: BTreeMap<&str, Vec<String>> = dv.0.lock().unwrap().iter().map(|(k, v)| (*k, v.iter().map(|x| x.1.clone()).collect())).collect();
    json!({"strings": total.into_inner(), "alphabet": String::from_utf8_lossy(ALPHA), "max_length": maxlen, "divergence_from_documented_grammar_samples(not violations)": dvj})
}
