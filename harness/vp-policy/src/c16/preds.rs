//! Predicate level: matching semantics and print / re-parse of HopPredicate values.
use std::str::FromStr;

use sciparse::path::policy::types::HopPredicate;
use vpc::json;

use super::{refmodel::*, support::*};

pub fn pred_json(p: &RPred) -> vpc::Value {
    json!({"isd": p.isd, "asn": p.asn, "ifs": match p.ifs { RIf::Any => json!(["any"]), RIf::Either(i) => json!(["either", i]), RIf::Both(i, e) => json!(["both", i, e]) }})
}
pub fn pred_from_json(v: &vpc::Value) -> RPred {
    let ifs = &v["ifs"];
    RPred {
        isd: v["isd"].as_u64().unwrap() as u16,
        asn: v["asn"].as_u64(),
        ifs: match ifs[0].as_str().unwrap() {
            "any" => RIf::Any,
            "either" => RIf::Either(ifs[1].as_u64().unwrap() as u16),
            _ => RIf::Both(ifs[1].as_u64().unwrap() as u16, ifs[2].as_u64().unwrap() as u16),
        },
    }
}

/// One predicate value: display, re-parse, compare. Returns a printable description of what happened.
pub fn roundtrip_one(cx: Option<&Cx>, p: &RPred) -> String {
    let real = real_pred(p);
    let key = |s: &str| (s.len(), 0usize, format!("{p:?}"));
    let shown = match vpc::catch(|| real.to_string()) {
        Ok(s) => s,
        Err(m) => {
            if let Some(cx) = cx {
                cx.panic_violation("HopPredicate Display", &m, key(""), json!({"kind": "pred-roundtrip", "pred": pred_json(p)}));
            }
            return format!("Display panicked: {m}");
        }
    };
    let back = match vpc::catch(|| HopPredicate::from_str(&shown)) {
        Ok(b) => b,
        Err(m) => {
            if let Some(cx) = cx {
                cx.panic_violation("HopPredicate::from_str", &m, key(&shown), json!({"kind": "pred-roundtrip", "pred": pred_json(p)}));
            }
            return format!("from_str({shown:?}) panicked: {m}");
        }
    };
    let verdict = match &back {
        Ok(b) if *b == real => "roundtrip-ok",
        Ok(_) => "hop-predicate-roundtrip-changes-value",
        Err(_) if p.asn.is_none() && p.ifs != RIf::Any => "hop-predicate-display-unparseable-wildcard-as",
        Err(_) => "hop-predicate-display-unparseable",
    };
    if let Some(cx) = cx {
        cx.counters.add("eval.pred", 2);
        if verdict == "roundtrip-ok" {
            cx.counters.add("pred.roundtrip.ok", 1);
        } else {
            cx.counters.add("pred.roundtrip.fail", 1);
            cx.violation(verdict, key(&shown), || {
                (
                    format!("HopPredicate {real:?} prints as {shown:?}; re-parsing gives {back:?} (property: hop predicates survive printing and re-parsing)"),
                    json!({"kind": "pred-roundtrip", "pred": pred_json(p), "printed": shown}),
                )
            });
        }
    }
    format!("{real:?} prints {shown:?}, re-parse -> {back:?}  [{verdict}]")
}

pub fn check_predicates(cx: &Cx) {
    // (a) matching semantics: every predicate over small corner sets x every hop over corner sets
    let mut ifs = vec![RIf::Any];
    for i in 0..4u16 {
        ifs.push(RIf::Either(i));
        for e in 0..4u16 {
            ifs.push(RIf::Both(i, e));
        }
    }
    let mut hops = vec![];
    for isd in [1u16, 2] {
        for asn in [1u64, 2] {
            for ing in 0..4u16 {
                for eg in 0..4u16 {
                    hops.push(RHop { isd, asn, ing, eg });
                }
            }
        }
    }
    for isd in [0u16, 1, 2] {
        for asn in [None, Some(0u64), Some(1), Some(2)] {
            for f in &ifs {
                let p = RPred { isd, asn, ifs: *f };
                let real = real_pred(&p);
                // the documented spelling, parsed by the real parser, must be the same value
                if let Some(s) = ref_print_pred(&p) {
                    match vpc::catch(|| HopPredicate::from_str(&s)) {
                        Ok(Ok(q)) if q == real => cx.counters.add("pred.spelling.parsed-equal", 1),
                        Ok(other) => cx.violation("hop-predicate-documented-spelling-misparsed", (s.len(), 0, s.clone()), || {
                            (format!("HopPredicate::from_str({s:?}) = {other:?}, expected {real:?}"), json!({"kind": "parse", "parser": "pred", "input": s}))
                        }),
                        Err(m) => cx.panic_violation("HopPredicate::from_str", &m, (s.len(), 0, s.clone()), json!({"kind": "parse", "parser": "pred", "input": s})),
                    }
                    cx.counters.add("eval.pred", 1);
                }
                for h in &hops {
                    let rh = real_hop(h);
                    let exp = ref_matches(&p, h);
                    cx.counters.add("eval.pred", 1);
                    match vpc::catch(|| (rh.matches(&real), real.matches(rh.isd_asn, rh.ingress, rh.egress))) {
                        Ok((a, b)) if a == exp && b == exp => cx.counters.add(if exp { "pred.match.true" } else { "pred.match.false" }, 1),
                        Ok((a, b)) => {
                            let s = ref_print_pred(&p).unwrap_or_else(|| format!("{p:?}"));
                            let class = if exp { "hop-predicate-misses-matching-hop" } else { "hop-predicate-matches-foreign-hop" };
                            cx.violation(class, (s.len(), 1, format!("{s} {h:?}")), || {
                                (
                                    format!("predicate {s} on hop {h:?}: PathPolicyHop::matches={a}, HopPredicate::matches={b}, documented semantics={exp}"),
                                    json!({"kind": "pred-match", "pred": pred_json(&p), "hops": hops_json(&[*h])}),
                                )
                            });
                        }
                        Err(m) => cx.panic_violation("HopPredicate::matches", &m, (0, 1, format!("{p:?}")), json!({"kind": "pred-match", "pred": pred_json(&p), "hops": hops_json(&[*h])})),
                    }
                }
            }
        }
    }
    // (b) print / re-parse over field corner sets
    let corner = [0u16, 1, 65535];
    let mut ifs = vec![RIf::Any];
    for i in corner {
        ifs.push(RIf::Either(i));
        for e in corner {
            ifs.push(RIf::Both(i, e));
        }
    }
    for isd in corner {
        for asn in [None, Some(0u64), Some(1), Some(u32::MAX as u64), Some(u32::MAX as u64 + 1), Some(0xff00_0000_0110), Some((1u64 << 48) - 1)] {
            for f in &ifs {
                roundtrip_one(Some(cx), &RPred { isd, asn, ifs: *f });
            }
        }
    }
}
