//! ACL part: all ACLs x all hop sequences, API-built and parsed, plus the ScionPath route.
use sciparse::path::{
    ScionPath,
    policy::{
        PathPolicy,
        acl::AclPolicy,
        types::PathPolicyHop,
    },
};
use vpc::{json, rayon::prelude::*};

use super::{H, P, refmodel::*, support::*};

pub fn acl_json(a: &RAcl) -> vpc::Value {
    json!({"entries": a.entries.iter().map(|(o, p)| json!([op_str(*o), super::preds::pred_json(p)])).collect::<Vec<_>>(), "default": op_str(a.default)})
}
pub fn acl_from_json(v: &vpc::Value) -> RAcl {
    RAcl {
        entries: v["entries"].as_array().unwrap().iter().map(|e| (e[0] == "+", super::preds::pred_from_json(&e[1]))).collect(),
        default: v["default"] == "+",
    }
}
pub fn acl_text(a: &RAcl) -> String {
    let mut s = String::new();
    for (o, p) in &a.entries {
        s.push_str(&format!("{} {} ", op_str(*o), ref_print_pred(p).unwrap_or_else(|| format!("{p:?}"))));
    }
    s + op_str(a.default)
}

/// All index sequences of length <= maxlen over an alphabet of n symbols that are path-shaped,
/// with the ScionPath built from them; also checks hops_from_path on each (once).
pub fn path_shaped_set(cx: &Cx, maxlen: usize) -> Vec<(Vec<u8>, ScionPath)> {
    let mut out = vec![];
    let mut cur: Vec<Vec<u8>> = vec![vec![]];
    for _ in 0..maxlen {
        let mut next = vec![];
        for s in &cur {
            for h in 0..H.len() as u8 {
                let mut t = s.clone();
                t.push(h);
                next.push(t);
            }
        }
        for s in &next {
            let seq = seq_of(s, &H);
            if path_shaped(&seq) {
                let path = mk_path(&seq);
                let want: Vec<PathPolicyHop> = seq.iter().map(real_hop).collect();
                cx.counters.add("eval.path", 1);
                match vpc::catch(|| PathPolicyHop::hops_from_path(&path)) {
                    Ok(Ok(got)) if got == want => cx.counters.add("path.hops_from_path.equal", 1),
                    Ok(other) => cx.violation("hops-from-path-differs", (0, seq.len(), format!("{s:?}")), || {
                        (format!("hops_from_path of the path built from {seq:?} = {other:?}"), json!({"kind": "hops-from-path", "hops": hops_json(&seq)}))
                    }),
                    Err(m) => cx.panic_violation("hops_from_path", &m, (0, seq.len(), format!("{s:?}")), json!({"kind": "hops-from-path", "hops": hops_json(&seq)})),
                }
                out.push((s.clone(), path));
            }
        }
        cur = next;
    }
    out
}

pub fn all_acls(max_entries: usize) -> Vec<RAcl> {
    let mut lists: Vec<Vec<(bool, RPred)>> = vec![vec![]];
    let mut all = lists.clone();
    for _ in 0..max_entries {
        let mut next = vec![];
        for l in &lists {
            for o in [true, false] {
                for p in &P {
                    let mut t = l.clone();
                    t.push((o, *p));
                    next.push(t);
                }
            }
        }
        all.extend(next.iter().cloned());
        lists = next;
    }
    let mut v = vec![];
    for l in all {
        for d in [true, false] {
            v.push(RAcl { entries: l.clone(), default: d });
        }
    }
    v
}

struct Dfs<'a> {
    cx: &'a Cx<'a>,
    acl: &'a RAcl,
    pol: &'a AclPolicy,
    via: &'static str,
    text: &'a str,
    hop_verdict: [(bool, bool); 6],
    real_h: &'a [PathPolicyHop],
    maxlen: usize,
    buf: Vec<PathPolicyHop>,
    idx: Vec<u8>,
    slot: &'a Slot,
    evals: u64,
    allow: u64,
    deny: u64,
    nontrivial: u64,
}
impl Dfs<'_> {
    fn go(&mut self, exp: bool, touched: bool, code: u64) {
        self.slot.progress.store(code, std::sync::atomic::Ordering::Relaxed);
        self.evals += 1;
        if exp {
            self.allow += 1
        } else {
            self.deny += 1
        }
        if touched {
            self.nontrivial += 1;
        }
        let (pol, buf) = (self.pol, &self.buf);
        match vpc::catch(|| pol.matches(buf)) {
            Ok(got) if got == exp => {}
            Ok(got) => {
                let class = if self.idx.is_empty() && exp {
                    "acl-empty-path-default-deny"
                } else if got {
                    "acl-allows-denied-path"
                } else {
                    "acl-denies-allowed-path"
                };
                let seq = seq_of(&self.idx, &H);
                self.cx.violation(class, (self.text.len(), seq.len(), format!("{} {:?}", self.text, self.idx)), || {
                    (
                        format!("ACL `{}` ({}) on hops {seq:?}: AclPolicy::matches={got}, statement (for every hop the first matching entry allows, default if none)={exp}", self.text, self.via),
                        json!({"kind": "acl", "via": self.via, "policy": self.text, "acl": acl_json(self.acl), "hops": hops_json(&seq)}),
                    )
                });
            }
            Err(m) => {
                let seq = seq_of(&self.idx, &H);
                self.cx.panic_violation("AclPolicy::matches", &m, (self.text.len(), seq.len(), self.text.to_string()), json!({"kind": "acl", "via": self.via, "policy": self.text, "acl": acl_json(self.acl), "hops": hops_json(&seq)}));
            }
        }
        if self.buf.len() < self.maxlen {
            for h in 0..6usize {
                self.buf.push(self.real_h[h]);
                self.idx.push(h as u8);
                let (v, by_entry) = self.hop_verdict[h];
                self.go(exp && v, touched || by_entry, code * 7 + h as u64 + 1);
                self.idx.pop();
                self.buf.pop();
            }
        }
    }
}

pub fn check_acls(cx: &Cx, max_entries: usize, seq_len: usize) -> vpc::Value {
    let acls = all_acls(max_entries);
    let real_h: Vec<PathPolicyHop> = H.iter().map(real_hop).collect();
    let paths = path_shaped_set(cx, seq_len);
    let nseq: u64 = (0..=seq_len).map(|k| 6u64.pow(k as u32)).sum();
    acls.par_iter().for_each(|acl| {
        let text = acl_text(acl);
        let slot = cx.enter("acl-match", &text);
        let mut hv = [(false, false); 6];
        for (i, h) in H.iter().enumerate() {
            hv[i] = ref_acl_hop(acl, h);
        }
        let api = real_acl(acl);

        // --- string route
        let wild_at: Vec<usize> = acl.entries.iter().enumerate().filter(|(_, e)| ref_is_wildcard(&e.1)).map(|(i, _)| i).collect();
        cx.counters.add("eval.parse", 1);
        let parsed = vpc::catch(|| AclPolicy::parse(&text));
        let wit = || json!({"kind": "parse", "parser": "acl", "input": text});
        let mut parsed_pol: Option<AclPolicy> = None;
        match parsed {
            Err(m) => cx.panic_violation("AclPolicy::parse", &m, (text.len(), 0, text.clone()), wit()),
            Ok(Ok(q)) => {
                cx.counters.add("acl.parse.accept", 1);
                if wild_at.is_empty() {
                    if q != api {
                        cx.violation("acl-parse-differs-from-entries", (text.len(), 0, text.clone()), || (format!("AclPolicy::parse({text:?}) = {q:?}, expected {api:?}"), wit()));
                    }
                } else {
                    // accepted although an explicit wildcard entry is followed by more: must still mean the same
                    parsed_pol = Some(q);
                }
            }
            Ok(Err(e)) => {
                cx.counters.add("acl.parse.reject", 1);
                if wild_at.is_empty() {
                    cx.violation("acl-documented-syntax-rejected", (text.len(), 0, text.clone()), || (format!("AclPolicy::parse({text:?}) fails: {e}"), wit()));
                } else {
                    cx.counters.add("acl.parse.reject.wildcard-entry-not-last(documented)", 1);
                }
            }
        }
        // trailing wildcard entry as the default ("- 1 + 0"): documented form
        if wild_at == [acl.entries.len().wrapping_sub(1)] && acl.default {
            let n = acl.entries.len();
            let short = RAcl { entries: acl.entries[..n - 1].to_vec(), default: acl.entries[n - 1].0 };
            let mut t = String::new();
            for (o, p) in &acl.entries {
                t.push_str(&format!("{} {} ", op_str(*o), ref_print_pred(p).unwrap()));
            }
            let t = t.trim_end().to_string();
            cx.counters.add("eval.parse", 1);
            match vpc::catch(|| AclPolicy::parse(&t)) {
                Ok(Ok(q)) if q == real_acl(&short) => cx.counters.add("acl.parse.accept.trailing-wildcard-as-default", 1),
                Ok(other) => cx.violation("acl-trailing-wildcard-misparsed", (t.len(), 0, t.clone()), || {
                    (format!("AclPolicy::parse({t:?}) = {other:?}, expected entries {:?} with the wildcard entry's operator as default", short.entries), json!({"kind": "parse", "parser": "acl", "input": t}))
                }),
                Err(m) => cx.panic_violation("AclPolicy::parse", &m, (t.len(), 0, t.clone()), json!({"kind": "parse", "parser": "acl", "input": t})),
            }
        }

        // --- all hop sequences through the API-built policy (and the parsed one if it was accepted unexpectedly)
        let mut routes: Vec<(&'static str, &AclPolicy)> = vec![("api", &api)];
        if let Some(q) = &parsed_pol {
            routes.push(("parse", q));
        }
        for (via, pol) in routes {
            let mut d = Dfs { cx, acl, pol, via, text: &text, hop_verdict: hv, real_h: &real_h, maxlen: seq_len, buf: vec![], idx: vec![], slot, evals: 0, allow: 0, deny: 0, nontrivial: 0 };
            d.go(true, false, 0);
            cx.counters.add("eval.acl", d.evals);
            cx.counters.add("acl.verdict.allow", d.allow);
            cx.counters.add("acl.verdict.deny", d.deny);
            cx.counters.add("nontrivial.acl", d.nontrivial);
        }

        // --- ScionPath route
        let mut lc = Local::default();
        for (idx, path) in &paths {
            let exp = idx.iter().all(|h| hv[*h as usize].0);
            lc.add("eval.path", 1);
            match vpc::catch(|| api.path_allowed(path)) {
                Ok(Ok(got)) if got == exp => lc.add("acl.path_allowed.agree", 1),
                Ok(other) => {
                    let seq = seq_of(idx, &H);
                    cx.violation("acl-path-allowed-differs", (text.len(), seq.len(), format!("{text} {idx:?}")), || {
                        (format!("ACL `{text}` path_allowed(path with hops {seq:?}) = {other:?}, statement = {exp}"), json!({"kind": "acl", "via": "path", "policy": text, "acl": acl_json(acl), "hops": hops_json(&seq)}))
                    });
                }
                Err(m) => cx.panic_violation("AclPolicy::path_allowed", &m, (text.len(), idx.len(), text.clone()), json!({"kind": "acl", "via": "path", "policy": text, "acl": acl_json(acl), "hops": hops_json(&seq_of(idx, &H))})),
            }
        }
        lc.flush(&cx.counters);
        cx.leave(slot);
    });
    cx.run.sample(2, || json!({"acl": acl_text(&acls[acls.len() / 2]), "hop_sequences": nseq, "route": "AclPolicy::new_from_entries + AclPolicy::parse + path_allowed"}));
    json!({"acls": acls.len(), "sequences": nseq, "path_shaped_sequences": paths.len()})
}
