//! `--replay <file>`: re-run one recorded case and print what the real code and the reference say.
use std::str::FromStr;

use sciparse::path::policy::{
    PathPolicy, Policy,
    acl::{AclEntry, AclPolicy},
    hop_pattern::HopPatternPolicy,
    types::{HopPredicate, PathPolicyHop},
};

use super::{acl::acl_from_json, preds::*, refmodel::*, support::*};

pub fn replay(file: &std::path::Path) -> ! {
    let v = vpc::read_replay(file);
    let w = &v["witness"];
    println!("REPLAY property=C16 class={} kind={}", v["class"], w["kind"]);
    let mut hops = hops_from_json(&w["hops"]);
    if w["kind"] == "hang" {
        // progress code: hop indices + 1 in base 7, most significant digit first
        let mut c = w["progress"].as_u64().unwrap_or(0);
        let mut idx = vec![];
        while c > 0 {
            idx.push((c % 7 - 1) as u8);
            c /= 7;
        }
        idx.reverse();
        hops = seq_of(&idx, &super::H);
    }
    let real_hops: Vec<PathPolicyHop> = hops.iter().map(real_hop).collect();
    let mut differs = false;
    match w["kind"].as_str().unwrap_or("") {
        "pattern" | "hang" if w["kind"] == "pattern" || w["unit"] == "pattern-match" => {
            let s = w["policy"].as_str().or(w["text"].as_str()).unwrap();
            let real = vpc::catch(|| HopPatternPolicy::parse(s));
            println!("  HopPatternPolicy::parse({s:?}) -> {real:?}");
            let reference = ref_parse_pattern(s);
            println!("  reference parse -> {reference:?}");
            if let (Ok(Ok(p)), Some((items, preds))) = (&real, &reference) {
                let dfa = build_dfa(items, preds, &hops);
                let idx: Vec<u8> = (0..hops.len() as u8).collect();
                let exp = dfa_accepts(&dfa, &idx);
                let got = vpc::catch(|| p.matches(&real_hops));
                println!("  hops {hops:?}\n  HopPatternPolicy::matches -> {got:?}; regular-language membership (derivatives) -> {exp}");
                differs |= got != Ok(exp);
                if w["via"] == "path" && path_shaped(&hops) {
                    let g = vpc::catch(|| p.path_allowed(&mk_path(&hops)));
                    println!("  path_allowed -> {g:?}");
                    differs |= !matches!(g, Ok(Ok(x)) if x == exp);
                }
            } else {
                differs = true;
            }
        }
        "acl" | "combined" => {
            let acl = acl_from_json(&w["acl"]);
            let exp_acl = ref_acl_allows(&acl, &hops);
            let pol = if w["via"] == "parse" {
                match vpc::catch(|| AclPolicy::parse(w["policy"].as_str().unwrap())) {
                    Ok(Ok(p)) => p,
                    o => {
                        println!("  AclPolicy::parse -> {o:?}");
                        std::process::exit(1)
                    }
                }
            } else {
                real_acl(&acl)
            };
            println!("  ACL {acl:?}\n  real policy {pol:?}\n  hops {hops:?}");
            if w["kind"] == "acl" {
                let got = vpc::catch(|| pol.matches(&real_hops));
                println!("  AclPolicy::matches -> {got:?}; statement transcription -> {exp_acl}");
                differs |= got != Ok(exp_acl);
                if w["via"] == "path" && path_shaped(&hops) {
                    let g = vpc::catch(|| pol.path_allowed(&mk_path(&hops)));
                    println!("  path_allowed -> {g:?}");
                    differs |= !matches!(g, Ok(Ok(x)) if x == exp_acl);
                }
            } else {
                let ps = w["pattern"].as_str().unwrap();
                let (items, preds) = ref_parse_pattern(ps).unwrap();
                let dfa = build_dfa(&items, &preds, &hops);
                let exp = exp_acl && dfa_accepts(&dfa, &(0..hops.len() as u8).collect::<Vec<_>>());
                let both = Policy::new(Some(pol), HopPatternPolicy::parse(ps).ok());
                let got = vpc::catch(|| both.matches(&real_hops));
                println!("  Policy::matches -> {got:?}; ACL statement AND pattern language -> {exp}");
                differs |= got != Ok(exp);
            }
        }
        "pred-roundtrip" => {
            let p = pred_from_json(&w["pred"]);
            let r = roundtrip_one(None, &p);
            println!("  {r}");
            differs = !r.ends_with("[roundtrip-ok]");
        }
        "pred-match" => {
            let p = pred_from_json(&w["pred"]);
            for (h, rh) in hops.iter().zip(&real_hops) {
                let got = vpc::catch(|| rh.matches(&real_pred(&p)));
                let exp = ref_matches(&p, h);
                println!("  predicate {p:?} on hop {h:?}: real {got:?}, documented {exp}");
                differs |= got != Ok(exp);
            }
        }
        "hops-from-path" => {
            let g = vpc::catch(|| PathPolicyHop::hops_from_path(&mk_path(&hops)));
            println!("  hops_from_path -> {g:?}\n  expected {real_hops:?}");
            differs = !matches!(g, Ok(Ok(x)) if x == real_hops);
        }
        "spelling" => {
            let a: Vec<_> = w["spellings"].as_array().unwrap().iter().map(|s| vpc::catch(|| HopPatternPolicy::parse(s.as_str().unwrap()))).collect();
            for (s, p) in w["spellings"].as_array().unwrap().iter().zip(&a) {
                println!("  parse({s}) -> {p:?}");
            }
            differs = a.windows(2).any(|x| x[0] != x[1]);
        }
        "parse" | "hang" => {
            let s = w["input"].as_str().or(w["text"].as_str()).unwrap();
            match w["parser"].as_str().unwrap_or("all") {
                "pattern" => println!("  HopPatternPolicy::parse({s:?}) -> {:?}\n  documented grammar -> {:?}", vpc::catch(|| HopPatternPolicy::parse(s)), ref_parse_pattern(s)),
                "acl" => println!("  AclPolicy::parse({s:?}) -> {:?}\n  documented grammar -> {:?}", vpc::catch(|| AclPolicy::parse(s)), ref_parse_acl(s)),
                "aclentry" => println!("  AclEntry::parse({s:?}) -> {:?}", vpc::catch(|| AclEntry::parse(s))),
                "pred" => println!("  HopPredicate::from_str({s:?}) -> {:?}\n  documented grammar -> {:?}", vpc::catch(|| HopPredicate::from_str(s)), ref_parse_pred(s)),
                _ => println!("  unit {s:?}: re-run the tier to reproduce a hang of a string block"),
            }
            differs = true;
        }
        k => vpc::machinery_failure(&format!("unknown replay kind {k:?}")),
    }
    println!("REPLAY-RESULT {}", if differs { "still-violating (or not decidable from this artefact alone)" } else { "agrees-with-reference" });
    std::process::exit(if differs { 1 } else { 0 })
}
