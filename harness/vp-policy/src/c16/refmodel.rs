//! Independent reference semantics for C16: hop predicates, ACLs, hop-pattern ASTs with three
//! printers, reference parsers (documented grammar only) and a Brzozowski-derivative matcher.
//! Nothing in here calls into /repo.
use std::collections::{BTreeMap, BTreeSet};

// ---------------------------------------------------------------- predicates and hops

#[derive(Clone, Copy, PartialEq, Eq, PartialOrd, Ord, Debug)]
pub enum RIf {
    Any,
    Either(u16),
    Both(u16, u16),
}
#[derive(Clone, Copy, PartialEq, Eq, PartialOrd, Ord, Debug)]
pub struct RPred {
    pub isd: u16,
    pub asn: Option<u64>,
    pub ifs: RIf,
}
#[derive(Clone, Copy, PartialEq, Eq, PartialOrd, Ord, Debug)]
pub struct RHop {
    pub isd: u16,
    pub asn: u64,
    pub ing: u16,
    pub eg: u16,
}

/// Documented semantics (types.rs doc comments + SCION path policy language): ISD 0, AS 0 / absent
/// and interface 0 in a PREDICATE are wildcards; `#i` = ingress or egress is i; `#i,e` = both.
pub fn ref_matches(p: &RPred, h: &RHop) -> bool {
    let isd_ok = p.isd == 0 || p.isd == h.isd;
    let as_ok = match p.asn {
        None | Some(0) => true,
        Some(a) => a == h.asn,
    };
    let w = |pi: u16, hi: u16| pi == 0 || pi == hi;
    let if_ok = match p.ifs {
        RIf::Any => true,
        RIf::Either(i) => w(i, h.ing) || w(i, h.eg),
        RIf::Both(i, e) => w(i, h.ing) && w(e, h.eg),
    };
    isd_ok && as_ok && if_ok
}

pub fn ref_is_wildcard(p: &RPred) -> bool {
    p.isd == 0 && matches!(p.asn, None | Some(0)) && matches!(p.ifs, RIf::Any | RIf::Either(0) | RIf::Both(0, 0))
}

pub fn ref_print_asn(a: u64) -> String {
    if a <= u32::MAX as u64 { format!("{a}") } else { format!("{:x}:{:x}:{:x}", (a >> 32) & 0xffff, (a >> 16) & 0xffff, a & 0xffff) }
}

/// Documented spelling: "1", "1-2", "1-2#3", "1-2#3,4". (asn None with interfaces has no spelling.)
pub fn ref_print_pred(p: &RPred) -> Option<String> {
    let mut s = format!("{}", p.isd);
    match (p.asn, p.ifs) {
        (None, RIf::Any) => return Some(s),
        (None, _) => return None,
        (Some(a), _) => {
            s.push('-');
            s.push_str(&ref_print_asn(a));
        }
    }
    match p.ifs {
        RIf::Any => {}
        RIf::Either(i) => s.push_str(&format!("#{i}")),
        RIf::Both(i, e) => s.push_str(&format!("#{i},{e}")),
    }
    Some(s)
}

fn dec(s: &str, max: u64) -> Option<u64> {
    if s.is_empty() || s.len() > 20 || !s.bytes().all(|b| b.is_ascii_digit()) {
        return None;
    }
    let mut v: u128 = 0;
    for b in s.bytes() {
        v = v * 10 + (b - b'0') as u128;
    }
    if v <= max as u128 { Some(v as u64) } else { None }
}

fn ref_parse_asn(s: &str) -> Option<u64> {
    if !s.is_empty() && s.bytes().all(|b| b.is_ascii_digit()) {
        return dec(s, u32::MAX as u64);
    }
    let parts: Vec<&str> = s.split(':').collect();
    if parts.len() != 3 {
        return None;
    }
    let mut v = 0u64;
    for p in parts {
        if p.is_empty() || p.len() > 4 || !p.bytes().all(|b| b.is_ascii_hexdigit()) {
            return None;
        }
        v = (v << 16) | u64::from_str_radix(p, 16).ok()?;
    }
    Some(v)
}

pub fn ref_parse_pred(s: &str) -> Option<RPred> {
    let (isd_s, rest) = match s.split_once('-') {
        Some((a, b)) => (a, Some(b)),
        None => (s, None),
    };
    let isd = dec(isd_s, 65535)? as u16;
    let Some(rest) = rest else { return Some(RPred { isd, asn: None, ifs: RIf::Any }) };
    let (asn_s, if_s) = match rest.split_once('#') {
        Some((a, b)) => (a, Some(b)),
        None => (rest, None),
    };
    let asn = ref_parse_asn(asn_s)?;
    let Some(if_s) = if_s else { return Some(RPred { isd, asn: Some(asn), ifs: RIf::Any }) };
    let ifs = match if_s.split_once(',') {
        None => RIf::Either(dec(if_s, 65535)? as u16),
        Some((a, b)) => RIf::Both(dec(a, 65535)? as u16, dec(b, 65535)? as u16),
    };
    Some(RPred { isd, asn: Some(asn), ifs })
}

// ---------------------------------------------------------------- ACL

#[derive(Clone, PartialEq, Eq, PartialOrd, Ord, Debug)]
pub struct RAcl {
    pub entries: Vec<(bool, RPred)>,
    pub default: bool,
}

/// Direct transcription of the property statement.
pub fn ref_acl_hop(acl: &RAcl, h: &RHop) -> (bool, bool) {
    // (verdict for this hop, decided by an entry rather than the default)
    match acl.entries.iter().find(|(_, p)| ref_matches(p, h)) {
        Some((allow, _)) => (*allow, true),
        None => (acl.default, false),
    }
}
pub fn ref_acl_allows(acl: &RAcl, hops: &[RHop]) -> bool {
    hops.iter().all(|h| ref_acl_hop(acl, h).0)
}

pub fn op_str(allow: bool) -> &'static str {
    if allow { "+" } else { "-" }
}

/// "{op} {pred} {op} {pred} {default-op}"
pub fn ref_print_acl(acl: &RAcl) -> String {
    let mut s = String::new();
    for (a, p) in &acl.entries {
        s.push_str(op_str(*a));
        s.push(' ');
        s.push_str(&ref_print_pred(p).expect("printable predicate"));
        s.push(' ');
    }
    s.push_str(op_str(acl.default));
    s
}

/// Documented grammar: `(op pred)* op`, or `(op pred)* op WILDCARD` where the wildcard entry is the
/// last one and its operator is the default ("Wildcard hop predicate must be the last entry").
pub fn ref_parse_acl(s: &str) -> Option<RAcl> {
    let toks: Vec<&str> = s.split(' ').filter(|t| !t.is_empty()).collect();
    let op = |t: &str| match t {
        "+" => Some(true),
        "-" => Some(false),
        _ => None,
    };
    let mut entries = vec![];
    let mut i = 0;
    loop {
        match toks.len() - i {
            0 => return None,
            1 => return Some(RAcl { entries, default: op(toks[i])? }),
            rem => {
                let o = op(toks[i])?;
                let p = ref_parse_pred(toks[i + 1])?;
                if ref_is_wildcard(&p) {
                    return if rem == 2 { Some(RAcl { entries, default: o }) } else { None };
                }
                entries.push((o, p));
                i += 2;
            }
        }
    }
}

// ---------------------------------------------------------------- hop-pattern AST

#[derive(Clone, PartialEq, Eq, PartialOrd, Ord, Debug)]
pub enum Ast {
    P(u8),
    Or(Box<Ast>, Box<Ast>),
    Opt(Box<Ast>),
    Plus(Box<Ast>),
    Star(Box<Ast>),
}
impl Ast {
    pub fn nodes(&self) -> usize {
        match self {
            Ast::P(_) => 1,
            Ast::Or(a, b) => 1 + a.nodes() + b.nodes(),
            Ast::Opt(a) | Ast::Plus(a) | Ast::Star(a) => 1 + a.nodes(),
        }
    }
    pub fn depth(&self) -> usize {
        match self {
            Ast::P(_) => 0,
            Ast::Or(a, b) => 1 + a.depth().max(b.depth()),
            Ast::Opt(a) | Ast::Plus(a) | Ast::Star(a) => 1 + a.depth(),
        }
    }
}

fn post_char(a: &Ast) -> char {
    match a {
        Ast::Opt(_) => '?',
        Ast::Plus(_) => '+',
        Ast::Star(_) => '*',
        _ => unreachable!(),
    }
}

/// Token list of the minimal spelling: postfix binds tighter than `|`, `|` is left associative,
/// items of the top-level series are juxtaposed.
fn toks_min(a: &Ast, preds: &[String], out: &mut Vec<String>) {
    match a {
        Ast::P(i) => out.push(preds[*i as usize].clone()),
        Ast::Or(l, r) => {
            toks_min(l, preds, out); // an Or on the left needs no parentheses (left associative)
            out.push("|".into());
            if matches!(**r, Ast::Or(..)) {
                out.push("(".into());
                toks_min(r, preds, out);
                out.push(")".into());
            } else {
                toks_min(r, preds, out);
            }
        }
        Ast::Opt(e) | Ast::Plus(e) | Ast::Star(e) => {
            if matches!(**e, Ast::Or(..)) {
                out.push("(".into());
                toks_min(e, preds, out);
                out.push(")".into());
            } else {
                toks_min(e, preds, out);
            }
            out.push(post_char(a).to_string());
        }
    }
}
fn toks_full(a: &Ast, preds: &[String], out: &mut Vec<String>) {
    out.push("(".into());
    match a {
        Ast::P(i) => out.push(preds[*i as usize].clone()),
        Ast::Or(l, r) => {
            toks_full(l, preds, out);
            out.push("|".into());
            toks_full(r, preds, out);
        }
        Ast::Opt(e) | Ast::Plus(e) | Ast::Star(e) => {
            toks_full(e, preds, out);
            out.push(post_char(a).to_string());
        }
    }
    out.push(")".into());
}

fn is_pred_tok(t: &str) -> bool {
    !matches!(t, "(" | ")" | "|" | "?" | "+" | "*")
}

/// Joins tokens with the least whitespace: a blank only where two predicate tokens would fuse.
/// `item_sep` is inserted between top-level items.
fn join(items: &[Vec<String>], item_sep: &str) -> String {
    let mut s = String::new();
    for (k, toks) in items.iter().enumerate() {
        if k > 0 {
            s.push_str(item_sep);
        }
        for (j, t) in toks.iter().enumerate() {
            if j > 0 && is_pred_tok(t) && is_pred_tok(&toks[j - 1]) {
                s.push(' ');
            }
            s.push_str(t);
        }
    }
    s
}

/// Spelling 0: minimal (doc-comment style, one blank between items).
pub fn print_min(pat: &[Ast], preds: &[String]) -> String {
    let items: Vec<Vec<String>> = pat
        .iter()
        .map(|a| {
            let mut v = vec![];
            toks_min(a, preds, &mut v);
            v
        })
        .collect();
    join(&items, " ")
}
/// Spelling 1: every sub-expression parenthesised, no blanks except between items.
pub fn print_full(pat: &[Ast], preds: &[String]) -> String {
    let items: Vec<Vec<String>> = pat
        .iter()
        .map(|a| {
            let mut v = vec![];
            toks_full(a, preds, &mut v);
            v
        })
        .collect();
    join(&items, " ")
}
/// Spelling 2: minimal token stream with whitespace (blank, tab, newline runs) around EVERY token.
pub fn print_ws(pat: &[Ast], preds: &[String]) -> String {
    const WS: [&str; 4] = ["  ", "\t", " \n ", "   "];
    let mut s = String::from(" ");
    let mut n = 0;
    for a in pat {
        let mut v = vec![];
        toks_min(a, preds, &mut v);
        for t in v {
            s.push_str(&t);
            s.push_str(WS[n % WS.len()]);
            n += 1;
        }
    }
    s
}

// ---------------------------------------------------------------- reference pattern parser

/// Documented grammar. pattern := item*; item := alt; alt := post ('|' post)*; post := atom [?+*]*;
/// atom := PRED | '(' alt ')'. `!` and `&` are documented as unsupported. Returns items + predicate table.
pub fn ref_parse_pattern(s: &str) -> Option<(Vec<Ast>, Vec<RPred>)> {
    #[derive(Clone, PartialEq, Debug)]
    enum T {
        Pred(String),
        C(char),
    }
    let mut toks = vec![];
    let cs: Vec<char> = s.chars().collect();
    let mut i = 0;
    while i < cs.len() {
        let c = cs[i];
        if c == ' ' || c == '\t' || c == '\n' {
            i += 1;
        } else if "!&|()+?*".contains(c) {
            toks.push(T::C(c));
            i += 1;
        } else {
            let st = i;
            while i < cs.len() && !(cs[i].is_whitespace() || "!&|()+?*".contains(cs[i])) {
                i += 1;
            }
            toks.push(T::Pred(cs[st..i].iter().collect()));
        }
    }
    struct Ps {
        toks: Vec<T>,
        pos: usize,
        preds: Vec<RPred>,
    }
    impl Ps {
        fn peek(&self) -> Option<&T> {
            self.toks.get(self.pos)
        }
        fn atom(&mut self) -> Option<Ast> {
            match self.peek()?.clone() {
                T::Pred(p) => {
                    self.pos += 1;
                    let rp = ref_parse_pred(&p)?;
                    let idx = match self.preds.iter().position(|x| *x == rp) {
                        Some(i) => i,
                        None => {
                            self.preds.push(rp);
                            self.preds.len() - 1
                        }
                    };
                    Some(Ast::P(idx as u8))
                }
                T::C('(') => {
                    self.pos += 1;
                    let e = self.alt()?;
                    if self.peek() == Some(&T::C(')')) {
                        self.pos += 1;
                        Some(e)
                    } else {
                        None
                    }
                }
                _ => None,
            }
        }
        fn post(&mut self) -> Option<Ast> {
            let mut e = self.atom()?;
            loop {
                match self.peek() {
                    Some(T::C('?')) => e = Ast::Opt(Box::new(e)),
                    Some(T::C('+')) => e = Ast::Plus(Box::new(e)),
                    Some(T::C('*')) => e = Ast::Star(Box::new(e)),
                    _ => return Some(e),
                }
                self.pos += 1;
            }
        }
        fn alt(&mut self) -> Option<Ast> {
            let mut e = self.post()?;
            while self.peek() == Some(&T::C('|')) {
                self.pos += 1;
                let r = self.post()?;
                e = Ast::Or(Box::new(e), Box::new(r));
            }
            Some(e)
        }
    }
    let mut ps = Ps { toks, pos: 0, preds: vec![] };
    let mut items = vec![];
    while ps.pos < ps.toks.len() {
        items.push(ps.alt()?);
    }
    Some((items, ps.preds))
}

// ---------------------------------------------------------------- Brzozowski derivatives

#[derive(Clone, PartialEq, Eq, PartialOrd, Ord, Debug)]
enum Re {
    Null,
    Eps,
    Sym(u8),
    Cat(u32, u32),
    Alt(Vec<u32>),
    Star(u32),
}
const NULL: u32 = 0;
const EPS: u32 = 1;

pub struct Arena {
    nodes: Vec<Re>,
    ids: BTreeMap<Re, u32>,
    nullable: Vec<bool>,
}
impl Arena {
    pub fn new() -> Arena {
        let mut a = Arena { nodes: vec![], ids: BTreeMap::new(), nullable: vec![] };
        assert_eq!(a.mk(Re::Null), NULL);
        assert_eq!(a.mk(Re::Eps), EPS);
        a
    }
    fn mk(&mut self, r: Re) -> u32 {
        if let Some(i) = self.ids.get(&r) {
            return *i;
        }
        let n = match &r {
            Re::Null | Re::Sym(_) => false,
            Re::Eps | Re::Star(_) => true,
            Re::Cat(a, b) => self.nullable[*a as usize] && self.nullable[*b as usize],
            Re::Alt(v) => v.iter().any(|x| self.nullable[*x as usize]),
        };
        let id = self.nodes.len() as u32;
        self.nodes.push(r.clone());
        self.nullable.push(n);
        self.ids.insert(r, id);
        id
    }
    fn cat(&mut self, a: u32, b: u32) -> u32 {
        if a == NULL || b == NULL {
            return NULL;
        }
        if a == EPS {
            return b;
        }
        if b == EPS {
            return a;
        }
        if let Re::Cat(x, y) = self.nodes[a as usize].clone() {
            let t = self.cat(y, b);
            return self.cat(x, t);
        }
        self.mk(Re::Cat(a, b))
    }
    fn alt(&mut self, xs: &[u32]) -> u32 {
        let mut set = BTreeSet::new();
        for x in xs {
            match &self.nodes[*x as usize] {
                Re::Null => {}
                Re::Alt(v) => set.extend(v.iter().copied()),
                _ => {
                    set.insert(*x);
                }
            }
        }
        match set.len() {
            0 => NULL,
            1 => *set.iter().next().unwrap(),
            _ => self.mk(Re::Alt(set.into_iter().collect())),
        }
    }
    fn star(&mut self, a: u32) -> u32 {
        if a == NULL || a == EPS {
            return EPS;
        }
        if let Re::Star(_) = self.nodes[a as usize] {
            return a;
        }
        self.mk(Re::Star(a))
    }
    pub fn of_ast(&mut self, a: &Ast) -> u32 {
        match a {
            Ast::P(i) => self.mk(Re::Sym(*i)),
            Ast::Or(l, r) => {
                let (l, r) = (self.of_ast(l), self.of_ast(r));
                self.alt(&[l, r])
            }
            Ast::Opt(e) => {
                let e = self.of_ast(e);
                self.alt(&[EPS, e])
            }
            Ast::Plus(e) => {
                let e = self.of_ast(e);
                let s = self.star(e);
                self.cat(e, s)
            }
            Ast::Star(e) => {
                let e = self.of_ast(e);
                self.star(e)
            }
        }
    }
    pub fn of_pattern(&mut self, pat: &[Ast]) -> u32 {
        let mut r = EPS;
        for a in pat.iter().rev() {
            let x = self.of_ast(a);
            r = self.cat(x, r);
        }
        r
    }
    /// d/dh r, where `sym(p)` says whether predicate p matches the hop h.
    pub fn deriv(&mut self, r: u32, sym: &dyn Fn(u8) -> bool) -> u32 {
        match self.nodes[r as usize].clone() {
            Re::Null | Re::Eps => NULL,
            Re::Sym(p) => {
                if sym(p) {
                    EPS
                } else {
                    NULL
                }
            }
            Re::Cat(a, b) => {
                let da = self.deriv(a, sym);
                let l = self.cat(da, b);
                if self.nullable[a as usize] {
                    let db = self.deriv(b, sym);
                    self.alt(&[l, db])
                } else {
                    l
                }
            }
            Re::Alt(v) => {
                let ds: Vec<u32> = v.iter().map(|x| self.deriv(*x, sym)).collect();
                self.alt(&ds)
            }
            Re::Star(a) => {
                let da = self.deriv(a, sym);
                self.cat(da, r)
            }
        }
    }
    pub fn nullable(&self, r: u32) -> bool {
        self.nullable[r as usize]
    }
}

/// Dense DFA of a pattern over a hop alphabet, built by iterated derivatives.
pub struct Dfa {
    pub trans: Vec<Vec<u16>>, // [state][hop index]
    pub acc: Vec<bool>,
    pub dead: Vec<bool>, // state == Null
}
pub fn build_dfa(pat: &[Ast], preds: &[RPred], hops: &[RHop]) -> Dfa {
    let mut ar = Arena::new();
    let start = ar.of_pattern(pat);
    let table: Vec<Vec<bool>> = hops.iter().map(|h| preds.iter().map(|p| ref_matches(p, h)).collect()).collect();
    let mut index: BTreeMap<u32, u16> = BTreeMap::new();
    let mut order = vec![start];
    index.insert(start, 0);
    let mut trans: Vec<Vec<u16>> = vec![];
    let mut i = 0;
    while i < order.len() {
        let r = order[i];
        let mut row = vec![];
        for hi in 0..hops.len() {
            let t = &table[hi];
            let d = ar.deriv(r, &|p| t[p as usize]);
            let id = *index.entry(d).or_insert_with(|| {
                order.push(d);
                (order.len() - 1) as u16
            });
            row.push(id);
        }
        trans.push(row);
        i += 1;
    }
    let acc = order.iter().map(|r| ar.nullable(*r)).collect();
    let dead = order.iter().map(|r| *r == NULL).collect();
    Dfa { trans, acc, dead }
}
pub fn dfa_accepts(d: &Dfa, seq: &[u8]) -> bool {
    let mut s = 0u16;
    for h in seq {
        s = d.trans[s as usize][*h as usize];
    }
    d.acc[s as usize]
}

// ---------------------------------------------------------------- denotational self-test of the oracle

/// All words (hop-index strings) of length <= maxlen in the language of `a` — set semantics,
/// used only to cross-check the derivative matcher at start-up.
fn lang(a: &Ast, table: &[Vec<bool>], maxlen: usize) -> BTreeSet<Vec<u8>> {
    let cat = |x: &BTreeSet<Vec<u8>>, y: &BTreeSet<Vec<u8>>| -> BTreeSet<Vec<u8>> {
        let mut o = BTreeSet::new();
        for u in x {
            for v in y {
                if u.len() + v.len() <= maxlen {
                    let mut w = u.clone();
                    w.extend(v);
                    o.insert(w);
                }
            }
        }
        o
    };
    let eps: BTreeSet<Vec<u8>> = [vec![]].into_iter().collect();
    match a {
        Ast::P(p) => (0..table.len()).filter(|h| table[*h][*p as usize]).map(|h| vec![h as u8]).collect(),
        Ast::Or(l, r) => lang(l, table, maxlen).union(&lang(r, table, maxlen)).cloned().collect(),
        Ast::Opt(e) => lang(e, table, maxlen).union(&eps).cloned().collect(),
        Ast::Plus(e) | Ast::Star(e) => {
            let base = lang(e, table, maxlen);
            let mut acc = if matches!(a, Ast::Star(_)) { eps.clone() } else { base.clone() };
            loop {
                let next: BTreeSet<Vec<u8>> = acc.union(&cat(&acc, &base)).cloned().collect();
                if next == acc {
                    return acc;
                }
                acc = next;
            }
        }
    }
}
pub fn lang_pattern(pat: &[Ast], preds: &[RPred], hops: &[RHop], maxlen: usize) -> BTreeSet<Vec<u8>> {
    let table: Vec<Vec<bool>> = hops.iter().map(|h| preds.iter().map(|p| ref_matches(p, h)).collect()).collect();
    let mut acc: BTreeSet<Vec<u8>> = [vec![]].into_iter().collect();
    for a in pat {
        let l = lang(a, &table, maxlen);
        let mut o = BTreeSet::new();
        for u in &acc {
            for v in &l {
                if u.len() + v.len() <= maxlen {
                    let mut w = u.clone();
                    w.extend(v);
                    o.insert(w);
                }
            }
        }
        acc = o;
    }
    acc
}

// ---------------------------------------------------------------- AST enumeration

/// All ASTs of depth <= d over predicate indices `preds`.
pub fn all_depth(d: usize, preds: &[u8]) -> Vec<Ast> {
    let mut cur: Vec<Ast> = preds.iter().map(|p| Ast::P(*p)).collect();
    for _ in 0..d {
        let mut next: Vec<Ast> = preds.iter().map(|p| Ast::P(*p)).collect();
        for e in &cur {
            next.push(Ast::Opt(Box::new(e.clone())));
            next.push(Ast::Plus(Box::new(e.clone())));
            next.push(Ast::Star(Box::new(e.clone())));
        }
        for a in &cur {
            for b in &cur {
                next.push(Ast::Or(Box::new(a.clone()), Box::new(b.clone())));
            }
        }
        cur = next;
    }
    cur
}

/// by_nodes[n] = all ASTs with exactly n nodes and depth <= d over `preds` (n in 1..=nmax).
pub fn by_nodes(d: usize, nmax: usize, preds: &[u8]) -> Vec<Vec<Ast>> {
    // tab[k][n]: depth <= k, exactly n nodes
    let mut tab: Vec<Vec<Vec<Ast>>> = vec![];
    for k in 0..=d {
        let mut row: Vec<Vec<Ast>> = vec![vec![]; nmax + 1];
        if nmax >= 1 {
            row[1] = preds.iter().map(|p| Ast::P(*p)).collect();
        }
        if k > 0 {
            for n in 2..=nmax {
                let prev = &tab[k - 1];
                let mut v = vec![];
                for e in &prev[n - 1] {
                    v.push(Ast::Opt(Box::new(e.clone())));
                    v.push(Ast::Plus(Box::new(e.clone())));
                    v.push(Ast::Star(Box::new(e.clone())));
                }
                for i in 1..n - 1 {
                    for a in &prev[i] {
                        for b in &prev[n - 1 - i] {
                            v.push(Ast::Or(Box::new(a.clone()), Box::new(b.clone())));
                        }
                    }
                }
                row[n] = v;
            }
        }
        tab.push(row);
    }
    tab.pop().unwrap()
}
