//! C16 — path policy languages mean what their specification says.
//!
//! Bounded exhaustive enumeration of ACLs, hop-pattern ASTs (three spellings each), hop sequences
//! and short strings, run through the real parsers / matchers of sciparse and compared with the
//! independent reference semantics of `refmodel` (statement transcription for ACLs,
//! Brzozowski derivatives for hop patterns).
mod acl;
mod pat;
mod preds;
mod refmodel;
mod replay;
mod space;
mod strings;
mod support;

use refmodel::*;
use support::*;
use vpc::json;

/// Hop alphabet H (6): first-hop form (ingress 0), three transit forms differing in ingress / AS /
/// ISD, last-hop form (egress 0).
pub const H: [RHop; 6] = [
    RHop { isd: 1, asn: 1, ing: 0, eg: 1 },
    RHop { isd: 1, asn: 1, ing: 1, eg: 2 },
    RHop { isd: 1, asn: 1, ing: 3, eg: 2 },
    RHop { isd: 1, asn: 2, ing: 1, eg: 2 },
    RHop { isd: 2, asn: 1, ing: 1, eg: 2 },
    RHop { isd: 1, asn: 1, ing: 1, eg: 0 },
];
/// Predicate alphabet P (8): ISD-only, ISD-AS, AS wildcard, `#i`, `#i,e`, `#0,e`, `#i,0`, full wildcard.
/// Match sets over H: {0,1,2,3,5} {0,1,2,5} {0,1,2,3,5} {0,1,5} {1} {1,2} {1,5} {all}.
pub const P: [RPred; 8] = [
    RPred { isd: 1, asn: None, ifs: RIf::Any },
    RPred { isd: 1, asn: Some(1), ifs: RIf::Any },
    RPred { isd: 1, asn: Some(0), ifs: RIf::Any },
    RPred { isd: 1, asn: Some(1), ifs: RIf::Either(1) },
    RPred { isd: 1, asn: Some(1), ifs: RIf::Both(1, 2) },
    RPred { isd: 1, asn: Some(1), ifs: RIf::Both(0, 2) },
    RPred { isd: 1, asn: Some(1), ifs: RIf::Both(1, 0) },
    RPred { isd: 0, asn: None, ifs: RIf::Any },
];
/// The 4 predicates used in hop patterns: `0`, `1`, `1-1#1`, `1-1#0,2`.
pub const PP: [RPred; 4] = [P[7], P[0], P[3], P[5]];

pub fn run(args: &vpc::Args) -> ! {
    vpc::quiet_panics();
    if let Some(f) = &args.replay {
        replay::replay(f);
    }
    let run = vpc::Run::new(args);
    let thorough = run.tier == vpc::Tier::Thorough;

    space::oracle_selftest();

    let seq_len = run.tier.pick(4usize, 6usize);
    let acl_entries = run.tier.pick(2usize, 3usize);
    let str_len = run.tier.pick(5usize, 6usize);
    let depth = run.tier.pick(2usize, 3usize);
    let nodes = run.tier.pick(6usize, 6usize);
    let patterns = space::pattern_space(thorough, depth, nodes);
    println!("C16: {} patterns enumerated in {:.1}s", patterns.len(), run.elapsed_s());

    let (bound, counters, classes, distinct_languages) = {
        let cx = Cx::new(&run, if thorough { 120 } else { 25 });
        let mut bound = json!({});
        std::thread::scope(|s| {
            s.spawn(|| cx.watchdog());
            preds::check_predicates(&cx);
            let t = std::time::Instant::now();
            let acl_b = acl::check_acls(&cx, acl_entries, seq_len);
            let t_acl = t.elapsed().as_secs_f64();
            let t = std::time::Instant::now();
            let pat_b = pat::check_patterns(&cx, &patterns, seq_len);
            let t_pat = t.elapsed().as_secs_f64();
            let t = std::time::Instant::now();
            let pol_b = pat::check_combined(&cx);
            let str_b = strings::check_strings(&cx, str_len);
            let t_str = t.elapsed().as_secs_f64();
            bound = json!({"acl": acl_b, "patterns": pat_b, "combined_policy": pol_b, "strings": str_b,
                "phase_wall_s": {"acl": t_acl, "patterns": t_pat, "strings_and_combined": t_str}});
            cx.done.store(true, std::sync::atomic::Ordering::SeqCst);
        });
        cx.flush_violations();
        (bound, cx.counters.snapshot(), cx.class_summary(), cx.distinct.len())
    };

    let get = |k: &str| counters.iter().find(|(n, _)| *n == k).map(|(_, v)| *v).unwrap_or(0);
    let evaluations = get("eval.acl") + get("eval.pattern") + get("eval.pred") + get("eval.parse") + get("eval.path") + get("eval.combined");
    let nontrivial = get("nontrivial.acl") + get("nontrivial.pattern");
    for (k, v) in &counters {
        run.outcome_n(k, *v);
    }
    let bound_text = format!(
        "COMPLETED. Alphabets: predicates P(8) / PP(4 in patterns), hops H(6). \
         ACL: all {} ACLs with <= {acl_entries} entries over {{+,-}} x P x default {{+,-}}, built through the API and printed through AclPolicy::parse, x all {} hop sequences of length <= {seq_len} over H (+ path_allowed on the {} path-shaped ones). \
         Hop patterns: {} distinct patterns = {}, each in 3 spellings (minimal / fully parenthesised / whitespace-stretched) x all {} hop sequences of length <= {seq_len} over H (spellings 2 and 3 are re-matched on sequences of length <= 3 when their parsed policy is == to the minimal one, else on all). \
         Strings: all {} strings of length <= {str_len} over `{}` into HopPatternPolicy::parse, AclPolicy::parse, AclEntry::parse, HopPredicate::from_str. \
         HopPredicate print/re-parse: all 273 values over isd{{0,1,65535}} x asn{{None,0,1,2^32-1,2^32,ff00:0:110,2^48-1}} x interfaces{{Any,Either(i),Both(i,e)}}, i,e in {{0,1,65535}}; predicate matching: 252 predicates x 64 hops.",
        bound["acl"]["acls"], bound["acl"]["sequences"], bound["acl"]["path_shaped_sequences"],
        patterns.len(), space::pattern_space_text(thorough, depth, nodes), bound["patterns"]["sequences"],
        bound["strings"]["strings"], String::from_utf8_lossy(strings::ALPHA),
    );
    println!("C16 {bound_text}");
    println!("C16 evaluations={evaluations} distinct_nontrivial={nontrivial} distinct_languages={distinct_languages}");
    run.finish(
        "exploration",
        json!({
            "evaluations": evaluations,
            "evaluations_by_kind": {"acl_matches": get("eval.acl"), "pattern_matches": get("eval.pattern"), "predicate": get("eval.pred"), "parser_calls": get("eval.parse"), "scionpath_route": get("eval.path"), "combined_policy": get("eval.combined")},
            "distinct_nontrivial": nontrivial,
            "rule": "every (policy, hop sequence) pair is visited exactly once per route, so pairs are distinct by construction; a pair counts as non-trivial when the verdict is not the default one: ACL pairs in which at least one hop is decided by a matching entry (not by the default action), pattern pairs whose hop sequence is in the language or is a live prefix of it (derivative not the empty language). Measured by counters nontrivial.acl / nontrivial.pattern.",
            "distinct_languages_up_to_bound": distinct_languages,
            "exhaustive": true,
            "bound": bound_text,
            "spaces": bound,
            "violation_classes_minimal_witnesses": classes,
        }),
        &[
            "Reference semantics of a predicate: ISD 0, AS 0/absent, interface 0 are wildcards; `#i` = ingress or egress equals i; `#i,e` = both (types.rs doc comments).",
            "Grammar taken as documented: a pattern is a series of expressions; inside an expression postfix ? + * bind tighter than |, | is left-associative, parentheses group; concatenation exists only at the top level (the parser rejects `(1 2)`).",
            "An ACL string whose explicit wildcard entry is followed by anything is rejected by the parser as documented ('Wildcard hop predicate must be the last entry'); this is counted as an outcome, not a violation. Such ACLs are still checked when built through the API.",
            "Hop values have non-zero ISD/AS (a hop with ISD or AS 0 would be treated as matching everything by Isd/Asn::matches; not a realisable hop).",
            "A hang is detected by a watchdog (wall budget per policy or string block); the real code cannot be single-stepped.",
            "Divergences between the real parsers and the documented grammar on strings outside that grammar (e.g. accepting a leading '+' in numbers) are reported as samples, not violations: the property only demands termination without panic there.",
        ],
    )
}
