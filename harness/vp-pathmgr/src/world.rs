//! One real `PathSetProbe` driven through an event history, the observations taken from it, the
//! canonical state key and the three oracle groups (C05, C06, C07).
use std::{collections::BTreeMap, future::Future, time::Duration};

use scion_stack::path::{
    PathStrategy,
    manager::verif_api::{PathSetProbe, ProbeConfig},
};
use sciparse::path::{fingerprint::data_plane::DpPathFingerprint, policy::acl::AclPolicy};
use serde_json::{Value, json};

use crate::universe::*;

// ---------------------------------------------------------------------------------------------
// Configurations
// ---------------------------------------------------------------------------------------------
#[derive(Clone, Copy, Debug)]
pub struct Cfg {
    pub name: &'static str,
    pub max_cached: usize,
    pub min_delay: u32,
    pub interval: u32,
    pub threshold: u32,
    pub backoff_min: u32,
    pub backoff_factor: f32,
    pub backoff_max: u32,
    pub issue_cache: usize,
    pub dedup: u32,
    pub swap: f32,
    pub prof: Profiles,
}
pub fn configs() -> Vec<Cfg> {
    let mut v = vec![];
    for (name2, name3, min_delay) in [("A2", "A3", 5u32), ("B2", "B3", 4u32)] {
        for (name, max_cached) in [(name2, 2usize), (name3, 3usize)] {
            v.push(Cfg {
                name,
                max_cached,
                min_delay,
                interval: 40,
                threshold: 10,
                backoff_min: 5,
                backoff_factor: 2.0,
                backoff_max: 20,
                issue_cache: 2,
                dedup: 3,
                swap: 0.5,
                prof: Profiles { far: 1000, soon: 12, near: 8 },
            });
        }
    }
    v
}
impl Cfg {
    fn probe(&self) -> ProbeConfig {
        ProbeConfig {
            max_cached: self.max_cached,
            refetch_interval: Duration::from_secs(self.interval as u64),
            min_refetch_delay: Duration::from_secs(self.min_delay as u64),
            min_expiry_threshold: Duration::from_secs(self.threshold as u64),
            backoff: scion_sdk_utils::backoff::BackoffConfig {
                minimum_delay_secs: self.backoff_min as f32,
                maximum_delay_secs: self.backoff_max as f32,
                factor: self.backoff_factor,
                jitter_secs: 0.0,
            },
            issue_cache_size: self.issue_cache,
            dedup_window: Duration::from_secs(self.dedup as u64),
            swap_threshold: self.swap,
        }
    }
}
/// Half-life of a path's reliability penalty (reliability.rs) - the "freshness" unit of C07.
pub const HALF_LIFE: u32 = 90;
/// Half-life of a cached issue (issues.rs IssueMarker::SYSTEM_HALF_LIFE).
pub const ISSUE_HALF_LIFE: u32 = 30;

// ---------------------------------------------------------------------------------------------
// Histories
// ---------------------------------------------------------------------------------------------
#[derive(Clone, Copy, Debug, PartialEq, Eq, Hash, PartialOrd, Ord)]
pub enum Ev {
    /// initial `fetch_and_update` at T0 (always the first step)
    Init,
    Adv(u32),
    /// like Adv, but the first due tick inside is delivered 1 s after its due instant
    AdvLate(u32),
    Issue(u8),
    Deliver,
}
#[derive(Clone, Debug, PartialEq, Eq, Hash, PartialOrd, Ord)]
pub struct Step {
    pub ev: Ev,
    /// outcomes consumed by the first ticks inside the event; later ticks repeat the last one
    pub outs: Vec<Out>,
}
pub type Hist = Vec<Step>;

pub fn step_json(s: &Step) -> Value {
    let ev = match s.ev {
        Ev::Init => "Init".to_string(),
        Ev::Adv(d) => format!("Adv({d})"),
        Ev::AdvLate(d) => format!("AdvLate({d})"),
        Ev::Issue(k) => format!("Issue({k}) {}", ISSUES[k as usize].0),
        Ev::Deliver => "Deliver".to_string(),
    };
    json!({"ev": ev, "lookups": s.outs.iter().map(|o| o.label()).collect::<Vec<_>>()})
}
pub fn step_from_json(v: &Value) -> Option<Step> {
    let e = v["ev"].as_str()?;
    let num = |p: &str| -> Option<u32> { e.strip_prefix(p)?.split(')').next()?.parse().ok() };
    let ev = if e == "Init" {
        Ev::Init
    } else if e == "Deliver" {
        Ev::Deliver
    } else if let Some(d) = num("AdvLate(") {
        Ev::AdvLate(d)
    } else if let Some(d) = num("Adv(") {
        Ev::Adv(d)
    } else {
        Ev::Issue(num("Issue(")? as u8)
    };
    let outs = v["lookups"].as_array()?.iter().map(|o| Out::parse(o.as_str()?)).collect::<Option<Vec<_>>>()?;
    Some(Step { ev, outs })
}
pub fn hist_text(h: &[Step]) -> String {
    h.iter()
        .map(|s| {
            let ev = match s.ev {
                Ev::Init => "Init".to_string(),
                Ev::Adv(d) => format!("Adv({d})"),
                Ev::AdvLate(d) => format!("AdvLate({d})"),
                Ev::Issue(k) => format!("Issue({})", ISSUES[k as usize].0),
                Ev::Deliver => "Deliver".to_string(),
            };
            if s.outs.is_empty() { ev } else { format!("{ev}[{}]", s.outs.iter().map(|o| o.label()).collect::<Vec<_>>().join("; ")) }
        })
        .collect::<Vec<_>>()
        .join(" ; ")
}

// ---------------------------------------------------------------------------------------------
// Observation of the subject at one instant
// ---------------------------------------------------------------------------------------------
#[derive(Clone, Debug, PartialEq)]
pub struct SlotObs {
    pub id: Option<usize>,
    pub expiry: Option<u32>,
    pub endpoints_ok: bool,
    pub has_meta: bool,
}
#[derive(Clone, Debug, PartialEq, Default)]
pub struct Obs {
    /// raw content of the active slot (state, used for the canonical key and transition oracles)
    pub slot: Option<SlotObs>,
    /// what a sender is handed at this instant: the real hand-out function (`cached_path`/`path`
    /// go through `PathSetHandle::try_unexpired_active_path`)
    pub handed: Option<SlotObs>,
    /// (universe id or 99, expiry, reliability score at the instant) in cache order
    pub cache: Vec<(usize, Option<u32>, f32)>,
    pub next_refetch: i64,
    pub failed: u32,
    pub err: Option<String>,
    pub icache: Vec<(u64, i64)>,
    pub fifo: Vec<(u64, i64)>,
    pub undelivered: usize,
}
impl Obs {
    pub fn slot_id(&self) -> Option<usize> {
        self.slot.as_ref().and_then(|s| s.id)
    }
    pub fn json(&self, now: u32) -> Value {
        let nm = |i: usize| UNIVERSE.get(i).map(|d| d.name).unwrap_or("??");
        json!({
            "t": now - T0,
            "send": self.handed.as_ref().map(|s| json!({"path": s.id.map(nm), "expires_in": s.expiry.map(|e| e as i64 - now as i64)})),
            "slot": self.slot.as_ref().map(|s| json!({"path": s.id.map(nm), "expires_in": s.expiry.map(|e| e as i64 - now as i64)})),
            "cache": self.cache.iter().map(|(i, e, s)| json!([nm(*i), e.map(|e| e as i64 - now as i64), (*s * 1000.0).round() / 1000.0])).collect::<Vec<_>>(),
            "next_refetch_in": self.next_refetch - now as i64,
            "failed_attempts": self.failed,
            "error": self.err,
            "issue_cache_len": self.icache.len(),
            "issue_fifo_len": self.fifo.len(),
            "undelivered": self.undelivered,
        })
    }
}

#[derive(Clone, Debug)]
pub struct Viol {
    pub prop: &'static str,
    pub class: String,
    pub what: String,
    pub at: u32,
}

/// Reference memory kept next to the subject (never read from it).
#[derive(Default, Clone)]
struct RefMem {
    /// every (path, expiry) ever returned by a lookup that answered Ok
    ever: Vec<(usize, u32)>,
    /// result of the most recent lookup that answered Ok
    last_ok: Vec<(usize, u32)>,
    /// did the most recent lookup leave at least one policy-conforming path?
    last_lookup_useful: Option<bool>,
    /// reports: (kind, instant, was broadcast)
    reports: Vec<(usize, u32, bool)>,
    /// broadcast but not yet consumed by the worker
    pending: Vec<(usize, u32)>,
    /// (path, instant): the path was in the slot when a failure report lying on it was consumed
    hit_in_slot: Vec<(usize, u32)>,
    /// expiry p1 carried the last time a lookup returned it (profile "same")
    p1_last_returned: Option<u32>,
}
impl RefMem {
    /// age of the youngest report (consumed or not) that lies on path `id`
    fn youngest_report_on(&self, id: usize, now: u32) -> Option<u32> {
        self.reports.iter().filter(|(k, _, _)| ref_issue_on_path(*k, id)).map(|(_, t, _)| now - *t).min()
    }
}

#[derive(Debug, PartialEq, Eq)]
pub enum Stop {
    NeedOutcome,
    UnusedOutcome,
    TieMismatch,
    Panic(String),
}

#[derive(Default, Clone, Debug)]
pub struct Stats {
    pub ticks: u32,
    pub lookups: u32,
    pub slot_changes: u32,
    pub slot_changed_after_issue: u32,
    pub issue_consumed_on_slot: u32,
    pub steer_demanded: u32,
    pub steer_dontcare: u32,
    pub steer_no_alternative: u32,
    pub unrelated_deliver: u32,
    pub dedup_ignored: u32,
    pub tie_points: u32,
    pub recover_selected: u32,
    pub quiet_ticks: u32,
    pub steer_stale_report: u32,
}

pub struct World {
    pub cfg: Cfg,
    pr: PathSetProbe<Scripted>,
    script: Scripted,
    fps: &'static BTreeMap<DpPathFingerprint, usize>,
    pub now: u32,
    mem: RefMem,
    pub late_used: bool,
    /// oracles run only while this is set (last step of the history)
    checking: bool,
    pub viol: Vec<Viol>,
    pub stats: Stats,
    /// tie point seen at branching tick j of the last step
    pub last_tie_points: Vec<bool>,
    pub trace: Option<Vec<Value>>,
}

thread_local! {
    static PANIC_LOC: std::cell::RefCell<String> = const { std::cell::RefCell::new(String::new()) };
    static PATH_MEMO: std::cell::RefCell<std::collections::HashMap<(usize, u32), sciparse::path::ScionPath>> = std::cell::RefCell::new(std::collections::HashMap::new());
}
/// Per-thread panic location (the exploration is parallel; `vpc`'s is process-wide).
pub fn quiet_panics_tl() {
    std::panic::set_hook(Box::new(|info| {
        if let Some(l) = info.location() {
            PANIC_LOC.with(|p| *p.borrow_mut() = format!("{}:{}", l.file(), l.line()));
        }
    }));
}
fn panic_loc() -> String {
    PANIC_LOC.with(|p| p.borrow().clone())
}
fn path_of(id: usize, expiry: u32) -> sciparse::path::ScionPath {
    PATH_MEMO.with(|m| {
        let mut m = m.borrow_mut();
        if m.len() > 100_000 {
            m.clear();
        }
        m.entry((id, expiry)).or_insert_with(|| mk_path(id, expiry)).clone()
    })
}
fn fps() -> &'static BTreeMap<DpPathFingerprint, usize> {
    static T: std::sync::OnceLock<BTreeMap<DpPathFingerprint, usize>> = std::sync::OnceLock::new();
    T.get_or_init(fp_table)
}

fn block_on<F: Future>(f: F) -> F::Output {
    let w = std::task::Waker::noop();
    let mut cx = std::task::Context::from_waker(w);
    let mut f = std::pin::pin!(f);
    match f.as_mut().poll(&mut cx) {
        std::task::Poll::Ready(v) => v,
        _ => panic!("pending"),
    }
}

impl World {
    fn new(cfg: Cfg, trace: bool) -> World {
        let script = Scripted::default();
        let mut strategy = PathStrategy::default();
        strategy.add_policy(AclPolicy::parse(ACL).expect("acl"));
        let pr = PathSetProbe::new(cfg.probe(), script.clone(), strategy, ia(SRC), ia(DST), at(T0));
        World {
            cfg,
            pr,
            script,
            fps: fps(),
            now: T0,
            mem: RefMem::default(),
            late_used: false,
            checking: false,
            viol: vec![],
            stats: Stats::default(),
            last_tie_points: vec![],
            trace: if trace { Some(vec![]) } else { None },
        }
    }

    pub fn observe(&self) -> Obs {
        let now = self.now;
        let mk = |p: sciparse::path::ScionPath| SlotObs {
            id: identify(&p),
            expiry: p.expiration(),
            endpoints_ok: p.src_ia() == ia(SRC) && p.dst_ia() == ia(DST),
            has_meta: p.metadata().is_some(),
        };
        let slot = self.pr.active().map(mk);
        let handed = self.pr.handed_out(at(now)).map(mk);
        let cache = self.pr.cached(at(now)).into_iter().map(|(fp, e, s)| (self.fps.get(&fp).copied().unwrap_or(99), e, s)).collect();
        Obs {
            slot,
            handed,
            cache,
            next_refetch: secs(self.pr.next_refetch()),
            failed: self.pr.failed_attempts(),
            err: self.pr.current_error(),
            icache: self.pr.issue_cache().into_iter().map(|(i, t)| (i, secs(t))).collect(),
            fifo: self.pr.issue_fifo().into_iter().map(|(i, t)| (i, secs(t))).collect(),
            undelivered: self.pr.undelivered_issues(),
        }
    }

    /// Canonical key: every time relative to `now`.
    pub fn key(&self) -> String {
        let o = self.observe();
        let now = self.now as i64;
        let mut c: Vec<String> = o.cache.iter().map(|(i, e, s)| format!("{i}:{}:{:.3}", e.map(|e| e as i64 - now).unwrap_or(i64::MIN), s)).collect();
        // cache order matters only among equal scores (stable sort); keep order as is
        let order = c.join(",");
        c.sort();
        let clamp = |a: i64| a.min(600);
        let ic: Vec<String> = o.icache.iter().map(|(i, t)| format!("{i:x}:{}", clamp(now - t))).collect();
        let ff: Vec<String> = o.fifo.iter().map(|(i, t)| format!("{i:x}:{}:{}", clamp(now - t), o.icache.iter().any(|(ci, ct)| ci == i && ct == t) as u8)).collect();
        // reference memory that drives the "same" profile, as far as the subject state does not determine it
        let same: Option<i64> = self.mem.p1_last_returned.filter(|_| SAME_IN_ALPHABET.load(std::sync::atomic::Ordering::Relaxed)).filter(|e| !o.cache.iter().any(|(i, ce, _)| *i == 0 && *ce == Some(*e))).map(|e| (e as i64 - now).max(0));
        let pend: Vec<String> = self.mem.pending.iter().map(|(k, t)| format!("{k}@{}", now - *t as i64)).collect();
        format!(
            "{}|{order}|{:?}|{}|{}|{}|{:?}|{:?}|{:?}|{}|{}|{:?}",
            self.cfg.name,
            o.slot.as_ref().map(|s| (s.id, s.expiry.map(|e| e as i64 - now))),
            o.next_refetch - now,
            o.failed,
            o.err.as_deref().map(|e| e.split(':').next().unwrap_or("").to_string()).unwrap_or_default(),
            ic,
            ff,
            pend,
            o.undelivered,
            self.late_used as u8,
            same
        )
    }

    fn push(&mut self, prop: &'static str, class: String, what: String) {
        if self.checking {
            let at = self.now - T0;
            self.viol.push(Viol { prop, class, what, at });
        }
    }
    fn trace(&mut self, what: &str, o: &Obs) {
        let now = self.now;
        if let Some(t) = &mut self.trace {
            let mut j = o.json(now);
            j["after"] = json!(what);
            t.push(j);
        }
    }

    // -----------------------------------------------------------------------------------------
    // State oracles, evaluated at one instant
    // -----------------------------------------------------------------------------------------
    fn check_state(&mut self, what: &str) {
        if !self.checking && self.trace.is_none() {
            return;
        }
        let o = self.observe();
        self.trace(what, &o);
        if !self.checking {
            return;
        }
        let now = self.now;
        let late = if self.late_used { "+late-tick" } else { "" };
        let failed = o.failed > 0;
        // ---- C05 ---- (judged on what a sender is handed)
        if let Some(s) = &o.handed {
            match s.id {
                None => self.push("C05", "served-path-not-from-any-lookup".into(), "the slot holds a path whose fingerprint no lookup ever returned".into()),
                Some(id) => {
                    if !s.has_meta || !UNIVERSE[id].has_meta {
                        self.push("C05", "metadata-less-path-served".into(), format!("{} (no metadata, policy cannot be evaluated) handed to the sender", UNIVERSE[id].name));
                    } else if !ref_policy_allows(id) {
                        self.push("C05", "policy-rejected-path-served".into(), format!("{} violates ACL '{ACL}' but is handed to the sender", UNIVERSE[id].name));
                    }
                    if !s.endpoints_ok {
                        self.push("C05", "served-path-wrong-endpoints".into(), "slot path does not connect the requested source and destination".into());
                    }
                    match s.expiry {
                        None => self.push("C05", "served-path-without-expiry".into(), "slot path has no expiry".into()),
                        Some(e) => {
                            let pe = (id, e);
                            let in_last = self.mem.last_ok.contains(&pe);
                            let in_ever = self.mem.ever.contains(&pe);
                            if !in_ever {
                                self.push("C05", "served-path-not-from-any-lookup".into(), format!("{} with expiry T0+{} was never returned by a lookup", UNIVERSE[id].name, e as i64 - T0 as i64));
                            } else if !in_last && e <= now {
                                let c = format!("expired-path-served-after-later-successful-lookup-without-it{late}");
                                let _ = failed;
                                self.push("C05", c, format!("{} stems from a lookup older than the most recent successful one and expired {} s ago (\"or an earlier one still valid\")", UNIVERSE[id].name, now - e));
                            }
                        }
                    }
                }
            }
        } else if self.mem.last_lookup_useful == Some(false) && o.err.is_none() {
            self.push("C05", "no-error-after-all-paths-rejected".into(), "no path to hand out after a lookup without acceptable path, but no error is recorded for the caller".into());
        }
        // ---- C06 ---- (judged on what a sender is handed)
        if let Some(s) = &o.handed {
            if let Some(e) = s.expiry {
                if e <= now {
                    let c = format!("expired-slot-between-ticks-after-{}-refetch{late}", if failed { "failed" } else { "successful" });
                    self.push("C06", c, format!("path handed to the sender expired {} s ago; next maintenance tick in {} s", now - e, o.next_refetch - now as i64));
                }
            }
        } else {
            let valid: Vec<_> = o.cache.iter().filter(|(_, e, _)| e.map(|e| e > now).unwrap_or(false)).collect();
            if !valid.is_empty() {
                let all_near = valid.iter().all(|(_, e, _)| e.unwrap() - now <= self.cfg.threshold);
                let c = format!("empty-slot-while-{}-path-cached{late}", if all_near { "near-expiry" } else { "valid" });
                self.push("C06", c, format!("sender gets no path although {} unexpired path(s) are cached (remaining lifetimes {:?} s)", valid.len(), valid.iter().map(|(_, e, _)| e.unwrap() - now).collect::<Vec<_>>()));
            }
        }
        if o.cache.len() > self.cfg.max_cached {
            self.push("C06", "path-cache-exceeds-max".into(), format!("{} cached paths > max_cached {}", o.cache.len(), self.cfg.max_cached));
        }
        if o.icache.len() > self.cfg.issue_cache {
            self.push("C06", "issue-cache-exceeds-size-after-stale-fifo-head".into(), format!("issue cache holds {} entries > configured {}", o.icache.len(), self.cfg.issue_cache));
        }
        if o.fifo.len() > self.cfg.issue_cache && o.icache.len() <= self.cfg.issue_cache {
            let same = o.fifo.iter().any(|(i, t)| o.fifo.iter().any(|(j, u)| i == j && t != u));
            let c = if same { "issue-fifo-exceeds-size-same-issue-rereported-outside-dedup-window" } else { "issue-fifo-exceeds-size" };
            self.push("C06", c.into(), format!("issue FIFO holds {} entries > configured {} (cache {})", o.fifo.len(), self.cfg.issue_cache, o.icache.len()));
        }
        // ---- C07 (state part): slot sits on a freshly penalised interface although a clean alternative exists
        // is a transition property; handled in `after_change`.
    }

    // -----------------------------------------------------------------------------------------
    // Transition oracles
    // -----------------------------------------------------------------------------------------
    /// `consumed`: issues the worker consumed in this sub-step (kind, report instant).
    fn after_change(&mut self, what: &str, before: &Obs, consumed: &[(usize, u32)]) {
        if !self.checking {
            return;
        }
        let after = self.observe();
        let now = self.now;
        let late = if self.late_used { "+late-tick" } else { "" };
        let changed = before.slot_id() != after.slot_id();
        if changed {
            self.stats.slot_changes += 1;
            if !consumed.is_empty() {
                self.stats.slot_changed_after_issue += 1;
            }
        }
        let unexpired = |e: &Option<u32>| e.map(|e| e > now).unwrap_or(false);
        // (a) steering
        if let Some(s) = before.slot_id() {
            // "at once" is about reports the worker gets promptly: the explorer may hold a report back
            // arbitrarily long (a starved worker); a report older than the issue half-life (30 s) when
            // it is finally consumed has decayed by the crate's own rule and demands nothing
            if consumed.iter().any(|(k, t)| ref_issue_on_path(*k, s) && now - *t > ISSUE_HALF_LIFE) {
                self.stats.steer_stale_report += 1;
            }
            let hits: Vec<usize> = consumed.iter().filter(|(_, t)| now - *t <= ISSUE_HALF_LIFE).map(|(k, _)| *k).filter(|k| ref_issue_on_path(*k, s)).collect();
            if !hits.is_empty() {
                self.stats.issue_consumed_on_slot += 1;
                // alternatives: cached after the step, unexpired, avoiding every failed interface reported on the slot's path
                let alts: Vec<(usize, u32, f32)> = after
                    .cache
                    .iter()
                    .filter(|(i, e, _)| *i < UNIVERSE.len() && *i != s && unexpired(e) && hits.iter().all(|k| !ref_issue_on_path(*k, *i)))
                    .map(|(i, e, sc)| (*i, e.unwrap(), *sc))
                    .collect();
                // clean = no report on it younger than one half-life
                let clean: Vec<&(usize, u32, f32)> = alts.iter().filter(|(i, _, _)| self.mem.youngest_report_on(*i, now).map(|a| a >= HALF_LIFE).unwrap_or(true)).collect();
                let slot_avoids = after.slot_id().map(|a| hits.iter().all(|k| !ref_issue_on_path(*k, a))).unwrap_or(false);
                if alts.is_empty() {
                    self.stats.steer_no_alternative += 1;
                } else if clean.is_empty() {
                    self.stats.steer_dontcare += 1;
                } else {
                    self.stats.steer_demanded += 1;
                    if !slot_avoids {
                        let kinds: Vec<&str> = hits.iter().map(|k| match ISSUES[*k].1 {
                            IssueDesc::IfDown(..) => "ifdown",
                            IssueDesc::ConnDown(..) => "conndown",
                            IssueDesc::FirstHop(..) => "first-hop-failure",
                        }).collect();
                        let mut kinds2 = kinds.clone();
                        kinds2.sort();
                        kinds2.dedup();
                        let never_penalised = clean.iter().any(|(i, _, _)| self.mem.youngest_report_on(*i, now).is_none());
                        let alt_near = clean.iter().all(|(_, e, _)| e - now <= self.cfg.threshold);
                        let c = format!(
                            "no-steer-after-{}{}-alt-{}{}{}{late}",
                            kinds2.join("+"),
                            if hits.len() > 1 { "-x".to_string() + &hits.len().to_string() } else { String::new() },
                            if never_penalised { "never-penalised" } else { "penalty-older-than-half-life" },
                            if alt_near { "-near-expiry" } else { "" },
                            if after.slot.is_none() { "-slot-emptied" } else { "" },
                        );
                        self.push(
                            "C07",
                            c,
                            format!(
                                "{what}: slot was {} ; failure(s) {:?} lie on it; cached alternative(s) {:?} avoid them; next send still gets {:?}",
                                UNIVERSE[s].name,
                                hits.iter().map(|k| ISSUES[*k].0).collect::<Vec<_>>(),
                                clean.iter().map(|(i, e, sc)| format!("{} (expires in {} s, reliability {:.3})", UNIVERSE[*i].name, e - now, sc)).collect::<Vec<_>>(),
                                after.slot_id().map(|a| UNIVERSE[a].name)
                            ),
                        );
                    }
                }
            }
        }
        // (b) no return while the penalty is fresh
        if changed {
            if let Some(a) = after.slot_id() {
                let was_hit = self.mem.hit_in_slot.iter().filter(|(p, t)| *p == a && now - *t < HALF_LIFE).map(|(_, t)| now - *t).min();
                if let Some(age) = was_hit {
                    // interfaces freshly failed on the new slot path (only consumed reports count as penalty)
                    let fresh: Vec<usize> = self.mem.reports.iter().filter(|(k, t, b)| *b && now - *t < HALF_LIFE && ref_issue_on_path(*k, a) && !self.mem.pending.iter().any(|(pk, pt)| pk == k && pt == t)).map(|(k, _, _)| *k).collect();
                    if !fresh.is_empty() {
                        let alts: Vec<&(usize, Option<u32>, f32)> = after
                            .cache
                            .iter()
                            .filter(|(i, e, _)| *i < UNIVERSE.len() && *i != a && unexpired(e) && fresh.iter().all(|k| !ref_issue_on_path(*k, *i)) && self.mem.youngest_report_on(*i, now).map(|x| x >= HALF_LIFE).unwrap_or(true))
                            .collect();
                        if !alts.is_empty() {
                            let alt_near = alts.iter().all(|(_, e, _)| e.unwrap() - now <= self.cfg.threshold);
                            let c = format!("returned-to-freshly-penalised-path-alt-{}{late}", if alt_near { "near-expiry" } else { "valid" });
                            self.push(
                                "C07",
                                c,
                                format!(
                                    "{what}: slot moved {:?} -> {} although it was in use when a failure on it was consumed {age} s ago (< half-life {HALF_LIFE} s) and {:?} is cached, unexpired and unpenalised",
                                    before.slot_id().map(|b| UNIVERSE[b].name),
                                    UNIVERSE[a].name,
                                    alts.iter().map(|(i, e, _)| format!("{} (expires in {} s)", UNIVERSE[*i].name, e.unwrap() - now)).collect::<Vec<_>>()
                                ),
                            );
                        }
                    }
                } else if self.mem.hit_in_slot.iter().any(|(p, _)| *p == a) {
                    // moved (back) onto a path whose penalty has aged beyond a half-life: recovery is observed
                    self.stats.recover_selected += 1;
                }
            }
        }
        // (d) a report that lies on no path in use changes nothing
        if !consumed.is_empty() && what.starts_with("Deliver") {
            let on_slot = before.slot_id().map(|s| consumed.iter().any(|(k, _)| ref_issue_on_path(*k, s))).unwrap_or(false);
            let on_cached = before.cache.iter().any(|(i, _, _)| *i < UNIVERSE.len() && consumed.iter().any(|(k, _)| ref_issue_on_path(*k, *i)));
            if !on_slot && before.slot != after.slot {
                self.push("C07", "slot-changed-by-report-not-on-slot-path".into(), format!("{what}: no consumed report lies on the slot's path, yet the slot changed {:?} -> {:?}", before.slot_id(), after.slot_id()));
            }
            if !on_cached {
                self.stats.unrelated_deliver += 1;
                if before.cache != after.cache {
                    self.push("C07", "cache-changed-by-report-on-no-cached-path".into(), format!("{what}: consumed report(s) lie on no cached path, yet cache order/scores changed: {:?} -> {:?}", before.cache, after.cache));
                }
            }
        }
    }

    // -----------------------------------------------------------------------------------------
    // Events
    // -----------------------------------------------------------------------------------------
    /// One maintenance tick at instant `t` (= due, or due+1 for the late variant) with outcome `o`.
    /// Returns whether a p1/p2 tie point was met.
    fn tick(&mut self, t: u32, o: Out, is_init: bool, stutter: bool) -> Result<bool, Stop> {
        self.now = t;
        let watch = self.checking || self.trace.is_some() || TIE_GROUP.iter().filter(|g| o.set.ids().contains(g)).count() >= 2;
        let before = if watch { self.observe() } else { Obs::default() };
        let before_ids: Vec<usize> = before.cache.iter().map(|c| c.0).collect();
        let res: Result<Vec<_>, ()> = match o.set {
            Set::Err => Err(()),
            s => Ok(s.ids().iter().map(|id| path_of(*id, expiry_of(o, *id, t, &self.cfg.prof, self.mem.p1_last_returned))).collect()),
        };
        let calls_before = {
            let mut g = self.script.0.lock().unwrap();
            g.queue.push_back(res);
            g.calls
        };
        let slot_before = if self.mem.pending.is_empty() { None } else { self.slot_id_now() };
        let pending = std::mem::take(&mut self.mem.pending);
        let r = if is_init { vpc::catch(|| block_on(self.pr.fetch_and_update(at(t)))).map(|_| None) } else { vpc::catch(|| block_on(self.pr.maintain(at(t)))) };
        match r {
            Err(m) => return Err(Stop::Panic(format!("{m} @ {}", panic_loc()))),
            Ok(Some(reason)) => return Err(Stop::Panic(format!("maintain asked to stop the worker: {reason}"))),
            Ok(None) => {}
        }
        let (calls_after, left) = {
            let mut g = self.script.0.lock().unwrap();
            let l = g.queue.len();
            g.queue.clear();
            (g.calls, l)
        };
        self.stats.ticks += 1;
        self.stats.lookups += calls_after - calls_before;
        // reference memory
        let mut returned_valid = false;
        if o.set != Set::Err {
            let res: Vec<(usize, u32)> = o.set.ids().iter().map(|id| (*id, expiry_of(o, *id, t, &self.cfg.prof, self.mem.p1_last_returned))).collect();
            returned_valid = res.iter().any(|(id, e)| ref_policy_allows(*id) && UNIVERSE[*id].has_meta && *e > t);
            if let Some((_, e)) = res.iter().find(|(id, _)| *id == 0) {
                self.mem.p1_last_returned = Some(*e);
            }
            self.mem.ever.extend(res.iter().copied());
            // "successful path lookup" = one that yielded at least one policy-acceptable path
            if res.iter().any(|(id, _)| ref_policy_allows(*id)) {
                self.mem.last_ok = res;
            }
        }
        let useful = o.set.ids().iter().any(|id| ref_policy_allows(*id));
        self.mem.last_lookup_useful = Some(useful);
        // which pending issues did the tick consume?
        let und = self.pr.undelivered_issues();
        let consumed: Vec<(usize, u32)> = if und == 0 { pending.clone() } else { vec![] };
        if und != 0 {
            self.mem.pending = pending;
        }
        let after = if watch { self.observe() } else { Obs::default() };
        // C06: a lookup that just returned an acceptable, unexpired path must leave the sender with a path
        if self.checking && returned_valid && after.handed.is_none() {
            let late = if self.late_used { "+late-tick" } else { "" };
            self.push(
                "C06",
                format!("no-path-right-after-lookup-that-returned-a-valid-path{late}"),
                format!("lookup at t+{} returned [{}] with an acceptable unexpired path, yet the sender is handed nothing (cache {:?}, failed_attempts {}, error {:?})", t - T0, o.label(), after.cache, after.failed, after.err),
            );
        }
        // C06 schedule oracle
        if self.checking {
            if calls_after - calls_before != 1 || left != 0 {
                self.push("C06", "tick-did-not-perform-exactly-one-lookup".into(), format!("maintenance at its due instant performed {} lookups", calls_after - calls_before));
            }
            let d = after.next_refetch - t as i64;
            let c = self.cfg;
            if d < c.min_delay as i64 {
                self.push("C06", "refetch-sooner-than-min-delay".into(), format!("next lookup scheduled {d} s after a lookup, min_refetch_delay is {} s", c.min_delay));
            }
            if !useful && d > c.backoff_max.max(c.min_delay) as i64 {
                self.push("C06", "refetch-later-than-backoff-ceiling".into(), format!("next lookup scheduled {d} s after a failed lookup, ceiling is {} s", c.backoff_max.max(c.min_delay)));
            }
            if useful && d > c.interval as i64 {
                self.push("C06", "refetch-later-than-interval".into(), format!("next lookup scheduled {d} s after a successful lookup, refetch_interval is {} s", c.interval));
            }
        }
        // tie point?
        let newc: Vec<usize> = o.set.ids().iter().copied().filter(|id| ref_policy_allows(*id) && !before_ids.contains(id)).collect();
        let mut tie_point = false;
        let tied: Vec<usize> = TIE_GROUP.iter().copied().filter(|g| newc.contains(g)).collect();
        if tied.len() == 2 {
            let p1 = after.cache.iter().position(|c| c.0 == tied[0]);
            let p2 = after.cache.iter().position(|c| c.0 == tied[1]);
            let observed = match (p1, p2) {
                (Some(a), Some(b)) => {
                    if (after.cache[a].2 - after.cache[b].2).abs() < 1e-6 {
                        Some(if a < b { 0 } else { 1 })
                    } else {
                        None
                    }
                }
                (Some(_), None) => Some(0),
                (None, Some(_)) => Some(1),
                (None, None) => None,
            };
            if let Some(obs) = observed {
                tie_point = true;
                self.stats.tie_points += 1;
                if obs != o.tie {
                    return Err(Stop::TieMismatch);
                }
            }
        }
        if !tie_point && o.tie != 0 && !stutter {
            return Err(Stop::UnusedOutcome);
        }
        self.after_change(&format!("tick@+{} [{}]", t - T0, o.label()), &before, &consumed);
        self.note_hits(slot_before, &consumed);
        self.check_state(&format!("tick@+{} [{}]", t - T0, o.label()));
        Ok(tie_point)
    }

    /// Maintenance tick that is due before `next_refetch` (no lookup expected, empty script).
    fn quiet_tick(&mut self, t: u32) -> Result<(), Stop> {
        self.now = t;
        let watch = self.checking || self.trace.is_some();
        let before = if watch { self.observe() } else { Obs::default() };
        let calls_before = self.script.0.lock().unwrap().calls;
        let slot_before = if self.mem.pending.is_empty() { None } else { self.slot_id_now() };
        let pending = std::mem::take(&mut self.mem.pending);
        match vpc::catch(|| block_on(self.pr.maintain(at(t)))) {
            Err(m) => return Err(Stop::Panic(format!("{m} @ {}", panic_loc()))),
            Ok(Some(reason)) => return Err(Stop::Panic(format!("maintain asked to stop the worker: {reason}"))),
            Ok(None) => {}
        }
        self.stats.quiet_ticks += 1;
        let calls_after = self.script.0.lock().unwrap().calls;
        if calls_after != calls_before {
            // also counted as `unscheduled-lookup` at the end of the replay
            self.push("C06", "lookup-at-tick-before-next-refetch".into(), format!("maintenance tick at t+{} (before next_refetch) performed {} lookup(s)", t - T0, calls_after - calls_before));
        }
        let und = self.pr.undelivered_issues();
        let consumed: Vec<(usize, u32)> = if und == 0 { pending.clone() } else { vec![] };
        if und != 0 {
            self.mem.pending = pending;
        }
        self.after_change(&format!("quiet-tick@+{}", t - T0), &before, &consumed);
        self.note_hits(slot_before, &consumed);
        self.check_state(&format!("quiet-tick@+{}", t - T0));
        Ok(())
    }

    /// Check the state at every instant in (self.now, until] at which an oracle can change its verdict
    /// while the subject is idle: each cached path's expiry instant, and `until` itself.
    fn idle_until(&mut self, until: u32) {
        if until <= self.now {
            return;
        }
        if self.checking || self.trace.is_some() {
            let o = self.observe();
            let mut pts: Vec<u32> = o.cache.iter().filter_map(|c| c.1).chain(o.slot.iter().filter_map(|s| s.expiry)).filter(|e| *e > self.now && *e < until).collect();
            pts.sort();
            pts.dedup();
            for p in pts {
                self.now = p;
                self.check_state("idle");
            }
        }
        self.now = until;
        self.check_state("idle");
    }

    fn advance(&mut self, d: u32, late: bool, outs: &[Out]) -> Result<(), Stop> {
        let target = self.now + d;
        let mut k = 0usize;
        let mut late_pending = late;
        if late {
            self.late_used = true;
        }
        self.last_tie_points.clear();
        let mut quiet_last: Option<u32> = None;
        let mut quiet_at_same_instant = 0u32;
        loop {
            // the real loop's own due instant (PathSet::next_maintain)
            let due = self.now as i64 + self.pr.next_maintain_in(at(self.now)).as_secs() as i64;
            let mut fire = due;
            if late_pending {
                fire = due + 1;
            }
            if fire > target as i64 {
                break;
            }
            let fire = fire as u32;
            // idle up to the instant before the tick
            if fire > self.now {
                self.idle_until(fire - 1);
            }
            late_pending = false;
            if (fire as i64) < secs(self.pr.next_refetch()) {
                // due for another reason than the refetch schedule (active path's expiry, idle check):
                // a maintenance tick without lookup, no branching
                quiet_at_same_instant = if quiet_last == Some(fire) { quiet_at_same_instant + 1 } else { 0 };
                quiet_last = Some(fire);
                if quiet_at_same_instant >= 3 {
                    self.push("C06", "maintenance-tick-rearmed-at-same-instant".into(), format!("next_maintain keeps returning 0 at t+{} although maintain ran 3 times there (busy loop of the worker)", fire - T0));
                    break;
                }
                self.quiet_tick(fire)?;
                continue;
            }
            let o = if k < outs.len() {
                outs[k]
            } else if k < MAX_BRANCH_TICKS.load(std::sync::atomic::Ordering::Relaxed) || outs.is_empty() {
                return Err(Stop::NeedOutcome);
            } else {
                *outs.last().unwrap()
            };
            let tp = self.tick(fire, o, false, k >= outs.len())?;
            if k < outs.len() {
                self.last_tie_points.push(tp);
            }
            k += 1;
        }
        if k < outs.len() {
            return Err(Stop::UnusedOutcome);
        }
        if late && late_pending {
            // no tick fell into the interval: the late variant equals Adv
            return Err(Stop::UnusedOutcome);
        }
        self.idle_until(target);
        Ok(())
    }

    fn issue(&mut self, k: usize) -> Result<(), Stop> {
        let watch = self.checking || self.trace.is_some();
        let before = if watch { self.observe() } else { Obs::default() };
        let und_before = self.pr.undelivered_issues();
        let ts = at(self.now);
        let r = vpc::catch(|| match ISSUES[k].1 {
            IssueDesc::IfDown(a, e) => self.pr.report_scmp(ts, sciparse::payload::scmp::model::ScmpExternalInterfaceDown::new(ia(a), e, vec![]).into()),
            IssueDesc::ConnDown(a, i, e) => self.pr.report_scmp(ts, sciparse::payload::scmp::model::ScmpInternalConnectivityDown::new(ia(a), i, e, vec![]).into()),
            IssueDesc::FirstHop(e) => self.pr.report_first_hop_down(ts, ia(SRC), e),
        });
        if let Err(m) = r {
            return Err(Stop::Panic(format!("{m} @ {}", panic_loc())));
        }
        let accepted = self.pr.undelivered_issues() > und_before;
        if !accepted {
            self.stats.dedup_ignored += 1;
        }
        self.mem.reports.push((k, self.now, accepted));
        if accepted {
            self.mem.pending.push((k, self.now));
        }
        if self.checking {
            let after = self.observe();
            if before.slot != after.slot || before.cache != after.cache {
                self.push("C07", "report-changed-paths-before-delivery".into(), "reporting an issue changed slot/cache without the worker running".into());
            }
        }
        self.check_state(&format!("Issue({})", ISSUES[k].0));
        Ok(())
    }

    fn slot_id_now(&self) -> Option<usize> {
        self.pr.active().and_then(|p| identify(&p))
    }
    fn note_hits(&mut self, slot_before: Option<usize>, consumed: &[(usize, u32)]) {
        if let Some(s) = slot_before {
            if consumed.iter().any(|(k, _)| ref_issue_on_path(*k, s)) {
                self.mem.hit_in_slot.push((s, self.now));
            }
        }
    }

    fn deliver(&mut self) -> Result<(), Stop> {
        let before = if self.checking { self.observe() } else { Obs::default() };
        let slot_before = if self.mem.pending.is_empty() { None } else { self.slot_id_now() };
        let pending = std::mem::take(&mut self.mem.pending);
        let now = at(self.now);
        let n = match vpc::catch(|| self.pr.deliver_issues(now)) {
            Ok(n) => n,
            Err(m) => return Err(Stop::Panic(format!("{m} @ {}", panic_loc()))),
        };
        if n == 0 && pending.is_empty() {
            // nothing to deliver: not a transition
            return Err(Stop::UnusedOutcome);
        }
        self.after_change(&format!("Deliver({n})"), &before, &pending);
        self.note_hits(slot_before, &pending);
        self.check_state(&format!("Deliver({n})"));
        Ok(())
    }

    fn step(&mut self, s: &Step) -> Result<(), Stop> {
        self.last_tie_points.clear();
        match s.ev {
            Ev::Init => {
                let o = *s.outs.first().ok_or(Stop::NeedOutcome)?;
                self.last_tie_points.clear();
                let tp = self.tick(T0, o, true, false)?;
                self.last_tie_points.push(tp);
                Ok(())
            }
            Ev::Adv(d) => self.advance(d, false, &s.outs),
            Ev::AdvLate(d) => {
                if self.late_used {
                    return Err(Stop::UnusedOutcome);
                }
                self.advance(d, true, &s.outs)
            }
            Ev::Issue(k) => {
                if !s.outs.is_empty() {
                    return Err(Stop::UnusedOutcome);
                }
                self.issue(k as usize)
            }
            Ev::Deliver => {
                if !s.outs.is_empty() {
                    return Err(Stop::UnusedOutcome);
                }
                self.deliver()
            }
        }
    }
}

/// set while a phase whose alphabet contains the "same" expiry profile is explored
pub static SAME_IN_ALPHABET: std::sync::atomic::AtomicBool = std::sync::atomic::AtomicBool::new(true);
pub static MAX_BRANCH_TICKS: std::sync::atomic::AtomicUsize = std::sync::atomic::AtomicUsize::new(1);

/// Execute a history on a fresh real object. Oracles run on the last step only (every prefix was
/// checked when it was itself the last step). Retries when the crate's hash-order tie-break differs
/// from the one the history asks for.
pub fn replay(cfg: Cfg, h: &[Step], trace: bool) -> Result<World, Stop> {
    let mut tries = 0;
    'outer: loop {
        tries += 1;
        let mut w = World::new(cfg, trace);
        for (i, s) in h.iter().enumerate() {
            w.checking = i + 1 == h.len();
            if let Some(t) = &mut w.trace {
                t.push(json!({"event": step_json(s)}));
            }
            match w.step(s) {
                Ok(()) => {}
                Err(Stop::TieMismatch) if tries < 48 => continue 'outer,
                Err(e) => return Err(e),
            }
        }
        if let Some(u) = Some(w.script.0.lock().unwrap().unscripted_calls).filter(|u| *u > 0) {
            w.viol.push(Viol { prop: "C06", class: "unscheduled-lookup".into(), what: format!("{u} lookups outside a maintenance tick"), at: w.now - T0 });
        }
        return Ok(w);
    }
}
