mod c05;
mod universe;
mod world;

fn main() {
    let args = vpc::Args::parse();
    match args.prop.as_str() {
        "C05" => c05::run(&args),
        "C06" | "C07" => c05::run(&args),
        p => vpc::machinery_failure(&format!("property {p} is not served by this binary")),
    }
}
