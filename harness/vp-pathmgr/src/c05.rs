//! C05 / C06 / C07: explicit-state exploration of the path manager's per-pair worker.
//! BFS over event histories; every history is executed on a fresh real `PathSet` (through the
//! `verif_api` hooks); states are merged on a canonical key with all times relative to `now`.
//! One exploration, three oracle groups; the invocation reports the group of `args.prop`.
use std::{
    collections::{BTreeMap, HashSet},
    sync::atomic::Ordering,
};

use rayon::prelude::*;
use serde_json::{Value, json};

use crate::{universe::*, world::*};

struct Child {
    hist: Hist,
    key: String,
    viol: Vec<Viol>,
    stats: Stats,
    replays: u64,
}

/// All successors of `h` (every enabled event x every lookup-outcome vector it consumes).
fn successors(cfg: Cfg, h: &Hist, events: &[Ev], alphabet: &[Out]) -> (Vec<Child>, u64, Vec<(String, Hist)>) {
    let mut out = vec![];
    let mut replays = 0u64;
    let mut panics = vec![];
    for &ev in events {
        let mut stack: Vec<Vec<Out>> = vec![vec![]];
        while let Some(os) = stack.pop() {
            let mut nh = h.clone();
            nh.push(Step { ev, outs: os.clone() });
            replays += 1;
            match replay(cfg, &nh, false) {
                Err(Stop::NeedOutcome) => {
                    for o in alphabet.iter().rev() {
                        let mut n = os.clone();
                        n.push(*o);
                        stack.push(n);
                    }
                }
                Err(Stop::UnusedOutcome) => {}
                Err(Stop::TieMismatch) => panics.push(("tie-choice-unreachable".to_string(), nh)),
                Err(Stop::Panic(m)) => panics.push((m, nh)),
                Ok(w) => {
                    // branch on the hash-order tie-break where one was met
                    for (j, tp) in w.last_tie_points.iter().enumerate() {
                        if *tp && os[j].tie == 0 && os[j + 1..].iter().all(|o| o.tie == 0) {
                            let mut n = os.clone();
                            n[j].tie = 1;
                            stack.push(n);
                        }
                    }
                    out.push(Child { key: w.key(), viol: w.viol.clone(), stats: w.stats.clone(), hist: nh, replays: 1 });
                }
            }
        }
    }
    (out, replays, panics)
}

fn witness(cfg: &Cfg, h: &Hist, at: u32, ticks: u32) -> Value {
    json!({
        // one mark per maintenance tick executed: vpc keeps the smallest witness per class, this makes it prefer short-running histories
        "ticks_executed": "|".repeat(ticks.min(400) as usize),
        "config": cfg.name,
        "max_cached": cfg.max_cached,
        "min_refetch_delay_s": cfg.min_delay,
        "history": h.iter().map(step_json).collect::<Vec<_>>(),
        "history_text": hist_text(h),
        "observed_at_s": at,
        "branch_ticks": MAX_BRANCH_TICKS.load(Ordering::Relaxed),
    })
}

fn do_replay(file: &std::path::Path) -> ! {
    let v = vpc::read_replay(file);
    let w = &v["witness"];
    let name = w["config"].as_str().unwrap_or("A2");
    let cfg = configs().into_iter().find(|c| c.name == name).unwrap_or_else(|| vpc::machinery_failure("unknown config in replay"));
    if let Some(b) = w["branch_ticks"].as_u64() {
        MAX_BRANCH_TICKS.store(b as usize, Ordering::Relaxed);
    }
    let hist: Hist = w["history"].as_array().map(|a| a.iter().map(|s| step_from_json(s).unwrap_or_else(|| vpc::machinery_failure("bad step in replay"))).collect()).unwrap_or_default();
    println!("replaying [{}] on config {} : {}", v["class"].as_str().unwrap_or("?"), cfg.name, hist_text(&hist));
    match replay(cfg, &hist, true) {
        Err(e) => {
            println!("replay stopped: {e:?}");
            std::process::exit(1)
        }
        Ok(w) => {
            for t in w.trace.as_ref().unwrap() {
                println!("  {t}");
            }
            for x in &w.viol {
                println!("  ORACLE {} [{}] at t+{}: {}", x.prop, x.class, x.at, x.what);
            }
            std::process::exit(if w.viol.is_empty() { 0 } else { 1 })
        }
    }
}

struct Phase {
    name: &'static str,
    what: &'static str,
    events: Vec<Ev>,
    alphabet: Vec<Out>,
    max_depth: usize,
    /// share of the wall-clock budget
    share: f64,
}

fn phases(quick: bool, arg: &dyn Fn(&str) -> Option<u64>) -> Vec<Phase> {
    let full = alphabet();
    let deltas: Vec<u32> = vec![1, 4, 6, 11, 21, 41, 91];
    let long = 20 * HALF_LIFE + 1;
    let adv = |ds: &[u32]| ds.iter().map(|d| Ev::Adv(*d)).collect::<Vec<_>>();
    let issues: Vec<Ev> = (0..ISSUES.len()).map(|k| Ev::Issue(k as u8)).collect();
    let o = |set, prof| Out { set, prof, tie: 0 };
    let mut v = vec![];
    // 1. everything x everything
    let mut ev = adv(&deltas);
    ev.extend([Ev::AdvLate(6), Ev::AdvLate(21)]);
    ev.extend(issues.iter().copied());
    ev.push(Ev::Deliver);
    v.push(Phase { name: "full", what: "all events x all lookup outcomes", events: ev, alphabet: full.clone(), max_depth: arg("--depth").unwrap_or(if quick { 2 } else { 3 }) as usize, share: 0.4 });
    // 2. expiry / schedule focus: no issues, outcomes with every expiry profile on {p1}, {p1,p2}
    let mut ev = adv(&deltas);
    ev.extend([Ev::AdvLate(6), Ev::AdvLate(21)]);
    let mut al = vec![o(Set::Err, 0), o(Set::Empty, 0), o(Set::Rej, 0), o(Set::P2, 0)];
    for p in 0..5 {
        al.push(o(Set::P1, p));
        al.push(o(Set::P12, p));
    }
    v.push(Phase { name: "expiry", what: "clock advances (incl. one late tick) x lookup outcomes {Err, Ok{}, Ok{p4}, Ok{p2}, Ok{p1}/Ok{p1,p2} x 5 expiry profiles (far, soon, near, expired, same = un-renewed)}; no issue events", events: ev, alphabet: al, max_depth: arg("--depth-expiry").unwrap_or(if quick { 3 } else { 4 }) as usize, share: 0.25 });
    // 3. issue focus: all issue kinds, Deliver, advances incl. > 20 half-lives; lookups keep the path set stable
    let ds = [1, 4, 11, 41, 91, long];
    let mut ev = adv(&ds);
    ev.extend(issues.iter().copied());
    ev.push(Ev::Deliver);
    let al = vec![o(Set::Err, 0), o(Set::P1, 0), o(Set::P2, 0), o(Set::P12, 0), o(Set::P123, 0), o(Set::P163, 0)];
    v.push(Phase { name: "issues", what: "all issue kinds, Deliver, clock advances incl. 1801 s (> 20 half-lives) x lookup outcomes {Err, Ok{p1}, Ok{p2}, Ok{p1,p2}, Ok{p1,p2,p3}, Ok{p1,p6,p3}} all far-expiry; advances {1,4,11,41,91,1801}", events: ev, alphabet: al, max_depth: arg("--depth-issues").unwrap_or(if quick { 3 } else { 5 }) as usize, share: 0.25 });
    // 4. issue memory: one issue re-reported inside / outside the dedup window, distinct issues; tiny alphabet, deep
    let ev = vec![Ev::Adv(1), Ev::Adv(4), Ev::Issue(0), Ev::Issue(2), Ev::Issue(3), Ev::Issue(5), Ev::Deliver];
    v.push(Phase { name: "issue-memory", what: "Issue(0,2,3,5), Deliver, Adv(1) (inside the 3 s dedup window), Adv(4) (outside); lookups Ok{p1,p2} far", events: ev, alphabet: vec![o(Set::P12, 0)], max_depth: arg("--depth-mem").unwrap_or(if quick { 5 } else { 7 }) as usize, share: 0.1 });
    if let Some(only) = arg("--phase") {
        return v.into_iter().enumerate().filter(|(i, _)| *i as u64 == only).map(|(_, p)| p).collect();
    }
    v
}

pub fn run(args: &vpc::Args) -> ! {
    if std::env::var_os("VERIF_LOUD").is_none() {
        quiet_panics_tl();
    }
    if let Some(f) = &args.replay {
        do_replay(f);
    }
    let run = vpc::Run::new(args);
    let quick = run.tier == vpc::Tier::Quick;
    let arg = |name: &str| args.extra.iter().position(|a| a == name).and_then(|i| args.extra.get(i + 1)).and_then(|v| v.parse::<u64>().ok());
    let budget_s = arg("--budget").unwrap_or(if quick { 300 } else { 840 }) as f64;
    let branch_ticks = arg("--branch-ticks").unwrap_or(1) as usize;
    MAX_BRANCH_TICKS.store(branch_ticks, Ordering::Relaxed);

    // self-test of the universe builder: expiry and distinct fingerprints
    for i in 0..UNIVERSE.len() {
        if mk_path(i, T0 + 77).expiration() != Some(T0 + 77) {
            vpc::machinery_failure("universe builder: expiry is not what was asked for");
        }
    }
    if fp_table().len() != UNIVERSE.len() - 2 || (0..UNIVERSE.len()).any(|i| identify(&mk_path(i, T0 + 5)) != Some(i)) {
        vpc::machinery_failure("universe builder: fingerprints collide");
    }

    let cfgs = configs();
    let mut total_states = 0u64;
    let mut total_trans = 0u64;
    let mut total_replays = 0u64;
    let mut exhaustive = true;
    let mut agg = Stats::default();
    let mut other_props: BTreeMap<String, u64> = BTreeMap::new();
    let mut state_classes: BTreeMap<&'static str, u64> = BTreeMap::new();
    let mut panics_seen: BTreeMap<String, (String, Value)> = BTreeMap::new();
    let reported: std::cell::RefCell<std::collections::BTreeSet<String>> = Default::default();
    let mut phase_reports = vec![];
    let mut bounds = vec![];

    let handle = |run: &vpc::Run, cfg: &Cfg, c: &Child, agg: &mut Stats, other: &mut BTreeMap<String, u64>| {
        // a few explored histories written out (every 9973rd, so that they differ in shape)
        if c.stats.ticks as usize % 3 == 1 && hist_text(&c.hist).len() % 7 == 3 {
            run.sample(8, || json!({"cfg": cfg.name, "max_cached": cfg.max_cached, "history": hist_text(&c.hist), "violations_of_this_history": c.viol.len()}));
        }
        for v in &c.viol {
            if v.prop == run.prop {
                // "+late-tick" labels a finding only while the same class has not been reached without the deviation
                let base = v.class.trim_end_matches("+late-tick").to_string();
                let class = if v.class.ends_with("+late-tick") && reported.borrow().contains(&base) { base.clone() } else { v.class.clone() };
                reported.borrow_mut().insert(class.clone());
                run.violation(&class, &format!("[cfg {} max_cached {}] {} :: history: {}", cfg.name, cfg.max_cached, v.what, hist_text(&c.hist)), witness(cfg, &c.hist, v.at, c.stats.ticks));
            } else {
                *other.entry(format!("{}:{}", v.prop, v.class.trim_end_matches("+late-tick"))).or_default() += 1;
            }
        }
        let s = &c.stats;
        agg.ticks += s.ticks;
        agg.lookups += s.lookups;
        agg.slot_changes += s.slot_changes;
        agg.slot_changed_after_issue += s.slot_changed_after_issue;
        agg.issue_consumed_on_slot += s.issue_consumed_on_slot;
        agg.steer_demanded += s.steer_demanded;
        agg.steer_dontcare += s.steer_dontcare;
        agg.steer_no_alternative += s.steer_no_alternative;
        agg.unrelated_deliver += s.unrelated_deliver;
        agg.dedup_ignored += s.dedup_ignored;
        agg.tie_points += s.tie_points;
        agg.recover_selected += s.recover_selected;
        agg.quiet_ticks += s.quiet_ticks;
        agg.steer_stale_report += s.steer_stale_report;
    };

    let phases = phases(quick, &arg);
    let mut budget_used = 0.0;
    for ph in &phases {
        SAME_IN_ALPHABET.store(ph.alphabet.iter().any(|o| o.prof == 4), Ordering::Relaxed);
        let phase_start = run.elapsed_s();
        budget_used += ph.share;
        let deadline = budget_s * budget_used;
        let mut seen: Vec<HashSet<u64>> = cfgs.iter().map(|_| HashSet::new()).collect();
        let mut frontier: Vec<Vec<Hist>> = cfgs.iter().map(|_| vec![]).collect();
        let mut per_depth: Vec<Vec<u64>> = cfgs.iter().map(|_| vec![]).collect();
        let mut ph_trans = 0u64;
        let mut ph_replays = 0u64;
        let mut completed = ph.max_depth;
        // depth 0: the initial lookup
        for (ci, cfg) in cfgs.iter().enumerate() {
            let (children, rp, panics) = successors(*cfg, &vec![], &[Ev::Init], &ph.alphabet);
            ph_replays += rp;
            for p in panics {
                panics_seen.entry(p.0.clone()).or_insert_with(|| (format!("[cfg {}] {} :: history: {}", cfg.name, p.0, hist_text(&p.1)), witness(cfg, &p.1, 0, 0)));
            }
            let mut n = 0;
            for c in children {
                ph_trans += 1;
                handle(&run, cfg, &c, &mut agg, &mut other_props);
                classify_state(&mut state_classes, &c);
                if seen[ci].insert(vpc::fnv64(c.key.as_bytes())) {
                    n += 1;
                    frontier[ci].push(c.hist);
                }
            }
            per_depth[ci].push(n);
        }
        'levels: for depth in 1..=ph.max_depth {
            for (ci, cfg) in cfgs.iter().enumerate() {
                let fr = std::mem::take(&mut frontier[ci]);
                let mut next: Vec<Hist> = vec![];
                let mut n = 0u64;
                // chunks keep memory bounded and let the budget be checked between them
                for chunk in fr.chunks(2048) {
                    if run.elapsed_s() > deadline {
                        completed = depth - 1;
                        exhaustive = false;
                        break 'levels;
                    }
                    let results: Vec<(Vec<Child>, u64, Vec<(String, Hist)>)> = chunk.par_iter().map(|h| successors(*cfg, h, &ph.events, &ph.alphabet)).collect();
                    for (children, rp, panics) in results {
                        ph_replays += rp;
                        for p in panics {
                            panics_seen.entry(p.0.clone()).or_insert_with(|| (format!("[cfg {}] {} :: history: {}", cfg.name, p.0, hist_text(&p.1)), witness(cfg, &p.1, 0, 0)));
                        }
                        for c in children {
                            ph_trans += 1;
                            handle(&run, cfg, &c, &mut agg, &mut other_props);
                            classify_state(&mut state_classes, &c);
                            if seen[ci].insert(vpc::fnv64(c.key.as_bytes())) {
                                n += 1;
                                if depth < ph.max_depth {
                                    next.push(c.hist);
                                }
                            }
                            let _ = c.replays;
                        }
                    }
                }
                per_depth[ci].push(n);
                frontier[ci] = next;
            }
            eprintln!("phase {} depth {depth} done: states {:?} transitions {ph_trans} t={:.1}s", ph.name, seen.iter().map(|s| s.len()).collect::<Vec<_>>(), run.elapsed_s());
        }
        let st: u64 = seen.iter().map(|s| s.len() as u64).sum();
        total_states += st;
        total_trans += ph_trans;
        total_replays += ph_replays;
        bounds.push(format!("{}: depth {}{}", ph.name, completed, if completed < ph.max_depth { format!(" (requested {}, time share hit)", ph.max_depth) } else { String::new() }));
        phase_reports.push(json!({
            "phase": ph.name, "alphabet": ph.what,
            "events": ph.events.iter().map(|e| format!("{e:?}")).collect::<Vec<_>>(),
            "lookup_outcomes": ph.alphabet.iter().map(|o| o.label()).collect::<Vec<_>>(),
            "depth_requested": ph.max_depth, "depth_completed": completed,
            "states": st, "transitions": ph_trans, "histories_executed": ph_replays,
            "wall_s": ((run.elapsed_s() - phase_start) * 10.0).round() / 10.0,
            "per_configuration": cfgs.iter().enumerate().map(|(ci, c)| json!({"config": c.name, "min_refetch_delay_s": c.min_delay, "max_cached": c.max_cached, "states": seen[ci].len(), "new_states_per_depth": per_depth[ci]})).collect::<Vec<_>>(),
        }));
    }

    for (loc, (full, wit)) in &panics_seen {
        if loc.starts_with("tie-choice-unreachable") {
            run.outcome_n("tie-choice-unreachable (dropped branch)", 1);
            continue;
        }
        // the worker task dies: attributed to C06 ("whatever the sequence of lookups ...")
        let at = loc.rsplit(" @ ").next().unwrap_or(loc);
        let class = format!("panic@{}", at.find("crates/").map(|i| &at[i..]).unwrap_or(at));
        if run.prop == "C06" {
            run.violation(&class, full, wit.clone());
        } else {
            run.outcome_n(&format!("oracle-of-other-property-fired C06:{class}"), 1);
        }
    }
    for (k, n) in &state_classes {
        run.outcome_n(k, *n);
    }
    for (k, n) in &other_props {
        run.outcome_n(&format!("oracle-of-other-property-fired {k}"), *n);
    }
    run.outcome_n("ticks executed in last steps", agg.ticks as u64);
    run.outcome_n("lookups consumed in last steps", agg.lookups as u64);
    run.outcome_n("transitions that changed the slot", agg.slot_changes as u64);
    run.outcome_n("transitions that changed the slot while consuming an issue", agg.slot_changed_after_issue as u64);
    run.outcome_n("issue consumed that lies on the slot's path", agg.issue_consumed_on_slot as u64);
    run.outcome_n("steering demanded by the C07 oracle", agg.steer_demanded as u64);
    run.outcome_n("steering don't-care (every alternative freshly penalised)", agg.steer_dontcare as u64);
    run.outcome_n("steering impossible (no cached alternative avoids the interface)", agg.steer_no_alternative as u64);
    run.outcome_n("Deliver of reports lying on no cached path", agg.unrelated_deliver as u64);
    run.outcome_n("reports ignored by the dedup window", agg.dedup_ignored as u64);
    run.outcome_n("report on the slot's path consumed more than 30 s after it was made (no steering demanded)", agg.steer_stale_report as u64);
    run.outcome_n("p1/p2 ranking tie points", agg.tie_points as u64);
    run.outcome_n("maintenance ticks without lookup (due before next_refetch)", agg.quiet_ticks as u64);
    run.outcome_n("slot moved onto a path whose penalty is older than a half-life", agg.recover_selected as u64);

    let bound = format!("all event histories after the initial lookup up to: {} ; each over 4 configurations (min_refetch_delay 5/4 s x max_cached 2/3)", bounds.join("; "));
    run.finish(
        "model_checking",
        json!({
            "states": total_states,
            "transitions": total_trans,
            "traces_validated_against_impl": total_replays,
            "exhaustive": exhaustive,
            "bound": bound,
            "phases": phase_reports,
            "alphabet": {
                "branching_ticks_per_advance": branch_ticks,
                "issue_kinds": ISSUES.iter().map(|i| i.0).collect::<Vec<_>>(),
                "expiry_profiles_s": {"far": 1000, "soon": 12, "near": 8, "expired": -1, "same": "expiry of the previous time the path was returned (first time: soon)"},
                "policy": ACL,
                "paths": UNIVERSE.iter().map(|d| json!({"name": d.name, "first_egress": d.first_eg, "transit": d.mids, "last_ingress": d.last_in, "metadata": d.has_meta})).collect::<Vec<_>>(),
            },
        }),
        &[
            "the worker loop is played by the explorer: maintenance fires at the instant the real PathSet::next_maintain asks for (AdvLate: once per history 1 s late); a tick due before next_refetch is run without a scripted lookup and must not look up; issue delivery is a separate event",
            "time is integer seconds; observation instants between ticks are the path-expiry instants and the end of each advance",
            "inside one advance only the first tick branches over the outcome alphabet, later ticks of the same advance repeat that outcome re-stamped (all tick sequences remain reachable through shorter advances)",
            "states are merged on a key of subject state relative to now (scores rounded to 1e-3, issue ages clamped at 600 s); the oracles' reference memory is not part of the key",
            "backoff jitter 0; idle period effectively infinite; one (src,dst) pair",
            "C07 steering is demanded for reports consumed within 30 s (the cached-issue half-life) of being made; the explorer can hold a report back longer (starved worker), which demands nothing",
            "p1/p2 ranking ties are resolved by the crate through HashMap iteration order (RandomState); the explorer branches on both orders and re-executes until the real object shows the requested one",
        ],
    )
}

/// Non-vacuity classes of reached states.
fn classify_state(acc: &mut BTreeMap<&'static str, u64>, c: &Child) {
    // key layout: cfg|cache|slot|...
    let mut it = c.key.split('|');
    let _cfg = it.next();
    let cache = it.next().unwrap_or("");
    let slot = it.next().unwrap_or("");
    let n = if cache.is_empty() { 0 } else { cache.split(',').count() };
    *acc.entry(["state: cache size 0", "state: cache size 1", "state: cache size 2", "state: cache size 3", "state: cache size >3"][n.min(4)]).or_default() += 1;
    *acc.entry(if slot == "None" { "state: slot empty" } else { "state: slot filled" }).or_default() += 1;
    if c.viol.iter().any(|v| v.class.starts_with("expired-slot")) {
        *acc.entry("transition reaching an instant with an expired slot path").or_default() += 1;
    }
    if c.viol.iter().any(|v| v.class.starts_with("empty-slot")) {
        *acc.entry("transition reaching an instant with empty slot and unexpired cached path").or_default() += 1;
    }
}
