//! c05 check (under construction)
pub fn run(args: &vpc::Args) -> ! {
    vpc::machinery_failure(&format!("property {} not implemented yet", args.prop))
}
