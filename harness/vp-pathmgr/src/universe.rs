//! Path universe, lookup-outcome alphabet, issue kinds and the independent reference predicates
//! (ACL policy, "issue lies on path") used by the C05/C06/C07 oracles. Nothing here calls into the
//! path manager; the reference predicates work on the plain hop description `Desc`, never on the
//! crate's matcher or policy evaluator.
use std::{
    collections::{BTreeMap, VecDeque},
    future::Future,
    sync::{Arc, Mutex},
    time::{Duration, SystemTime},
};

use scion_stack::path::fetcher::traits::{PathFetchError, PathFetcher};
use sciparse::{
    core::model::Model,
    dataplane_path::{
        standard::{
            model::{HopField, InfoField, Segment, StandardPath},
            types::{HopFieldFlags, HopFieldMac, InfoFieldFlags},
        },
        view::ScionDpPathView,
    },
    identifier::isd_asn::IsdAsn,
    path::{
        ScionPath,
        fingerprint::data_plane::DpPathFingerprint,
        metadata::{InterfaceMetadata, PathMetadata, path_interface::PathInterface},
    },
};

pub const T0: u32 = 1_800_000_000;
pub fn at(x: u32) -> SystemTime {
    SystemTime::UNIX_EPOCH + Duration::from_secs(x as u64)
}
pub fn secs(t: SystemTime) -> i64 {
    match t.duration_since(SystemTime::UNIX_EPOCH) {
        Ok(d) => d.as_secs() as i64,
        Err(e) => -(e.duration().as_secs() as i64),
    }
}
pub fn ia(s: &str) -> IsdAsn {
    s.parse().unwrap()
}
pub const SRC: &str = "1-1";
pub const DST: &str = "1-4";
/// The AS the ACL policy denies ("- 1-9 +").
pub const DENIED_AS: &str = "1-9";
pub const ACL: &str = "- 1-9 +";

/// Plain description of a universe path: first egress, transit (AS, in, out)*, last ingress.
pub struct Desc {
    pub name: &'static str,
    pub first_eg: u16,
    pub mids: &'static [(&'static str, u16, u16)],
    pub last_in: u16,
    pub has_meta: bool,
}

/// p1/p2 interface-disjoint, equal length; p3 longer, shares p1's first hop (and AS 1-2 with
/// another egress); p4 = p1 with one interface changed and running through the denied AS; p5 has no
/// metadata at all (interfaces differ from all others so that its fingerprint is its own).
pub const UNIVERSE: [Desc; 8] = [
    Desc { name: "p1", first_eg: 1, mids: &[("1-2", 1, 2), ("1-5", 1, 2)], last_in: 1, has_meta: true },
    Desc { name: "p2", first_eg: 2, mids: &[("1-3", 1, 2), ("1-7", 1, 2)], last_in: 2, has_meta: true },
    Desc { name: "p3", first_eg: 1, mids: &[("1-2", 1, 3), ("1-6", 1, 2), ("1-8", 1, 2)], last_in: 3, has_meta: true },
    Desc { name: "p4", first_eg: 1, mids: &[("1-2", 1, 2), ("1-9", 1, 4)], last_in: 1, has_meta: true },
    Desc { name: "p5", first_eg: 5, mids: &[("1-2", 5, 5), ("1-5", 5, 5)], last_in: 5, has_meta: false },
    // twins of p1: same interface ids (=> same data-plane fingerprint) but another policy verdict
    Desc { name: "p1d", first_eg: 1, mids: &[("1-9", 1, 2), ("1-5", 1, 2)], last_in: 1, has_meta: true },
    Desc { name: "p1n", first_eg: 1, mids: &[("1-2", 1, 2), ("1-5", 1, 2)], last_in: 1, has_meta: false },
    // same length as p1, shares p1's first hop and transit link 1-2#2 (what IfDown/ConnDown on p1 report), differs afterwards
    Desc { name: "p6", first_eg: 1, mids: &[("1-2", 1, 2), ("1-5", 1, 3)], last_in: 4, has_meta: true },
];
/// equal-length paths whose mutual rank is a tie when both arrive as new candidates
pub const TIE_GROUP: [usize; 3] = [0, 1, 7];

/// Reference ACL evaluation of `ACL` (written from the ACL language: the first entry whose hop
/// predicate matches a hop decides; "- 1-9" denies every hop in AS 1-9, default allow). A path whose
/// hops are unknown (no metadata) cannot be evaluated and counts as rejected.
pub fn ref_policy_allows(id: usize) -> bool {
    let d = &UNIVERSE[id];
    if !d.has_meta {
        return false;
    }
    !d.mids.iter().any(|(a, _, _)| *a == DENIED_AS) && SRC != DENIED_AS && DST != DENIED_AS
}

pub fn mk_path(id: usize, expiry: u32) -> ScionPath {
    let d = &UNIVERSE[id];
    let (src, dst) = (ia(SRC), ia(DST));
    let hf = |i: u16, e: u16| HopField { flags: HopFieldFlags::empty(), expiration_units: 0, cons_ingress: i, cons_egress: e, mac: HopFieldMac::zero() };
    let mut hops = tinyvec::tiny_vec!([HopField; 12] => hf(0, d.first_eg));
    let im = |a: IsdAsn, id: u16| InterfaceMetadata::new_without_metadata(PathInterface { isd_asn: a, id });
    let mut ifs = vec![im(src, d.first_eg)];
    for (a, i, e) in d.mids {
        hops.push(hf(*i, *e));
        ifs.push(im(ia(a), *i));
        ifs.push(im(ia(a), *e));
    }
    hops.push(hf(d.last_in, 0));
    ifs.push(im(dst, d.last_in));
    let mut segs = tinyvec::ArrayVec::<[Segment; 3]>::new();
    // hop expiry unit 0 = 337 s after the info timestamp
    segs.push(Segment { info_field: InfoField { flags: InfoFieldFlags::CONS_DIR, segment_id: 1, timestamp: expiry - 337 }, hop_fields: hops });
    let sp = StandardPath { current_info_field: 0, current_hop_field: 0, segments: segs };
    let view = sp.try_encode_to_owned_view().unwrap();
    let md = if d.has_meta { Some(PathMetadata { expiration: expiry as u64, mtu: 1400, interfaces: Some(ifs), epic_auth: None, notes: None }) } else { None };
    ScionPath::new(src, dst, ScionDpPathView::Standard(view), md, None)
}

/// Fingerprint -> universe index (the lowest index among fingerprint twins).
pub fn fp_table() -> BTreeMap<DpPathFingerprint, usize> {
    let mut m = BTreeMap::new();
    for i in 0..UNIVERSE.len() {
        m.entry(mk_path(i, T0).fingerprint()).or_insert(i);
    }
    m
}
/// Identify a path object: fingerprint, then (twins) metadata presence and the transit ASes it names.
pub fn identify(p: &ScionPath) -> Option<usize> {
    let fp = p.fingerprint();
    let ases: Option<Vec<IsdAsn>> = p.metadata().and_then(|m| m.interfaces.as_ref()).map(|v| v.iter().map(|i| i.interface.isd_asn).collect());
    (0..UNIVERSE.len()).find(|i| {
        let d = &UNIVERSE[*i];
        if mk_path_cached_fp(*i) != fp {
            return false;
        }
        match &ases {
            None => !d.has_meta,
            Some(a) => {
                let mut want = vec![ia(SRC)];
                for (m, _, _) in d.mids {
                    want.push(ia(m));
                    want.push(ia(m));
                }
                want.push(ia(DST));
                d.has_meta && *a == want
            }
        }
    })
}
fn mk_path_cached_fp(i: usize) -> DpPathFingerprint {
    static T: std::sync::OnceLock<Vec<DpPathFingerprint>> = std::sync::OnceLock::new();
    T.get_or_init(|| (0..UNIVERSE.len()).map(|i| mk_path(i, T0).fingerprint()).collect())[i]
}

// ---------------------------------------------------------------------------------------------
// Lookup outcomes
// ---------------------------------------------------------------------------------------------
#[derive(Clone, Copy, Debug, PartialEq, Eq, Hash, PartialOrd, Ord)]
pub enum Set {
    Err,
    Empty,
    /// only the policy-rejected path
    Rej,
    /// only the metadata-less path
    NoMeta,
    P1,
    P2,
    P12,
    P123,
    /// p4, p5, p1, p2, p3 (rejected ones first; 3 acceptable paths, > max_cached when that is 2)
    Big,
    /// p1's fingerprint through the denied AS
    P1d,
    /// p1's fingerprint without metadata
    P1n,
    P1dP2,
    /// p1, p6 (shares p1's transit link), p3 (longer, avoids that link)
    P163,
}
impl Set {
    pub fn name(self) -> &'static str {
        match self {
            Set::Err => "Err",
            Set::Empty => "Ok{}",
            Set::Rej => "Ok{p4}",
            Set::NoMeta => "Ok{p5}",
            Set::P1 => "Ok{p1}",
            Set::P2 => "Ok{p2}",
            Set::P12 => "Ok{p1,p2}",
            Set::P123 => "Ok{p1,p2,p3}",
            Set::Big => "Ok{p4,p5,p1,p2,p3}",
            Set::P1d => "Ok{p1d}",
            Set::P1n => "Ok{p1n}",
            Set::P1dP2 => "Ok{p1d,p2}",
            Set::P163 => "Ok{p1,p6,p3}",
        }
    }
    pub fn ids(self) -> &'static [usize] {
        match self {
            Set::Err | Set::Empty => &[],
            Set::Rej => &[3],
            Set::NoMeta => &[4],
            Set::P1 => &[0],
            Set::P2 => &[1],
            Set::P12 => &[0, 1],
            Set::P123 => &[0, 1, 2],
            Set::Big => &[3, 4, 0, 1, 2],
            Set::P1d => &[5],
            Set::P1n => &[6],
            Set::P1dP2 => &[5, 1],
            Set::P163 => &[0, 7, 2],
        }
    }
    pub fn has_profile(self) -> bool {
        matches!(self, Set::P1 | Set::P12 | Set::P123 | Set::Big)
    }
    pub fn from_name(s: &str) -> Option<Set> {
        [Set::Err, Set::Empty, Set::Rej, Set::NoMeta, Set::P1, Set::P2, Set::P12, Set::P123, Set::Big, Set::P1d, Set::P1n, Set::P1dP2, Set::P163].into_iter().find(|x| x.name() == s)
    }
}
/// "same" = un-renewed: the path comes back with the expiry it had the last time a lookup returned it
/// (first appearance: like "soon").
pub const PROFILES: [&str; 5] = ["far", "soon", "near", "expired", "same"];

/// One scripted lookup outcome. `prof` is the expiry profile of p1 in the result (all other paths
/// are "far"); `tie` selects which of p1/p2 the real code ranks first when both arrive as new,
/// equally scored candidates (the crate iterates a `HashMap` with `RandomState` there).
#[derive(Clone, Copy, Debug, PartialEq, Eq, Hash, PartialOrd, Ord)]
pub struct Out {
    pub set: Set,
    pub prof: u8,
    pub tie: u8,
}
impl Out {
    pub fn label(&self) -> String {
        let mut s = self.set.name().to_string();
        if self.set.has_profile() {
            s.push_str(&format!(" p1:{}", PROFILES[self.prof as usize]));
        }
        if self.tie != 0 {
            s.push_str(" tie:p2-first");
        }
        s
    }
    pub fn parse(s: &str) -> Option<Out> {
        let mut it = s.split(' ');
        let set = Set::from_name(it.next()?)?;
        let mut o = Out { set, prof: 0, tie: 0 };
        for t in it {
            if let Some(p) = t.strip_prefix("p1:") {
                o.prof = PROFILES.iter().position(|x| *x == p)? as u8;
            } else if t == "tie:p2-first" {
                o.tie = 1;
            }
        }
        Some(o)
    }
}

/// Expiry (absolute) of universe path `id` in a lookup answered at `t`.
pub fn expiry_of(o: Out, id: usize, t: u32, pr: &Profiles, last_returned: Option<u32>) -> u32 {
    if id == 0 {
        match o.prof {
            0 => t + pr.far,
            1 => t + pr.soon,
            2 => t + pr.near,
            3 => t - 1,
            _ => last_returned.unwrap_or(t + pr.soon),
        }
    } else {
        t + pr.far
    }
}

#[derive(Clone, Copy, Debug)]
pub struct Profiles {
    pub far: u32,
    pub soon: u32,
    pub near: u32,
}

pub fn alphabet() -> Vec<Out> {
    let mut v = vec![];
    for set in [Set::Err, Set::Empty, Set::Rej, Set::NoMeta, Set::P2] {
        v.push(Out { set, prof: 0, tie: 0 });
    }
    for set in [Set::P1, Set::P12, Set::P123, Set::Big] {
        for prof in 0..4 {
            v.push(Out { set, prof, tie: 0 });
        }
    }
    for set in [Set::P1, Set::P12] {
        v.push(Out { set, prof: 4, tie: 0 });
    }
    for set in [Set::P1d, Set::P1n, Set::P1dP2] {
        v.push(Out { set, prof: 0, tie: 0 });
    }
    v
}

// ---------------------------------------------------------------------------------------------
// Scripted fetcher
// ---------------------------------------------------------------------------------------------
#[derive(Default)]
pub struct ScriptState {
    pub queue: VecDeque<Result<Vec<ScionPath>, ()>>,
    pub calls: u32,
    pub unscripted_calls: u32,
}
#[derive(Clone, Default)]
pub struct Scripted(pub Arc<Mutex<ScriptState>>);
impl PathFetcher for Scripted {
    fn fetch_paths(&self, _s: IsdAsn, _d: IsdAsn) -> impl Future<Output = Result<Vec<ScionPath>, PathFetchError>> + Send + '_ {
        let r = {
            let mut g = self.0.lock().unwrap();
            g.calls += 1;
            match g.queue.pop_front() {
                Some(r) => r,
                None => {
                    g.unscripted_calls += 1;
                    Err(())
                }
            }
        };
        async move { r.map_err(|_| PathFetchError::InternalError("scripted".into())) }
    }
}

// ---------------------------------------------------------------------------------------------
// Issue kinds
// ---------------------------------------------------------------------------------------------
#[derive(Clone, Copy, Debug, PartialEq, Eq)]
pub enum IssueDesc {
    /// SCMP ExternalInterfaceDown(AS, interface): the link behind that AS's egress interface is down.
    IfDown(&'static str, u16),
    /// SCMP InternalConnectivityDown(AS, ingress, egress)
    ConnDown(&'static str, u16, u16),
    /// local send failure towards the first-hop router of (source AS, egress interface)
    FirstHop(u16),
}
pub const ISSUES: [(&str, IssueDesc); 6] = [
    ("IfDown(p1 transit egress 1-2#2)", IssueDesc::IfDown("1-2", 2)),
    ("ConnDown(p1 1-2 1>2)", IssueDesc::ConnDown("1-2", 1, 2)),
    ("IfDown(p2 1-3#2)", IssueDesc::IfDown("1-3", 2)),
    ("FirstHopDown(src#1 shared p1,p3)", IssueDesc::FirstHop(1)),
    ("IfDown(p1 last link 1-5#2)", IssueDesc::IfDown("1-5", 2)),
    ("IfDown(no known path 1-2#9)", IssueDesc::IfDown("1-2", 9)),
];

/// Reference: does the failed interface of issue `k` lie on universe path `id` (in the direction of
/// travel)? Written from the SCMP message semantics: ExternalInterfaceDown names the egress
/// interface of the reporting AS, InternalConnectivityDown the (ingress, egress) pair crossed inside
/// it, a first-hop failure the source AS's egress interface.
pub fn ref_issue_on_path(k: usize, id: usize) -> bool {
    let d = &UNIVERSE[id];
    match ISSUES[k].1 {
        IssueDesc::IfDown(a, e) => (a == SRC && d.first_eg == e) || d.mids.iter().any(|(ma, _, me)| *ma == a && *me == e),
        IssueDesc::ConnDown(a, i, e) => d.mids.iter().any(|(ma, mi, me)| *ma == a && *mi == i && *me == e),
        IssueDesc::FirstHop(e) => d.first_eg == e,
    }
}
