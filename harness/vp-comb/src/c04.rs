//! C04 - path combination is sound, complete, loop-free, duplicate-free and ordered.
//!
//! Bounded exhaustive exploration: every topology of R-topo with n <= N ASes (both interface
//! numberings) plus the curated larger shapes; every ordered (src, dst); segments from R-seg
//! converted field by field into `UnsignedPathSegment`; input = the lookup-plan sets; input
//! variants = every order / duplication / later-timestamp copy (see `variants`). The REAL
//! `sciparse::path::combinator::combine` is compared with R-combine and every returned path is
//! checked against the topology.
use std::collections::{BTreeMap, BTreeSet};

use rayon::prelude::*;
use sciparse::{path::combinator::combine, segment::UnsignedPathSegment};
use vpc::{
    Value, json,
    refcombine::{self, HopSeq, RPath},
    refseg::{self, RSegment, RSegs},
    reftopo::{AsIdx, Topo},
    reftopo_enum,
    refwire::RStdPath,
};

use crate::util::{self, BASE_TS, Obs};

/// Later-timestamp copies are re-beaconed this many seconds later.
const LATER: u32 = 1000;

/// One input segment: index into `RSegs::core` / `RSegs::up_down` and a timestamp shift.
#[derive(Clone, Copy, Debug, PartialEq, Eq, PartialOrd, Ord)]
pub struct SegRef {
    pub idx: usize,
    pub dts: u32,
}

#[derive(Clone, Debug)]
pub struct Input {
    pub tag: String,
    pub cores: Vec<SegRef>,
    pub non_cores: Vec<SegRef>,
}

/// Per-topology cache of segments in both forms, for dts in {0, LATER}.
pub struct SegCache<'a> {
    topo: &'a Topo,
    segs: RSegs,
    core: BTreeMap<(usize, u32), (RSegment, UnsignedPathSegment)>,
    updown: BTreeMap<(usize, u32), (RSegment, UnsignedPathSegment)>,
}
impl<'a> SegCache<'a> {
    pub fn new(topo: &'a Topo) -> Self {
        SegCache { topo, segs: refseg::beacon(topo, BASE_TS), core: BTreeMap::new(), updown: BTreeMap::new() }
    }
    fn get(&mut self, core: bool, r: SegRef) -> &(RSegment, UnsignedPathSegment) {
        let (map, list) = if core { (&mut self.core, &self.segs.core) } else { (&mut self.updown, &self.segs.up_down) };
        let topo = self.topo;
        map.entry((r.idx, r.dts)).or_insert_with(|| {
            let base = &list[r.idx];
            let s = if r.dts == 0 { base.clone() } else { refseg::restamp(topo, base, base.timestamp + r.dts) };
            let c = util::to_seg(topo, &s);
            (s, c)
        })
    }
}

/// What one call of the real `combine` returned, reduced to comparable data.
#[derive(Clone, Debug, PartialEq, Eq, PartialOrd, Ord)]
struct RealPath {
    hops: HopSeq,
    mtu: u16,
    expiration: u64,
}

struct CaseOutcome {
    violations: Vec<(String, String)>,
    real: Vec<Obs>,
    real_set: BTreeSet<RealPath>,
    reference: BTreeMap<HopSeq, RPath>,
}

fn reference(cache: &mut SegCache, src: AsIdx, dst: AsIdx, inp: &Input) -> BTreeMap<HopSeq, RPath> {
    let cores: Vec<RSegment> = inp.cores.iter().map(|r| cache.get(true, *r).0.clone()).collect();
    let ncs: Vec<RSegment> = inp.non_cores.iter().map(|r| cache.get(false, *r).0.clone()).collect();
    let ups: Vec<&RSegment> = ncs.iter().filter(|s| s.last_as() == src).collect();
    let downs: Vec<&RSegment> = ncs.iter().filter(|s| s.last_as() == dst).collect();
    let cores: Vec<&RSegment> = cores.iter().collect();
    refcombine::combine(cache.topo, src, dst, &ups, &cores, &downs)
}

/// Run the real code on one input and apply every C04 oracle. `reference` = R-combine's result for
/// this input's segment multiset.
fn run_case(cache: &mut SegCache, src: AsIdx, dst: AsIdx, inp: &Input, reference: &BTreeMap<HopSeq, RPath>) -> CaseOutcome {
    let topo = cache.topo;
    let cores: Vec<UnsignedPathSegment> = inp.cores.iter().map(|r| cache.get(true, *r).1.clone()).collect();
    let ncs: Vec<UnsignedPathSegment> = inp.non_cores.iter().map(|r| cache.get(false, *r).1.clone()).collect();
    let (s_ia, d_ia) = (util::ia(topo, src), util::ia(topo, dst));
    let mut out = CaseOutcome { violations: vec![], real: vec![], real_set: BTreeSet::new(), reference: reference.clone() };
    let paths = match vpc::catch(|| combine(s_ia, d_ia, cores, ncs)) {
        Ok(p) => p,
        Err(m) => {
            out.violations.push((util::panic_class(&vpc::last_panic_location(), &m), format!("combine panicked on a consistent segment set at {}: {m}", vpc::last_panic_location())));
            return out;
        }
    };
    let obs: Vec<Obs> = paths.iter().map(util::observe).collect();
    let mut viols: Vec<(String, String)> = vec![];
    let mut real_set: BTreeSet<RealPath> = BTreeSet::new();
    let mut v = |class: &str, what: String| viols.push((class.to_string(), what));
    let mut seqs: Vec<Option<HopSeq>> = vec![];
    let mut fps = BTreeSet::new();
    for (k, o) in obs.iter().enumerate() {
        let mut seq = None;
        if o.src != s_ia.to_u64() || o.dst != d_ia.to_u64() {
            v("src-dst-differs-from-request", format!("path {k}: src/dst {} -> {} but requested {} -> {}", util::ia_str(o.src), util::ia_str(o.dst), s_ia, d_ia));
        }
        if !fps.insert(o.fingerprint.clone()) {
            v("two-paths-same-fingerprint", format!("path {k} has the fingerprint of an earlier path"));
        }
        if !o.has_meta || !o.standard {
            v("path-without-metadata", format!("path {k}: metadata/interface list or standard dp path missing"));
            seqs.push(None);
            continue;
        }
        match RStdPath::parse(&o.bytes) {
            Err(e) => v("dp-path-unparsable", format!("path {k}: R-wire rejects the encoded path: {e}")),
            Ok(p) => match util::decode_on_topo(topo, src, &p) {
                Err(e) => v("hop-fields-leave-topology", format!("path {k}: {e}")),
                Ok(d) => {
                    let want: Vec<(u64, u16)> = refcombine::interfaces(&d.hops).iter().map(|&(a, i)| (topo.ases[a].ia(), i)).collect();
                    if want != o.ifaces {
                        v("interface-list-differs-from-hop-fields", format!("path {k}: hop fields traverse {want:?}, metadata lists {:?}", o.ifaces));
                    }
                    if d.hops.last().map(|h| h.0) != Some(dst) {
                        v("hop-fields-end-elsewhere", format!("path {k}: hop fields end at AS {:?}, destination is {dst}", d.hops.last()));
                    }
                    let mut ases: Vec<AsIdx> = d.hops.iter().map(|h| h.0).collect();
                    ases.sort();
                    let n = ases.len();
                    ases.dedup();
                    if ases.len() != n {
                        v("as-visited-twice", format!("path {k}: {}", util::hopseq_str(topo, &d.hops)));
                    }
                    match refcombine::topo_mtu(topo, &d.hops) {
                        Ok(m) if m == o.mtu => {}
                        Ok(m) => v(if o.mtu > m { "mtu-above-minimum" } else { "mtu-below-minimum" }, format!("path {k} ({}): metadata mtu {} but min over traversed ASes and links is {m}", util::hopseq_str(topo, &d.hops), o.mtu)),
                        Err(e) => v("hop-fields-leave-topology", format!("path {k}: {e}")),
                    }
                    if o.meta_expiration != d.min_expiry as u64 || o.expiration != Some(d.min_expiry) {
                        v("expiry-not-earliest-hop-expiry", format!("path {k}: metadata {} / expiration() {:?}, earliest hop expiry {}", o.meta_expiration, o.expiration, d.min_expiry));
                    }
                    real_set.insert(RealPath { hops: d.hops.clone(), mtu: o.mtu, expiration: o.meta_expiration });
                    seq = Some(d.hops);
                }
            },
        }
        seqs.push(seq);
    }
    // each once
    let mut seen: BTreeSet<&HopSeq> = BTreeSet::new();
    let mut twice: BTreeSet<&HopSeq> = BTreeSet::new();
    for (k, s) in seqs.iter().enumerate() {
        let Some(s) = s else { continue };
        if !seen.insert(s) {
            twice.insert(s);
            // narrow cause: the earlier instance differs only in the construction-direction flags
            // (the same links taken from a segment beaconed the other way round)?
            let first = seqs.iter().position(|x| x.as_ref() == Some(s)).unwrap();
            let flags = |o: &Obs| RStdPath::parse(&o.bytes).map(|p| p.infos.iter().map(|i| i.cons_dir()).collect::<Vec<_>>()).unwrap_or_default();
            // hop-field id pairs at positions where an interface is NOT crossed (first hop of a
            // shortcut / on-path segment) are the only difference?
            let raw = |o: &Obs| RStdPath::parse(&o.bytes).map(|p| p.hops.iter().map(|h| (h.cons_ingress, h.cons_egress)).collect::<Vec<_>>()).unwrap_or_default();
            let lens = |o: &Obs| RStdPath::parse(&o.bytes).map(|p| p.seg_len).unwrap_or_default();
            let cause = if obs[first].fingerprint == obs[k].fingerprint {
                "equal-fingerprints"
            } else if lens(&obs[first]) != lens(&obs[k]) {
                "different-segmentation"
            } else if flags(&obs[first]) != flags(&obs[k]) {
                "segment-beaconed-in-opposite-direction"
            } else if raw(&obs[first]) != raw(&obs[k]) {
                "unused-interface-of-crossover-hop-differs"
            } else {
                "other"
            };
            v(&format!("same-interface-sequence-twice:{cause}"), format!("paths {first} and {k} both are {}", util::hopseq_str(topo, s)));
        }
    }
    // sound + complete
    for s in &seen {
        if !reference.contains_key(*s) {
            v("path-not-obtainable-by-combination-rules", format!("real returned {} which R-combine does not derive", util::hopseq_str(topo, s)));
        }
    }
    for (s, r) in reference {
        if !seen.contains(s) {
            let kind = r.kinds.iter().next().unwrap().name();
            v(&format!("missing-path:{kind}"), format!("R-combine derives {} ({:?}); real result lacks it", util::hopseq_str(topo, s), r.kinds));
        }
    }
    // segmentation: the SegLen values of every returned path must be those of a rule instance
    for (k, sq) in seqs.iter().enumerate() {
        if let (Some(sq), Ok(p)) = (sq, RStdPath::parse(&obs[k].bytes)) {
            if let Some(r) = reference.get(sq) {
                let shape: Vec<usize> = p.seg_len.iter().map(|x| *x as usize).filter(|x| *x > 0).collect();
                if !r.shapes.contains(&shape) {
                    v("segmentation-not-derivable-by-combination-rules", format!("{}: data-plane path has segment lengths {shape:?}, the rules give {:?}", util::hopseq_str(topo, sq), r.shapes));
                }
            }
        }
    }
    // cheapest first
    let counts: Vec<usize> = seqs.iter().flatten().map(|s| s.len()).collect();
    if counts.windows(2).any(|w| w[0] > w[1]) {
        v("not-ordered-by-hop-count", format!("hop counts along the result: {counts:?}"));
    }
    // keep-latest-expiry among derivations of the same sequence
    for (k, s) in seqs.iter().enumerate() {
        if let Some(s) = s {
            if twice.contains(s) {
                continue; // reported above; one of the instances is the stale one
            }
            if let Some(r) = reference.get(s) {
                let got = obs[k].meta_expiration;
                if got != r.latest_expiry() as u64 && r.expiries.iter().any(|e| *e as u64 == got) {
                    v("duplicate-kept-is-not-latest-expiry", format!("{}: returned instance expires {got}, derivations expire {:?}", util::hopseq_str(topo, s), r.expiries));
                } else if got != r.latest_expiry() as u64 {
                    v("expiry-matches-no-derivation", format!("{}: returned instance expires {got}, derivations expire {:?}", util::hopseq_str(topo, s), r.expiries));
                }
            }
        }
    }
    out.real = obs;
    out.violations = viols;
    out.real_set = real_set;
    out
}

/// Lookup-plan input and its variants.
fn variants(cache: &SegCache, src: AsIdx, dst: AsIdx, full: bool) -> Vec<Input> {
    let ps = cache.segs.plan_sets(cache.topo, src, dst);
    let r0 = |v: &[usize]| v.iter().map(|&idx| SegRef { idx, dts: 0 }).collect::<Vec<_>>();
    let later = |v: &[SegRef]| v.iter().map(|r| SegRef { idx: r.idx, dts: LATER }).collect::<Vec<_>>();
    let c = r0(&ps.core);
    let crev = r0(&ps.core_rev);
    let n: Vec<SegRef> = r0(&ps.up).into_iter().chain(r0(&ps.down)).collect();
    let cat = |a: &[SegRef], b: &[SegRef]| a.iter().chain(b.iter()).copied().collect::<Vec<_>>();
    let mut out = vec![Input { tag: "base".into(), cores: c.clone(), non_cores: n.clone() }];
    if !crev.is_empty() {
        out.push(Input { tag: "core-segments-other-direction".into(), cores: crev.clone(), non_cores: n.clone() });
        out.push(Input { tag: "core-segments-both-directions".into(), cores: cat(&c, &crev), non_cores: n.clone() });
    }
    // "any set of well-formed segments": every core segment of the topology, not only those between
    // the two core sides of this lookup
    let all_cores: Vec<SegRef> = (0..cache.segs.core.len()).map(|idx| SegRef { idx, dts: 0 }).collect();
    if all_cores.len() > c.len() {
        out.push(Input { tag: "all-core-segments-of-topology".into(), cores: all_cores, non_cores: n.clone() });
    }
    out.push(Input { tag: "later-copy-of-all-after".into(), cores: cat(&c, &later(&c)), non_cores: cat(&n, &later(&n)) });
    out.push(Input { tag: "later-copy-of-all-before".into(), cores: cat(&later(&c), &c), non_cores: cat(&later(&n), &n) });
    if !full {
        return out;
    }
    for (k, o) in util::orders(n.len()).into_iter().enumerate().skip(1) {
        out.push(Input { tag: format!("non_cores-order-{k}"), cores: c.clone(), non_cores: o.iter().map(|&i| n[i]).collect() });
    }
    for (k, o) in util::orders(c.len()).into_iter().enumerate().skip(1) {
        out.push(Input { tag: format!("cores-order-{k}"), cores: o.iter().map(|&i| c[i]).collect(), non_cores: n.clone() });
    }
    if c.len() > 1 && n.len() > 1 {
        out.push(Input { tag: "both-reversed".into(), cores: c.iter().rev().copied().collect(), non_cores: n.iter().rev().copied().collect() });
    }
    for i in 0..n.len() {
        out.push(Input { tag: format!("non_cores-dup-{i}"), cores: c.clone(), non_cores: cat(&n, &[n[i]]) });
        let l = SegRef { idx: n[i].idx, dts: LATER };
        out.push(Input { tag: format!("non_cores-later-copy-{i}-after"), cores: c.clone(), non_cores: cat(&n, &[l]) });
        out.push(Input { tag: format!("non_cores-later-copy-{i}-before"), cores: c.clone(), non_cores: cat(&[l], &n) });
    }
    for i in 0..c.len() {
        out.push(Input { tag: format!("cores-dup-{i}"), cores: cat(&c, &[c[i]]), non_cores: n.clone() });
        let l = SegRef { idx: c[i].idx, dts: LATER };
        out.push(Input { tag: format!("cores-later-copy-{i}-after"), cores: cat(&c, &[l]), non_cores: n.clone() });
        out.push(Input { tag: format!("cores-later-copy-{i}-before"), cores: cat(&[l], &c), non_cores: n.clone() });
    }
    out
}

fn refs_json(v: &[SegRef]) -> Value {
    json!(v.iter().map(|r| json!([r.idx, r.dts])).collect::<Vec<_>>())
}
fn refs_from_json(v: &Value) -> Vec<SegRef> {
    v.as_array().unwrap().iter().map(|x| SegRef { idx: x[0].as_u64().unwrap() as usize, dts: x[1].as_u64().unwrap() as u32 }).collect()
}

fn witness(topo: &Topo, src: AsIdx, dst: AsIdx, inp: &Input, cache: &mut SegCache) -> Value {
    let show = |cache: &mut SegCache, core: bool, v: &[SegRef]| -> Vec<String> { v.iter().map(|r| format!("{}", cache.get(core, *r).1)).collect() };
    json!({
        "topology": util::topo_json(topo), "src": src, "dst": dst, "variant": inp.tag,
        "cores": refs_json(&inp.cores), "non_cores": refs_json(&inp.non_cores),
        "segments_written_out": {"cores": show(cache, true, &inp.cores), "non_cores": show(cache, false, &inp.non_cores)},
        "note": "segments = vpc::refseg::beacon(topology, 1_700_000_000); [index, timestamp shift] into .core / .up_down",
    })
}

#[derive(Default)]
struct Tally {
    calls: u64,
    ref_calls: u64,
    pairs: u64,
    pairs_with_paths: u64,
    full_pairs: u64,
    outcomes: BTreeMap<String, u64>,
    nontrivial: Vec<u64>,
    max_paths: usize,
    max_segs: usize,
}
impl Tally {
    fn merge(&mut self, o: Tally) {
        self.calls += o.calls;
        self.ref_calls += o.ref_calls;
        self.pairs += o.pairs;
        self.pairs_with_paths += o.pairs_with_paths;
        self.full_pairs += o.full_pairs;
        for (k, v) in o.outcomes {
            *self.outcomes.entry(k).or_default() += v;
        }
        self.nontrivial.extend(o.nontrivial);
        self.max_paths = self.max_paths.max(o.max_paths);
        self.max_segs = self.max_segs.max(o.max_segs);
    }
}

/// Explore one topology. `full_every`: every pair whose running index is divisible by it gets the
/// complete variant set (1 = all pairs).
fn explore(run: &vpc::Run, topo: &Topo, topo_idx: usize, full_every: usize) -> Tally {
    let mut t = Tally::default();
    let mut cache = SegCache::new(topo);
    let n = topo.ases.len();
    let mut pair_idx = 0usize;
    for src in 0..n {
        for dst in 0..n {
            if src == dst {
                continue;
            }
            pair_idx += 1;
            t.pairs += 1;
            let full = (topo_idx + pair_idx) % full_every == 0;
            if full {
                t.full_pairs += 1;
            }
            let inputs = variants(&cache, src, dst, full);
            let mut ref_cache: BTreeMap<(Vec<SegRef>, Vec<SegRef>), BTreeMap<HopSeq, RPath>> = BTreeMap::new();
            let mut base_set: Option<BTreeSet<RealPath>> = None;
            let mut reported: BTreeSet<String> = BTreeSet::new();
            for inp in &inputs {
                // R-combine depends on the multiset of distinct segments only
                let mut key = (inp.cores.clone(), inp.non_cores.clone());
                key.0.sort();
                key.0.dedup();
                key.1.sort();
                key.1.dedup();
                if !ref_cache.contains_key(&key) {
                    t.ref_calls += 1;
                    let r = reference(&mut cache, src, dst, inp);
                    ref_cache.insert(key.clone(), r);
                }
                let reference = &ref_cache[&key];
                let oc = run_case(&mut cache, src, dst, inp, reference);
                t.calls += 1;
                t.max_segs = t.max_segs.max(inp.cores.len() + inp.non_cores.len());
                t.max_paths = t.max_paths.max(oc.real.len());
                let mut viol = oc.violations.clone();
                if inp.tag == "base" {
                    if !oc.reference.is_empty() {
                        t.pairs_with_paths += 1;
                        t.nontrivial.push(vpc::fnv64(format!("{}|{src}|{dst}", topo.name).as_bytes()));
                    } else {
                        *t.outcomes.entry("pair-without-path".into()).or_default() += 1;
                    }
                    for r in oc.reference.values() {
                        for k in &r.kinds {
                            *t.outcomes.entry(format!("path:{}", k.name())).or_default() += 1;
                        }
                        if r.kinds.len() > 1 {
                            *t.outcomes.entry("path-derivable-by-several-rules".into()).or_default() += 1;
                        }
                    }
                    base_set = Some(oc.real_set.clone());
                } else if let Some(b) = &base_set {
                    // order / duplication independence: permutations and exact duplicates must not change
                    // anything; later copies change expiries only
                    let same_multiset = inp.cores.iter().chain(inp.non_cores.iter()).all(|r| r.dts == 0) && !inp.tag.starts_with("core-segments") && !inp.tag.starts_with("all-core");
                    if same_multiset && *b != oc.real_set && viol.is_empty() {
                        viol.push(("result-depends-on-input-order-or-duplication".into(), format!("variant {} returns a different path set than the base order", inp.tag)));
                    }
                    let strip = |s: &BTreeSet<RealPath>| s.iter().map(|p| (p.hops.clone(), p.mtu)).collect::<BTreeSet<_>>();
                    if !same_multiset && strip(b) != strip(&oc.real_set) && viol.is_empty() {
                        viol.push(("result-depends-on-input-order-or-duplication".into(), format!("variant {} returns different interface sequences / MTUs than the base input", inp.tag)));
                    }
                }
                *t.outcomes.entry(format!("variant:{}", inp.tag.split(|c: char| c.is_ascii_digit()).next().unwrap_or("").trim_end_matches('-'))).or_default() += 1;
                for (class, what) in viol {
                    if !reported.insert(class.clone()) {
                        continue; // one witness per (topology, pair, class)
                    }
                    let w = if run.is_known(&class) { Value::Null } else { witness(topo, src, dst, inp, &mut cache) };
                    run.violation(&class, &format!("{} {}->{} [{}]: {}", topo.name, src, dst, inp.tag, what), w);
                }
                run.sample(4, || {
                    json!({"topology": topo.name, "src": util::ia_str(topo.ases[src].ia()), "dst": util::ia_str(topo.ases[dst].ia()), "variant": inp.tag,
                           "real_paths": oc.real.iter().map(|o| o.to_json()).collect::<Vec<_>>(),
                           "reference_paths": oc.reference.values().map(|r| json!({"hops": util::hopseq_str(topo, &r.hops), "kinds": r.kinds.iter().map(|k| k.name()).collect::<Vec<_>>(), "mtu": r.mtu, "expiries": r.expiries})).collect::<Vec<_>>()})
                });
            }
        }
    }
    t
}

fn replay(args: &vpc::Args, file: &std::path::Path) -> ! {
    let rp = vpc::read_replay(file);
    let w = &rp["witness"];
    let topo = util::topo_from_json(&w["topology"]);
    let (src, dst) = (w["src"].as_u64().unwrap() as usize, w["dst"].as_u64().unwrap() as usize);
    let inp = Input { tag: w["variant"].as_str().unwrap_or("replay").to_string(), cores: refs_from_json(&w["cores"]), non_cores: refs_from_json(&w["non_cores"]) };
    let mut cache = SegCache::new(&topo);
    let reference = reference(&mut cache, src, dst, &inp);
    let oc = run_case(&mut cache, src, dst, &inp, &reference);
    println!("replay {} : topology {} {} -> {} variant {}", file.display(), topo.name, src, dst, inp.tag);
    for r in &inp.cores {
        println!("  core     {}", cache.get(true, *r).1);
    }
    for r in &inp.non_cores {
        println!("  non-core {}", cache.get(false, *r).1);
    }
    println!("real combine returned {} paths:", oc.real.len());
    for o in &oc.real {
        println!("  {}", o.to_json());
    }
    println!("R-combine derives {} paths:", reference.len());
    for r in reference.values() {
        println!("  {}  kinds={:?} mtu={} expiries={:?}", util::hopseq_str(&topo, &r.hops), r.kinds, r.mtu, r.expiries);
    }
    let _ = args;
    if oc.violations.is_empty() {
        println!("REPLAY: no violation reproduced");
        std::process::exit(0)
    }
    for (c, wh) in &oc.violations {
        println!("REPLAY VIOLATION [{c}] {wh}");
    }
    std::process::exit(1)
}

pub fn run(args: &vpc::Args) -> ! {
    vpc::quiet_panics();
    if let Some(f) = &args.replay {
        replay(args, f);
    }
    let run = vpc::Run::new(args);
    let max_n = run.tier.pick(4, 5);
    let max_mult = 2;
    let mut total = Tally::default();
    let mut per_n = vec![];
    let mut topo_idx = 0usize;
    for n in 1..=max_n {
        let topos = reftopo_enum::enumerate(n, max_mult);
        // complete variant set: n <= 3 every pair; above on a rotating subset of pairs
        let full_every = match (n, run.tier) {
            (0..=3, _) => 1,
            (4, vpc::Tier::Quick) => 6,
            (4, vpc::Tier::Thorough) => 1,
            (_, _) => 12,
        };
        let base = topo_idx;
        let tallies: Vec<Tally> = topos.par_iter().enumerate().map(|(i, t)| explore(&run, t, base + i, full_every)).collect();
        topo_idx += topos.len();
        let mut tn = Tally::default();
        for t in tallies {
            tn.merge(t);
        }
        per_n.push(json!({"n": n, "shapes": topos.len() / 2, "topologies(2 numberings)": topos.len(), "ordered_pairs": tn.pairs, "pairs_with_full_variant_set": tn.full_pairs, "combine_calls": tn.calls, "pairs_with_paths": tn.pairs_with_paths}));
        total.merge(tn);
    }
    let curated_n;
    {
        let cur = reftopo_enum::curated();
        curated_n = cur.len();
        let full_every = run.tier.pick(5, 1);
        let base = topo_idx;
        let tallies: Vec<Tally> = cur.par_iter().enumerate().map(|(i, t)| explore(&run, t, base + i, full_every)).collect();
        let mut tn = Tally::default();
        for t in tallies {
            tn.merge(t);
        }
        per_n.push(json!({"curated": cur.iter().map(|t| t.name.clone()).collect::<Vec<_>>(), "ordered_pairs": tn.pairs, "pairs_with_full_variant_set": tn.full_pairs, "combine_calls": tn.calls, "pairs_with_paths": tn.pairs_with_paths}));
        total.merge(tn);
    }
    for (k, v) in &total.outcomes {
        run.outcome_n(k, *v);
    }
    let d = vpc::Distinct::default();
    d.extend(total.nontrivial.iter().copied());
    let exhaustive_all_variants = run.tier == vpc::Tier::Thorough;
    run.finish(
        "exploration",
        json!({
            "evaluations": total.calls,
            "violation_counting": "one count per (topology, ordered pair, class)",
            "reference_evaluations": total.ref_calls,
            "distinct_nontrivial": d.len(),
            "rule": "distinct (topology incl. interface numbering, ordered src/dst pair) for which R-combine derives at least one path; evaluations = calls of the real combine()",
            "exhaustive": true,
            "bound": format!("all SCION topologies up to isomorphism with n <= {max_n} ASes (core-link multiplicity <= {max_mult}, two interface numberings each) + {curated_n} curated larger shapes; every ordered (src,dst); lookup-plan sets; base + core-direction + all-later-copies variants on every pair, the complete order/duplication variant set on every pair for n <= 3{}", if exhaustive_all_variants { " and n = 4, every 12th pair for n = 5, every pair of the curated shapes" } else { ", every 6th pair for n = 4, every 5th pair of the curated shapes" }),
            "per_n": per_n,
            "largest_input_segments": total.max_segs,
            "largest_result_paths": total.max_paths,
        }),
        &[
            "R-topo/R-seg/R-combine are written from the SCION control-plane documentation and are the trusted side",
            "segments are built field by field through the public AsEntry/HopEntry/PeerEntry/UnsignedPathSegment::new constructors; hop MAC values are irrelevant to C04",
            "the lookup plan returns: up = all segments ending at a non-core src, down = all ending at a non-core dst, core = all core segments between the core sides",
            "keep-latest-expiry among equal interface sequences is taken as part of 'each once' (documented behaviour of filter_duplicates / scionproto)",
        ],
    )
}
