//! Shared by C04 and C19: conversion of R-seg segments into the crate's segment type (public
//! constructors only), observation of returned paths, topology-aware / topology-free decoding of
//! data-plane paths with R-wire, JSON (de)serialisation of topologies for replay files.
use sciparse::{
    core::view::View,
    dataplane_path::{standard::types::HopFieldMac, view::ScionDpPathView},
    identifier::isd_asn::IsdAsn,
    path::ScionPath,
    segment::{AsEntry, HopEntry, PeerEntry, SegmentHopField, UnsignedPathSegment},
};
use vpc::{
    Value, json,
    refcombine::HopSeq,
    refseg::{RSegment, expiry_secs},
    reftopo::{AsIdx, LinkKind, Topo},
    refwire::RStdPath,
};

pub const BASE_TS: u32 = 1_700_000_000;

pub fn ia(topo: &Topo, i: AsIdx) -> IsdAsn {
    IsdAsn::from_u64(topo.ases[i].ia())
}

pub fn ia_str(v: u64) -> String {
    format!("{}-{:x}:{:x}:{:x}", v >> 48, (v >> 32) & 0xffff, (v >> 16) & 0xffff, v & 0xffff)
}

/// R-seg segment -> crate segment, field by field (MACs kept verbatim).
pub fn to_entries(topo: &Topo, s: &RSegment) -> Vec<AsEntry> {
    s.entries
        .iter()
        .map(|e| AsEntry {
            local: ia(topo, e.as_idx),
            next: e.next.map(|n| ia(topo, n)).unwrap_or(IsdAsn::from_u64(0)),
            mtu: e.as_mtu as u32,
            hop_entry: HopEntry {
                ingress_mtu: e.ingress_mtu,
                hop_field: SegmentHopField { expiration_units: e.exp_time, cons_ingress: e.cons_ingress, cons_egress: e.cons_egress, mac: HopFieldMac::new(e.mac) },
            },
            peer_entries: e
                .peers
                .iter()
                .map(|p| PeerEntry {
                    peer: ia(topo, p.peer_as),
                    peer_interface: p.peer_if,
                    peer_mtu: p.link_mtu,
                    hop_field: SegmentHopField { expiration_units: p.exp_time, cons_ingress: p.local_if, cons_egress: p.cons_egress, mac: HopFieldMac::new(p.mac) },
                })
                .collect(),
            extensions: vec![],
            unsigned_extensions: vec![],
        })
        .collect()
}

pub fn to_seg(topo: &Topo, s: &RSegment) -> UnsignedPathSegment {
    UnsignedPathSegment::new(s.timestamp, s.seg_id, to_entries(topo, s))
}

/// Everything observable about a returned path, as plain data.
#[derive(Clone, Debug, PartialEq, Eq, PartialOrd, Ord)]
pub struct Obs {
    pub src: u64,
    pub dst: u64,
    pub has_meta: bool,
    pub ifaces: Vec<(u64, u16)>,
    pub mtu: u16,
    pub meta_expiration: u64,
    pub expiration: Option<u32>,
    /// bytes of the standard path (PathMeta + info fields + hop fields); empty if not a standard path
    pub bytes: Vec<u8>,
    pub standard: bool,
    pub fingerprint: Vec<u8>,
}

pub fn observe(p: &ScionPath) -> Obs {
    let (bytes, standard) = match p.dp_path() {
        ScionDpPathView::Standard(v) => (v.as_slice().to_vec(), true),
        _ => (vec![], false),
    };
    let m = p.metadata();
    Obs {
        src: p.src_ia().to_u64(),
        dst: p.dst_ia().to_u64(),
        has_meta: m.is_some() && m.unwrap().interfaces.is_some(),
        ifaces: m.and_then(|m| m.interfaces.as_ref()).map(|v| v.iter().map(|i| (i.interface.isd_asn.to_u64(), i.interface.id)).collect()).unwrap_or_default(),
        mtu: m.map(|m| m.mtu).unwrap_or(0),
        meta_expiration: m.map(|m| m.expiration).unwrap_or(0),
        expiration: p.expiration(),
        bytes,
        standard,
        fingerprint: p.fingerprint().as_ref().to_vec(),
    }
}

impl Obs {
    pub fn to_json(&self) -> Value {
        json!({
            "src": ia_str(self.src), "dst": ia_str(self.dst),
            "interfaces": self.ifaces.iter().map(|(a, i)| format!("{}#{}", ia_str(*a), i)).collect::<Vec<_>>(),
            "mtu": self.mtu, "meta_expiration": self.meta_expiration, "expiration": self.expiration,
            "dp_path": vpc::hex(&self.bytes),
        })
    }
}

/// Use of one hop field's interfaces in travel direction, by the SCION forwarding rules: the very
/// first hop only has an egress, the very last only an ingress; at a segment change that is not a
/// peering crossing the AS is represented by two hop fields (last of the old, first of the new
/// segment): the ingress comes from the former, the egress from the latter.
#[derive(Clone, Copy, Debug)]
pub struct HopUse {
    pub seg: usize,
    pub travel_in: u16,
    pub travel_out: u16,
    pub in_used: bool,
    pub out_used: bool,
    pub expiry: u32,
}

pub fn hop_uses(p: &RStdPath) -> Vec<HopUse> {
    let nseg = p.num_inf();
    let mut v = vec![];
    for s in 0..nseg {
        let r = p.seg_range(s);
        let cons = p.infos[s].cons_dir();
        for k in r.clone() {
            let h = &p.hops[k];
            let (tin, tout) = if cons { (h.cons_ingress, h.cons_egress) } else { (h.cons_egress, h.cons_ingress) };
            let first_in_seg = k == r.start;
            let last_in_seg = k + 1 == r.end;
            let first_overall = s == 0 && first_in_seg;
            let last_overall = s + 1 == nseg && last_in_seg;
            let xover_in = first_in_seg && s > 0 && !(p.infos[s - 1].peering() && p.infos[s].peering());
            let xover_out = last_in_seg && s + 1 < nseg && !(p.infos[s].peering() && p.infos[s + 1].peering());
            v.push(HopUse { seg: s, travel_in: tin, travel_out: tout, in_used: !(first_overall || xover_in), out_used: !(last_overall || xover_out), expiry: expiry_secs(p.infos[s].timestamp, h.exp_time) });
        }
    }
    v
}

/// Interface ids a packet on this path crosses, in travel order (topology-free).
pub fn used_ids(p: &RStdPath) -> Vec<u16> {
    let mut v = vec![];
    for u in hop_uses(p) {
        if u.in_used {
            v.push(u.travel_in);
        }
        if u.out_used {
            v.push(u.travel_out);
        }
    }
    v
}

pub struct Decoded {
    pub hops: HopSeq,
    pub min_expiry: u32,
}

/// Follow the hop fields from `src` through the topology.
pub fn decode_on_topo(topo: &Topo, src: AsIdx, p: &RStdPath) -> Result<Decoded, String> {
    let uses = hop_uses(p);
    if uses.is_empty() {
        return Err("no-hop-fields".into());
    }
    let mut cur = src;
    let mut expected_in: Option<u16> = None;
    let mut pending_in = 0u16;
    let mut hops: HopSeq = vec![];
    let mut min_expiry = u32::MAX;
    let n = uses.len();
    for (k, u) in uses.iter().enumerate() {
        min_expiry = min_expiry.min(u.expiry);
        if u.in_used {
            match expected_in {
                Some(e) if e == u.travel_in => pending_in = u.travel_in,
                Some(e) => return Err(format!("hop {k}: enters AS {cur} through interface {e} but the hop field says {}", u.travel_in)),
                None => return Err(format!("hop {k}: ingress used without a preceding link")),
            }
            expected_in = None;
        }
        if u.out_used {
            let (nx, nif, _, _) = topo.neighbour(cur, u.travel_out).ok_or_else(|| format!("hop {k}: AS {cur} has no interface {}", u.travel_out))?;
            hops.push((cur, pending_in, u.travel_out));
            cur = nx;
            expected_in = Some(nif);
            pending_in = 0;
        }
        if k + 1 == n {
            if u.out_used {
                return Err("last hop has a used egress".into());
            }
            hops.push((cur, pending_in, 0));
        }
    }
    Ok(Decoded { hops, min_expiry })
}

pub fn topo_json(t: &Topo) -> Value {
    json!({
        "name": t.name,
        "ases": t.ases.iter().map(|a| json!({"isd": a.isd, "asn": a.asn, "core": a.core, "key": vpc::hex(&a.key), "mtu": a.mtu, "ia": ia_str(a.ia())})).collect::<Vec<_>>(),
        "links": t.links.iter().map(|l| json!({"a": l.a, "a_if": l.a_if, "b": l.b, "b_if": l.b_if, "kind": match l.kind { LinkKind::Core => "core", LinkKind::ParentChild => "parent-child", LinkKind::Peer => "peer" }, "mtu": l.mtu})).collect::<Vec<_>>(),
    })
}

pub fn topo_from_json(v: &Value) -> Topo {
    let mut t = Topo::new(v["name"].as_str().unwrap_or("replay"));
    for a in v["ases"].as_array().expect("ases") {
        let i = t.add_as(a["isd"].as_u64().unwrap() as u16, a["asn"].as_u64().unwrap(), a["core"].as_bool().unwrap());
        t.ases[i].key = vpc::unhex(a["key"].as_str().unwrap()).try_into().unwrap();
        t.ases[i].mtu = a["mtu"].as_u64().unwrap() as u16;
    }
    for l in v["links"].as_array().expect("links") {
        let kind = match l["kind"].as_str().unwrap() {
            "core" => LinkKind::Core,
            "parent-child" => LinkKind::ParentChild,
            _ => LinkKind::Peer,
        };
        t.add_link(l["a"].as_u64().unwrap() as usize, l["a_if"].as_u64().unwrap() as u16, l["b"].as_u64().unwrap() as usize, l["b_if"].as_u64().unwrap() as u16, kind);
        let k = t.links.len() - 1;
        t.links[k].mtu = l["mtu"].as_u64().unwrap() as u16;
    }
    t
}

pub fn hopseq_str(topo: &Topo, h: &HopSeq) -> String {
    h.iter().map(|&(a, i, e)| format!("{}>{}#{}>{}", i, ia_str(topo.ases[a].ia()), a, e)).collect::<Vec<_>>().join(" ")
}

/// All permutations of 0..n (n <= 5) or, beyond, all rotations and the reversal. Identity first.
pub fn orders(n: usize) -> Vec<Vec<usize>> {
    let id: Vec<usize> = (0..n).collect();
    let mut out = vec![id.clone()];
    if n <= 1 {
        return out;
    }
    if n <= 5 {
        fn rec(cur: &mut Vec<usize>, used: &mut Vec<bool>, n: usize, out: &mut Vec<Vec<usize>>) {
            if cur.len() == n {
                out.push(cur.clone());
                return;
            }
            for i in 0..n {
                if !used[i] {
                    used[i] = true;
                    cur.push(i);
                    rec(cur, used, n, out);
                    cur.pop();
                    used[i] = false;
                }
            }
        }
        let mut all = vec![];
        rec(&mut vec![], &mut vec![false; n], n, &mut all);
        out.extend(all.into_iter().filter(|p| *p != id));
    } else {
        for r in 1..n {
            out.push((0..n).map(|i| (i + r) % n).collect());
        }
        out.push((0..n).rev().collect());
    }
    out
}

/// Stable class name of a panic: source file + slug of the message (line numbers shift with
/// unrelated edits; the line is reported in the text).
pub fn panic_class(location: &str, msg: &str) -> String {
    let file = location.rsplit('/').next().unwrap_or(location).split(':').next().unwrap_or("");
    let mut slug = String::new();
    for c in msg.chars().take(60) {
        if c.is_ascii_alphanumeric() {
            slug.push(c.to_ascii_lowercase());
        } else if !slug.ends_with('-') {
            slug.push('-');
        }
    }
    format!("panic@{file}:{}", slug.trim_matches('-'))
}
