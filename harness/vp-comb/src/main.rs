mod c04;
mod c19;
mod util;

fn main() {
    let args = vpc::Args::parse();
    match args.prop.as_str() {
        "C04" => c04::run(&args),
        "C19" => c19::run(&args),
        p => vpc::machinery_failure(&format!("property {p} is not served by this binary")),
    }
}
