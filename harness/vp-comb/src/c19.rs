//! C19 - path combination tolerates arbitrary segment sets from the control plane.
//!
//! Fault enumeration by bounded exhaustive exploration: base = the lookup-plan segment sets of every
//! (topology, src, dst) of R-topo with n <= N plus the curated shapes; on each base set EVERY single
//! structural mutation (thorough: every ordered pair of mutations on the smaller bases) of the
//! catalogue in `seg_mutations` / `set_mutants`; plus a scaling series 5/10/20/40 segments.
//! The REAL `combine` is called on every mutated set. Oracles: no panic; returns within a fixed
//! budget; result size polynomial; every returned path parses with R-wire, re-encodes identically,
//! hop-field interface ids == metadata interface list, src/dst == first/last metadata AS, expiry ==
//! earliest hop expiry, MTU <= every contributing value; ISOLATION: the paths obtainable from the
//! untouched segments alone are all still returned.
use std::{
    collections::{BTreeMap, BTreeSet},
    sync::{
        Mutex,
        atomic::{AtomicU64, Ordering},
    },
    time::{Duration, Instant},
};

use rayon::prelude::*;
use sciparse::{
    dataplane_path::standard::types::HopFieldMac,
    identifier::isd_asn::IsdAsn,
    path::combinator::combine,
    segment::{AsEntry, HopEntry, PeerEntry, SegmentHopField, UnsignedPathSegment},
};
use vpc::{
    Value, json,
    refseg::{self, RSegment},
    reftopo::{AsIdx, Topo},
    reftopo_enum,
    refwire::RStdPath,
};

use crate::util::{self, BASE_TS, Obs};

/// Fixed budget for one call (the unmutated calls take well under a millisecond).
const BUDGET: Duration = Duration::from_secs(20);

// ---------------------------------------------------------------------------------------------
// plain-data segments (mutable, JSON-serialisable)
// ---------------------------------------------------------------------------------------------

#[derive(Clone, Debug, PartialEq, Eq, PartialOrd, Ord, Hash)]
pub struct MPeer {
    pub peer: u64,
    pub peer_if: u16,
    pub peer_mtu: u16,
    pub exp: u8,
    pub cin: u16,
    pub cout: u16,
    pub mac: [u8; 6],
}
#[derive(Clone, Debug, PartialEq, Eq, PartialOrd, Ord, Hash)]
pub struct MEntry {
    pub ia: u64,
    pub next: u64,
    pub mtu: u32,
    pub ingress_mtu: u16,
    pub exp: u8,
    pub cin: u16,
    pub cout: u16,
    pub mac: [u8; 6],
    pub peers: Vec<MPeer>,
}
#[derive(Clone, Debug, PartialEq, Eq, PartialOrd, Ord, Hash)]
pub struct MSeg {
    /// stable identity inside a set (for isolation: which segments were touched)
    pub id: u32,
    pub ts: u32,
    pub seg_id: u16,
    pub entries: Vec<MEntry>,
}
#[derive(Clone, Debug, PartialEq, Eq, PartialOrd, Ord, Hash, Default)]
pub struct MSet {
    pub cores: Vec<MSeg>,
    pub non_cores: Vec<MSeg>,
}

impl MSeg {
    fn from_r(topo: &Topo, id: u32, s: &RSegment) -> MSeg {
        MSeg {
            id,
            ts: s.timestamp,
            seg_id: s.seg_id,
            entries: s
                .entries
                .iter()
                .map(|e| MEntry {
                    ia: topo.ases[e.as_idx].ia(),
                    next: e.next.map(|n| topo.ases[n].ia()).unwrap_or(0),
                    mtu: e.as_mtu as u32,
                    ingress_mtu: e.ingress_mtu,
                    exp: e.exp_time,
                    cin: e.cons_ingress,
                    cout: e.cons_egress,
                    mac: e.mac,
                    peers: e.peers.iter().map(|p| MPeer { peer: topo.ases[p.peer_as].ia(), peer_if: p.peer_if, peer_mtu: p.link_mtu, exp: p.exp_time, cin: p.local_if, cout: p.cons_egress, mac: p.mac }).collect(),
                })
                .collect(),
        }
    }
    fn to_crate(&self) -> UnsignedPathSegment {
        let entries = self
            .entries
            .iter()
            .map(|e| AsEntry {
                local: IsdAsn::from_u64(e.ia),
                next: IsdAsn::from_u64(e.next),
                mtu: e.mtu,
                hop_entry: HopEntry { ingress_mtu: e.ingress_mtu, hop_field: SegmentHopField { expiration_units: e.exp, cons_ingress: e.cin, cons_egress: e.cout, mac: HopFieldMac::new(e.mac) } },
                peer_entries: e
                    .peers
                    .iter()
                    .map(|p| PeerEntry { peer: IsdAsn::from_u64(p.peer), peer_interface: p.peer_if, peer_mtu: p.peer_mtu, hop_field: SegmentHopField { expiration_units: p.exp, cons_ingress: p.cin, cons_egress: p.cout, mac: HopFieldMac::new(p.mac) } })
                    .collect(),
                extensions: vec![],
                unsigned_extensions: vec![],
            })
            .collect();
        UnsignedPathSegment::new(self.ts, self.seg_id, entries)
    }
    fn to_json(&self) -> Value {
        json!({"id": self.id, "ts": self.ts, "seg_id": self.seg_id, "entries": self.entries.iter().map(|e| json!({
            "ia": e.ia, "ia_text": util::ia_str(e.ia), "next": e.next, "mtu": e.mtu, "ingress_mtu": e.ingress_mtu, "exp": e.exp, "cons_ingress": e.cin, "cons_egress": e.cout, "mac": vpc::hex(&e.mac),
            "peers": e.peers.iter().map(|p| json!({"peer": p.peer, "peer_text": util::ia_str(p.peer), "peer_if": p.peer_if, "peer_mtu": p.peer_mtu, "exp": p.exp, "cons_ingress": p.cin, "cons_egress": p.cout, "mac": vpc::hex(&p.mac)})).collect::<Vec<_>>(),
        })).collect::<Vec<_>>()})
    }
    fn from_json(v: &Value) -> MSeg {
        let u = |x: &Value| x.as_u64().unwrap();
        let mac = |x: &Value| -> [u8; 6] { vpc::unhex(x.as_str().unwrap()).try_into().unwrap() };
        MSeg {
            id: u(&v["id"]) as u32,
            ts: u(&v["ts"]) as u32,
            seg_id: u(&v["seg_id"]) as u16,
            entries: v["entries"]
                .as_array()
                .unwrap()
                .iter()
                .map(|e| MEntry {
                    ia: u(&e["ia"]),
                    next: u(&e["next"]),
                    mtu: u(&e["mtu"]) as u32,
                    ingress_mtu: u(&e["ingress_mtu"]) as u16,
                    exp: u(&e["exp"]) as u8,
                    cin: u(&e["cons_ingress"]) as u16,
                    cout: u(&e["cons_egress"]) as u16,
                    mac: mac(&e["mac"]),
                    peers: e["peers"].as_array().unwrap().iter().map(|p| MPeer { peer: u(&p["peer"]), peer_if: u(&p["peer_if"]) as u16, peer_mtu: u(&p["peer_mtu"]) as u16, exp: u(&p["exp"]) as u8, cin: u(&p["cons_ingress"]) as u16, cout: u(&p["cons_egress"]) as u16, mac: mac(&p["mac"]) }).collect(),
                })
                .collect(),
        }
    }
    fn text(&self) -> String {
        let mut s = format!("seg#{} ts={} [", self.id, self.ts);
        for (i, e) in self.entries.iter().enumerate() {
            if i > 0 {
                s.push_str(" | ");
            }
            s.push_str(&format!("{}>{}>{} mtu={} imtu={} exp={}", e.cin, util::ia_str(e.ia), e.cout, e.mtu, e.ingress_mtu, e.exp));
            for p in &e.peers {
                s.push_str(&format!(" peer({}#{}<-{} mtu={})", util::ia_str(p.peer), p.peer_if, p.cin, p.peer_mtu));
            }
        }
        s.push(']');
        s
    }
}
impl MSet {
    fn to_json(&self) -> Value {
        json!({"cores": self.cores.iter().map(|s| s.to_json()).collect::<Vec<_>>(), "non_cores": self.non_cores.iter().map(|s| s.to_json()).collect::<Vec<_>>()})
    }
    fn from_json(v: &Value) -> MSet {
        MSet { cores: v["cores"].as_array().unwrap().iter().map(MSeg::from_json).collect(), non_cores: v["non_cores"].as_array().unwrap().iter().map(MSeg::from_json).collect() }
    }
    fn len(&self) -> usize {
        self.cores.len() + self.non_cores.len()
    }
    fn without(&self, ids: &BTreeSet<u32>) -> MSet {
        MSet { cores: self.cores.iter().filter(|s| !ids.contains(&s.id)).cloned().collect(), non_cores: self.non_cores.iter().filter(|s| !ids.contains(&s.id)).cloned().collect() }
    }
    fn next_id(&self) -> u32 {
        self.cores.iter().chain(self.non_cores.iter()).map(|s| s.id).max().map_or(0, |m| m + 1)
    }
    fn hash(&self) -> u64 {
        vpc::fnv64(format!("{self:?}").as_bytes())
    }
}

// ---------------------------------------------------------------------------------------------
// mutation catalogue
// ---------------------------------------------------------------------------------------------

/// One mutated set: what was done, the new set, and the ids of the touched / added segments.
#[derive(Clone)]
pub struct Mutant {
    pub family: &'static str,
    pub what: String,
    pub set: MSet,
    pub touched: BTreeSet<u32>,
}

struct Ctx {
    /// every IA of the topology + one IA that exists nowhere
    ias: Vec<u64>,
    src: u64,
    dst: u64,
}

/// Every single structural mutation of one segment: (family, description, mutated segment).
fn seg_mutations(s: &MSeg, ctx: &Ctx) -> Vec<(&'static str, String, MSeg)> {
    let mut out: Vec<(&'static str, String, MSeg)> = vec![];
    let l = s.entries.len();
    let mut push = |fam: &'static str, what: String, m: MSeg| {
        if m != *s {
            out.push((fam, what, m));
        }
    };
    // whole segment
    for keep in [0usize, 1] {
        let mut m = s.clone();
        m.entries.truncate(keep);
        push("truncate", format!("truncate to the first {keep} entries"), m);
    }
    if l >= 1 {
        let mut m = s.clone();
        m.entries = vec![s.entries[l - 1].clone()];
        push("truncate", "truncate to the last entry".into(), m);
        let mut m = s.clone();
        m.entries.reverse();
        push("reorder", "reverse the entries".into(), m);
        let mut m = s.clone();
        for e in &mut m.entries {
            e.cin = 0;
            e.cout = 0;
            for p in &mut e.peers {
                p.cin = 0;
                p.cout = 0;
                p.peer_if = 0;
            }
        }
        push("zero-if", "all interface ids of the segment := 0".into(), m);
        let mut m = s.clone();
        for e in &mut m.entries {
            e.peers.clear();
        }
        push("peer-drop", "drop all peer entries of the segment".into(), m);
    }
    for i in 0..l {
        let e = &s.entries[i];
        let mut m = s.clone();
        m.entries.remove(i);
        push("delete", format!("delete entry {i}"), m);
        let mut m = s.clone();
        m.entries.insert(i, e.clone());
        push("duplicate", format!("duplicate entry {i}"), m);
        if i + 1 < l {
            let mut m = s.clone();
            m.entries.swap(i, i + 1);
            push("reorder", format!("swap entries {i} and {}", i + 1), m);
        }
        // repeat an AS / foreign AS
        for j in 0..l {
            if j != i {
                let mut m = s.clone();
                m.entries[i].ia = s.entries[j].ia;
                push("repeat-as", format!("entry {i}: AS := AS of entry {j}"), m);
            }
        }
        for &x in &ctx.ias {
            if x != e.ia && !s.entries.iter().any(|o| o.ia == x) {
                let mut m = s.clone();
                m.entries[i].ia = x;
                push("foreign-as", format!("entry {i}: AS := {}", util::ia_str(x)), m);
            }
        }
        // interface ids
        let mut ids: BTreeSet<u16> = BTreeSet::new();
        for o in &s.entries {
            ids.insert(o.cin);
            ids.insert(o.cout);
            for p in &o.peers {
                ids.insert(p.cin);
                ids.insert(p.peer_if);
            }
        }
        ids.insert(0);
        ids.insert(65535);
        for &v in &ids {
            let mut m = s.clone();
            m.entries[i].cin = v;
            push(if v == 0 { "zero-if" } else { "alias-if" }, format!("entry {i}: cons_ingress := {v}"), m);
            let mut m = s.clone();
            m.entries[i].cout = v;
            push(if v == 0 { "zero-if" } else { "alias-if" }, format!("entry {i}: cons_egress := {v}"), m);
        }
        let mut m = s.clone();
        m.entries[i].cin = 0;
        m.entries[i].cout = 0;
        push("zero-if", format!("entry {i}: both interface ids := 0"), m);
        let mut m = s.clone();
        m.entries[i].cin = e.cout;
        m.entries[i].cout = e.cin;
        push("alias-if", format!("entry {i}: swap ingress and egress"), m);
        // MTUs
        for v in [0u32, 1, 65535, 65536, 65536 + 1500, u32::MAX] {
            let mut m = s.clone();
            m.entries[i].mtu = v;
            push("mtu", format!("entry {i}: mtu := {v}"), m);
        }
        for v in [0u16, 1, 65535] {
            let mut m = s.clone();
            m.entries[i].ingress_mtu = v;
            push("mtu", format!("entry {i}: ingress_mtu := {v}"), m);
        }
        for v in [0u8, 255] {
            let mut m = s.clone();
            m.entries[i].exp = v;
            push("expiry", format!("entry {i}: exp_time := {v}"), m);
        }
        // peer entries
        for (pi, p) in e.peers.iter().enumerate() {
            let mut m = s.clone();
            m.entries[i].peers.remove(pi);
            push("peer-drop", format!("entry {i}: drop peer entry {pi}"), m);
            let mut m = s.clone();
            m.entries[i].peers.insert(pi, p.clone());
            push("peer-crosswire", format!("entry {i}: duplicate peer entry {pi}"), m);
            for &x in &ctx.ias {
                if x != p.peer {
                    let mut m = s.clone();
                    m.entries[i].peers[pi].peer = x;
                    push("peer-crosswire", format!("entry {i} peer {pi}: peer AS := {}", util::ia_str(x)), m);
                }
            }
            for &v in &ids {
                let mut m = s.clone();
                m.entries[i].peers[pi].peer_if = v;
                push("peer-crosswire", format!("entry {i} peer {pi}: peer interface := {v}"), m);
                let mut m = s.clone();
                m.entries[i].peers[pi].cin = v;
                push("peer-crosswire", format!("entry {i} peer {pi}: hop cons_ingress := {v}"), m);
                let mut m = s.clone();
                m.entries[i].peers[pi].cout = v;
                push("peer-crosswire", format!("entry {i} peer {pi}: hop cons_egress := {v}"), m);
            }
            for v in [0u16, 65535] {
                let mut m = s.clone();
                m.entries[i].peers[pi].peer_mtu = v;
                push("mtu", format!("entry {i} peer {pi}: peer_mtu := {v}"), m);
            }
            for v in [0u8, 255] {
                let mut m = s.clone();
                m.entries[i].peers[pi].exp = v;
                push("expiry", format!("entry {i} peer {pi}: exp_time := {v}"), m);
            }
        }
        // a peer entry where there was none: towards src / dst
        for &x in [ctx.src, ctx.dst].iter() {
            if x != e.ia {
                let mut m = s.clone();
                m.entries[i].peers.push(MPeer { peer: x, peer_if: 1, peer_mtu: 1200, exp: 63, cin: 9, cout: e.cout, mac: [0xee; 6] });
                push("peer-crosswire", format!("entry {i}: invented peer entry towards {}", util::ia_str(x)), m);
            }
        }
    }
    // synthetic long chains between the original first and last AS
    if l >= 2 {
        for n in [63usize, 64, 100] {
            let mut m = s.clone();
            let (first, last) = (s.entries[0].clone(), s.entries[l - 1].clone());
            m.entries = vec![];
            for k in 0..n {
                let mut e = if k == 0 {
                    first.clone()
                } else if k + 1 == n {
                    last.clone()
                } else {
                    MEntry { ia: (9u64 << 48) | 0xff00_0001_0000 | k as u64, next: 0, mtu: 1500, ingress_mtu: 1500, exp: 63, cin: 0, cout: 0, mac: [k as u8; 6], peers: vec![] }
                };
                e.cin = if k == 0 { 0 } else { 1 };
                e.cout = if k + 1 == n { 0 } else { 2 };
                m.entries.push(e);
            }
            push("long-chain", format!("replace by a synthetic {n}-entry chain between the same end ASes"), m);
        }
    }
    out
}

/// Every single mutation of a set.
fn set_mutants(base: &MSet, ctx: &Ctx, foreign: &[MSeg]) -> Vec<Mutant> {
    let mut out = vec![];
    for (is_core, list) in [(true, &base.cores), (false, &base.non_cores)] {
        for (pos, s) in list.iter().enumerate() {
            let lname = if is_core { "cores" } else { "non_cores" };
            for (family, what, m) in seg_mutations(s, ctx) {
                let mut set = base.clone();
                if is_core {
                    set.cores[pos] = m;
                } else {
                    set.non_cores[pos] = m;
                }
                out.push(Mutant { family, what: format!("{lname}[{pos}] (seg#{}): {what}", s.id), set, touched: [s.id].into() });
            }
            // forged twins: a later copy of the segment with one AS replaced by an AS that exists
            // nowhere / with the entries reversed and filed in the other list
            for i in 0..s.entries.len() {
                let mut twin = s.clone();
                twin.id = base.next_id();
                twin.ts += 1000;
                twin.entries[i].ia = *ctx.ias.last().unwrap();
                let mut set = base.clone();
                if is_core { set.cores.push(twin.clone()) } else { set.non_cores.push(twin.clone()) };
                out.push(Mutant { family: "forged-twin", what: format!("extra later copy of {lname}[{pos}] (seg#{}) with the AS of entry {i} := {}", s.id, util::ia_str(twin.entries[i].ia)), set, touched: [twin.id].into() });
            }
            {
                let mut twin = s.clone();
                twin.id = base.next_id();
                twin.ts += 1000;
                twin.entries.reverse();
                let mut set = base.clone();
                if is_core { set.non_cores.push(twin.clone()) } else { set.cores.push(twin.clone()) };
                out.push(Mutant { family: "forged-twin", what: format!("extra later copy of {lname}[{pos}] (seg#{}) with reversed entries in the other list", s.id), set, touched: [twin.id].into() });
            }
            // the segment in both lists / in the wrong list
            let mut set = base.clone();
            let mut copy = s.clone();
            copy.id = base.next_id();
            if is_core { set.non_cores.push(copy.clone()) } else { set.cores.push(copy.clone()) };
            out.push(Mutant { family: "both-lists", what: format!("{lname}[{pos}] (seg#{}) also given in the other list", s.id), set, touched: [copy.id].into() });
            let mut set = base.clone();
            if is_core {
                set.cores.remove(pos);
                set.non_cores.push(s.clone());
            } else {
                set.non_cores.remove(pos);
                set.cores.push(s.clone());
            }
            out.push(Mutant { family: "wrong-list", what: format!("{lname}[{pos}] (seg#{}) moved to the other list", s.id), set, touched: [s.id].into() });
            let mut set = base.clone();
            if is_core { set.cores.remove(pos) } else { set.non_cores.remove(pos) };
            out.push(Mutant { family: "segment-missing", what: format!("{lname}[{pos}] (seg#{}) not delivered", s.id), set, touched: [s.id].into() });
        }
    }
    // foreign-leaf segments (not ending at src or dst), as non-core and as core
    for f in foreign {
        for is_core in [false, true] {
            let mut set = base.clone();
            let mut c = f.clone();
            c.id = base.next_id();
            if is_core { set.cores.push(c.clone()) } else { set.non_cores.push(c.clone()) };
            out.push(Mutant { family: "foreign-leaf", what: format!("extra segment with a foreign leaf in {}: {}", if is_core { "cores" } else { "non_cores" }, c.text()), set, touched: [c.id].into() });
        }
    }
    out
}

// ---------------------------------------------------------------------------------------------
// running the real code + oracles
// ---------------------------------------------------------------------------------------------

static SLOWEST_NS: AtomicU64 = AtomicU64::new(0);
/// (start, witness) of the calls in flight, for the watchdog.
static IN_FLIGHT: Mutex<BTreeMap<u64, (Instant, MSet, u64, u64)>> = Mutex::new(BTreeMap::new());
static CALL_NO: AtomicU64 = AtomicU64::new(0);

enum Eval {
    Paths(Vec<Obs>),
    Panic(String, String),
    OverBudget(f64),
}

fn eval(set: &MSet, src: u64, dst: u64, guard: bool) -> Eval {
    let cores: Vec<UnsignedPathSegment> = set.cores.iter().map(|s| s.to_crate()).collect();
    let ncs: Vec<UnsignedPathSegment> = set.non_cores.iter().map(|s| s.to_crate()).collect();
    let no = CALL_NO.fetch_add(1, Ordering::Relaxed);
    if guard {
        IN_FLIGHT.lock().unwrap().insert(no, (Instant::now(), set.clone(), src, dst));
    }
    let t0 = Instant::now();
    let r = vpc::catch(|| combine(IsdAsn::from_u64(src), IsdAsn::from_u64(dst), cores, ncs));
    let dt = t0.elapsed();
    if guard {
        IN_FLIGHT.lock().unwrap().remove(&no);
    }
    SLOWEST_NS.fetch_max(dt.as_nanos() as u64, Ordering::Relaxed);
    match r {
        Err(m) => Eval::Panic(vpc::last_panic_location(), m),
        Ok(_) if dt > BUDGET => Eval::OverBudget(dt.as_secs_f64()),
        Ok(p) => Eval::Paths(p.iter().map(util::observe).collect()),
    }
}

/// Oracle on one returned path, against the input set it was built from.
fn check_path(o: &Obs, set: &MSet) -> Vec<(String, String)> {
    let mut v = vec![];
    if !o.standard || !o.has_meta {
        v.push(("path-without-standard-dp-path-or-metadata".to_string(), "".to_string()));
        return v;
    }
    let p = match RStdPath::parse(&o.bytes) {
        Ok(p) => p,
        Err(e) => {
            v.push((format!("returned-path-does-not-parse:{e}"), format!("R-wire rejects {}", vpc::hex(&o.bytes))));
            return v;
        }
    };
    if p.to_bytes() != o.bytes {
        v.push(("returned-path-re-encodes-differently".into(), format!("{} vs {}", vpc::hex(&p.to_bytes()), vpc::hex(&o.bytes))));
    }
    // SCION: CurrHF is a 6-bit index, so a path holds at most 64 hop fields (scionproto MaxHops = 64)
    if p.hops.len() > 64 {
        v.push(("path-with-more-than-64-hop-fields".into(), format!("{} hop fields, segment lengths {:?}", p.hops.len(), p.seg_len)));
    }
    if p.hops.is_empty() || p.curr_hf != 0 || p.curr_inf != 0 {
        v.push(("returned-path-not-at-its-start".into(), format!("{} hops, curr_hf {}, curr_inf {}", p.hops.len(), p.curr_hf, p.curr_inf)));
    }
    // hop-field interface ids (in travel direction, as a router uses them) vs metadata interface list
    let ids = util::used_ids(&p);
    let meta_ids: Vec<u16> = o.ifaces.iter().map(|x| x.1).collect();
    if ids != meta_ids {
        let nz: Vec<u16> = ids.iter().copied().filter(|x| *x != 0).collect();
        let cause = if ids.contains(&0) {
            "path-crosses-interface-0"
        } else if meta_ids.len() > ids.len() {
            "metadata-lists-interface-not-crossed"
        } else if nz.len() > meta_ids.len() {
            "metadata-misses-crossed-interface"
        } else {
            "different-ids"
        };
        v.push((format!("metadata-interfaces-differ-from-hop-fields:{cause}"), format!("hop fields cross interface ids {ids:?}, metadata lists {:?}", o.ifaces.iter().map(|(a, i)| format!("{}#{}", util::ia_str(*a), i)).collect::<Vec<_>>())));
    }
    // every AS visit = 2 consecutive metadata interfaces of the same AS (except first/last)
    if o.ifaces.len() % 2 == 0 && ids == meta_ids {
        for k in (1..o.ifaces.len().saturating_sub(1)).step_by(2) {
            if o.ifaces[k].0 != o.ifaces[k + 1].0 {
                v.push(("metadata-interface-list-not-pairwise-per-as".into(), format!("positions {k},{}: {} vs {}", k + 1, util::ia_str(o.ifaces[k].0), util::ia_str(o.ifaces[k + 1].0))));
                break;
            }
        }
    }
    match (o.ifaces.first(), o.ifaces.last()) {
        (Some(f), Some(l)) => {
            if f.0 != o.src || l.0 != o.dst {
                v.push(("src-dst-differ-from-metadata-ends".into(), format!("src/dst {} {} metadata ends {} {}", util::ia_str(o.src), util::ia_str(o.dst), util::ia_str(f.0), util::ia_str(l.0))));
            }
        }
        _ => v.push(("metadata-without-interfaces".into(), "".into())),
    }
    // expiry
    let uses = util::hop_uses(&p);
    let min_exp = uses.iter().map(|u| u.expiry).min().unwrap_or(0);
    if o.meta_expiration != min_exp as u64 || o.expiration != Some(min_exp) {
        v.push(("expiry-not-earliest-hop-expiry".into(), format!("metadata {} expiration() {:?} earliest hop {}", o.meta_expiration, o.expiration, min_exp)));
    }
    // MTU <= every contributing value. A hop field is attributed to the input entries carrying the
    // same (mac, ids, exp); if several match, the most permissive one is taken.
    for (k, h) in p.hops.iter().enumerate() {
        let mut bound: Option<u32> = None;
        let mut upd = |b: u32| bound = Some(bound.map_or(b, |x: u32| x.max(b)));
        let ingress_crossed = {
            let u = &uses[k];
            let cons = p.infos[u.seg].cons_dir();
            if cons { u.in_used } else { u.out_used }
        };
        for s in set.cores.iter().chain(set.non_cores.iter()) {
            for e in &s.entries {
                if e.mac == h.mac && e.cin == h.cons_ingress && e.cout == h.cons_egress && e.exp == h.exp_time {
                    let mut b = e.mtu;
                    if ingress_crossed && e.ingress_mtu != 0 {
                        b = b.min(e.ingress_mtu as u32);
                    }
                    upd(b);
                }
                for pe in &e.peers {
                    if pe.mac == h.mac && pe.cin == h.cons_ingress && pe.cout == h.cons_egress && pe.exp == h.exp_time {
                        upd(e.mtu.min(pe.peer_mtu as u32));
                    }
                }
            }
        }
        match bound {
            None => v.push(("hop-field-not-from-any-input-entry".into(), format!("hop {k}: {h:?}"))),
            Some(b) if o.mtu as u32 > b => v.push(("mtu-above-a-contributing-value".into(), format!("path mtu {} but hop {k} ({}>{}) comes from an entry limiting it to {b}", o.mtu, h.cons_ingress, h.cons_egress))),
            _ => {}
        }
    }
    v
}

fn iface_set(obs: &[Obs]) -> BTreeSet<Vec<(u64, u16)>> {
    obs.iter().map(|o| o.ifaces.clone()).collect()
}

/// Polynomial bound on the result size: every choice of <= 3 segments, a cut index in each of the
/// two outer ones and a peer entry per cut.
fn size_bound(set: &MSet) -> u128 {
    let e = set.len() as u128;
    let l = set.cores.iter().chain(set.non_cores.iter()).map(|s| s.entries.len()).max().unwrap_or(0) as u128;
    let p = set.cores.iter().chain(set.non_cores.iter()).flat_map(|s| s.entries.iter().map(|e| e.peers.len())).max().unwrap_or(0) as u128 + 1;
    let cut = (l * p).max(1);
    e * cut + e * e * cut * cut + e * e * e * cut * cut
}

struct CaseResult {
    violations: Vec<(String, String)>,
    paths: Option<Vec<Obs>>,
}

/// Evaluate one (possibly mutated) set: all oracles except isolation.
fn run_set(set: &MSet, src: u64, dst: u64) -> CaseResult {
    match eval(set, src, dst, true) {
        Eval::Panic(loc, msg) => CaseResult { violations: vec![(util::panic_class(&loc, &msg), format!("combine panicked at {loc}: {msg}"))], paths: None },
        Eval::OverBudget(s) => CaseResult { violations: vec![("no-return-within-budget".into(), format!("combine took {s:.1} s on {} segments", set.len()))], paths: None },
        Eval::Paths(obs) => {
            let mut v = vec![];
            if obs.len() as u128 > size_bound(set) {
                v.push(("result-larger-than-polynomial-bound".into(), format!("{} paths from {} segments", obs.len(), set.len())));
            }
            let mut seen = BTreeSet::new();
            for o in &obs {
                for (c, w) in check_path(o, set) {
                    if seen.insert(c.clone()) {
                        v.push((c, format!("{w}  [path {}]", o.to_json())));
                    }
                }
            }
            CaseResult { violations: v, paths: Some(obs) }
        }
    }
}

fn witness(topo_name: &str, src: u64, dst: u64, what: &str, set: &MSet, touched: &BTreeSet<u32>) -> Value {
    json!({
        "topology": topo_name, "src": src, "dst": dst, "src_text": util::ia_str(src), "dst_text": util::ia_str(dst),
        "mutation": what, "touched_segment_ids": touched.iter().collect::<Vec<_>>(), "set": set.to_json(),
        "set_text": {"cores": set.cores.iter().map(|s| s.text()).collect::<Vec<_>>(), "non_cores": set.non_cores.iter().map(|s| s.text()).collect::<Vec<_>>()},
    })
}

#[derive(Default)]
struct Tally {
    calls: u64,
    bases: u64,
    mutants: u64,
    changed: Vec<u64>,
    outcomes: BTreeMap<String, u64>,
    max_paths: usize,
}
impl Tally {
    fn merge(&mut self, o: Tally) {
        self.calls += o.calls;
        self.bases += o.bases;
        self.mutants += o.mutants;
        self.changed.extend(o.changed);
        for (k, v) in o.outcomes {
            *self.outcomes.entry(k).or_default() += v;
        }
        self.max_paths = self.max_paths.max(o.max_paths);
    }
    fn out(&mut self, k: String) {
        *self.outcomes.entry(k).or_default() += 1;
    }
}

/// All oracles on one mutant. `rest_cache`: result of the set without the touched segments.
fn judge(run: &vpc::Run, t: &mut Tally, topo_name: &str, src: u64, dst: u64, base_ifaces: &BTreeSet<Vec<(u64, u16)>>, m: &Mutant, rest_cache: &mut BTreeMap<BTreeSet<u32>, Option<BTreeMap<Vec<(u64, u16)>, Vec<u8>>>>) -> Option<Vec<Obs>> {
    t.mutants += 1;
    t.calls += 1;
    let r = run_set(&m.set, src, dst);
    let mut viol = r.violations;
    if let Some(obs) = &r.paths {
        t.max_paths = t.max_paths.max(obs.len());
        let got = iface_set(obs);
        // isolation
        let rest = rest_cache.entry(m.touched.clone()).or_insert_with(|| {
            t.calls += 1;
            match eval(&m.set.without(&m.touched), src, dst, true) {
                Eval::Paths(p) => Some(p.iter().map(|o| (o.ifaces.clone(), o.fingerprint.clone())).collect()),
                _ => None,
            }
        });
        if let Some(rest) = rest {
            let lost: Vec<_> = rest.iter().filter(|(k, _)| !got.contains(*k)).collect();
            if let Some((l_if, l_fp)) = lost.first() {
                // narrow cause: a returned path carries the fingerprint of the lost one (the fingerprint
                // ignores ASes and travel direction), so filter_duplicates dropped the valid instance
                let class = if obs.iter().any(|o| o.fingerprint == **l_fp) { "isolation:valid-path-displaced-by-path-with-equal-fingerprint".to_string() } else { format!("isolation:{}:path-of-untouched-segments-lost", m.family) };
                viol.push((class, format!("{} path(s) obtainable from the untouched segments alone disappear, e.g. {:?}", lost.len(), l_if.iter().map(|(a, i)| format!("{}#{}", util::ia_str(*a), i)).collect::<Vec<_>>())));
            }
        }
        let effect = if got == *base_ifaces {
            "result-unchanged"
        } else if got.is_empty() {
            "all-paths-gone"
        } else if got.is_subset(base_ifaces) {
            "paths-lost"
        } else if got.is_superset(base_ifaces) {
            "paths-gained"
        } else {
            "paths-lost-and-gained"
        };
        t.out(format!("effect:{effect}"));
        if got != *base_ifaces {
            t.changed.push(m.set.hash() ^ vpc::fnv64(format!("{topo_name}|{src}|{dst}").as_bytes()));
            t.out(format!("family-changing-result:{}", m.family));
        }
    } else {
        t.out("effect:panic-or-over-budget".into());
    }
    t.out(format!("family:{}", m.family));
    for (class, what) in viol {
        let w = if run.is_known(&class) { Value::Null } else { witness(topo_name, src, dst, &m.what, &m.set, &m.touched) };
        run.violation(&class, &format!("{topo_name} {}->{} after [{}]: {what}", util::ia_str(src), util::ia_str(dst), m.what), w);
    }
    r.paths
}

fn base_set(topo: &Topo, segs: &refseg::RSegs, src: AsIdx, dst: AsIdx) -> MSet {
    let ps = segs.plan_sets(topo, src, dst);
    let mut id = 0u32;
    let mut mk = |s: &RSegment| {
        id += 1;
        MSeg::from_r(topo, id - 1, s)
    };
    let mut core_idx: Vec<usize> = ps.core.clone();
    for i in &ps.core_rev {
        if !core_idx.contains(i) {
            core_idx.push(*i);
        }
    }
    // production returns one beaconing direction per core pair unless both ends are wildcards of
    // the same ISD; the base keeps the lookup direction only (plan_sets().core)
    let _ = core_idx;
    MSet { cores: ps.core.iter().map(|&i| mk(&segs.core[i])).collect(), non_cores: ps.up.iter().chain(ps.down.iter()).map(|&i| mk(&segs.up_down[i])).collect() }
}

/// Explore one (topology, ordered pair): every single mutant; `pairs`: also every mutant of every mutant.
fn explore(run: &vpc::Run, topo: &Topo, segs: &refseg::RSegs, src: AsIdx, dst: AsIdx, pairs: bool) -> Tally {
    let mut t = Tally::default();
    let mut ias: Vec<u64> = topo.ases.iter().map(|a| a.ia()).collect();
    ias.push((7u64 << 48) | 0xff00_0000_0777);
    {
        {
            let base = base_set(topo, segs, src, dst);
            if base.len() == 0 {
                return t;
            }
            let (s_ia, d_ia) = (topo.ases[src].ia(), topo.ases[dst].ia());
            let ctx = Ctx { ias: ias.clone(), src: s_ia, dst: d_ia };
            // foreign-leaf segments: up to 3 segments of the topology ending elsewhere
            let foreign: Vec<MSeg> = segs.up_down.iter().filter(|s| s.last_as() != src && s.last_as() != dst).take(3).map(|s| MSeg::from_r(topo, 0, s)).collect();
            t.bases += 1;
            t.calls += 1;
            let b = run_set(&base, s_ia, d_ia);
            for (class, what) in &b.violations {
                run.violation(class, &format!("{} {}->{} unmutated: {what}", topo.name, util::ia_str(s_ia), util::ia_str(d_ia)), witness(&topo.name, s_ia, d_ia, "none", &base, &BTreeSet::new()));
            }
            let Some(bobs) = b.paths else { return t };
            let base_ifaces = iface_set(&bobs);
            let mut rest_cache = BTreeMap::new();
            let singles = set_mutants(&base, &ctx, &foreign);
            for m in &singles {
                let r = judge(run, &mut t, &topo.name, s_ia, d_ia, &base_ifaces, m, &mut rest_cache);
                run.sample(3, || json!({"topology": topo.name, "src": util::ia_str(s_ia), "dst": util::ia_str(d_ia), "mutation": m.what, "set": {"cores": m.set.cores.iter().map(|s| s.text()).collect::<Vec<_>>(), "non_cores": m.set.non_cores.iter().map(|s| s.text()).collect::<Vec<_>>()}, "returned": r.as_ref().map(|o| o.iter().map(|x| x.to_json()).collect::<Vec<_>>())}));
                if pairs {
                    let mut rest2 = BTreeMap::new();
                    for m2 in set_mutants(&m.set, &ctx, &[]) {
                        let both = Mutant { family: m2.family, what: format!("{} ; then {}", m.what, m2.what), set: m2.set, touched: m.touched.union(&m2.touched).copied().collect() };
                        judge(run, &mut t, &topo.name, s_ia, d_ia, &base_ifaces, &both, &mut rest2);
                    }
                }
            }
        }
    }
    t
}

/// Scaling series: a base set grown to 5/10/20/40 segments by replication with fresh timestamps
/// (`distinct_ids`: the replicas also get fresh interface ids at the leaf, so nothing de-duplicates).
fn scaling(run: &vpc::Run, topo: &Topo, t: &mut Tally, series: &mut Vec<Value>) {
    let segs = refseg::beacon(topo, BASE_TS);
    let n = topo.ases.len();
    // the non-core pair whose unmutated result is largest
    let mut best: Option<(usize, usize, usize)> = None;
    for src in 0..n {
        for dst in 0..n {
            if src == dst || topo.ases[src].core || topo.ases[dst].core {
                continue;
            }
            let base = base_set(topo, &segs, src, dst);
            if base.cores.is_empty() || base.non_cores.len() < 2 {
                continue;
            }
            if let Eval::Paths(p) = eval(&base, topo.ases[src].ia(), topo.ases[dst].ia(), true) {
                if best.map_or(true, |b| p.len() > b.2) {
                    best = Some((src, dst, p.len()));
                }
            }
        }
    }
    {
        {
            let Some((src, dst, _)) = best else { return };
            let base = base_set(topo, &segs, src, dst);
            let (s_ia, d_ia) = (topo.ases[src].ia(), topo.ases[dst].ia());
            for distinct_ids in [false, true] {
                let mut row = vec![];
                for size in [5usize, 10, 20, 40] {
                    let mut set = base.clone();
                    let all: Vec<(bool, MSeg)> = base.cores.iter().map(|s| (true, s.clone())).chain(base.non_cores.iter().map(|s| (false, s.clone()))).collect();
                    // trim or grow to `size`, round-robin over the base segments
                    set.cores.clear();
                    set.non_cores.clear();
                    for k in 0..size {
                        let (is_core, mut s) = all[k % all.len()].clone();
                        let round = (k / all.len()) as u32;
                        s.id = k as u32;
                        s.ts += 100 * round;
                        if distinct_ids && round > 0 {
                            // fresh ids on the link into the last AS: a parallel link
                            let l = s.entries.len();
                            if l >= 2 {
                                s.entries[l - 2].cout = s.entries[l - 2].cout.wrapping_add(1000 * round as u16);
                                s.entries[l - 1].cin = s.entries[l - 1].cin.wrapping_add(1000 * round as u16);
                            }
                        }
                        if is_core { set.cores.push(s) } else { set.non_cores.push(s) };
                    }
                    t.calls += 1;
                    let t0 = Instant::now();
                    let r = run_set(&set, s_ia, d_ia);
                    let ms = t0.elapsed().as_secs_f64() * 1000.0;
                    for (class, what) in &r.violations {
                        run.violation(class, &format!("{} {}->{} scaled to {size} segments (distinct ids: {distinct_ids}): {what}", topo.name, util::ia_str(s_ia), util::ia_str(d_ia)), witness(&topo.name, s_ia, d_ia, &format!("scaled to {size}"), &set, &BTreeSet::new()));
                    }
                    let np = r.paths.as_ref().map_or(0, |p| p.len());
                    t.max_paths = t.max_paths.max(np);
                    t.out(format!("scaling:size-{size}"));
                    row.push(json!({"segments": size, "paths": np, "bound": size_bound(&set).to_string(), "ms_informational": (ms * 10.0).round() / 10.0}));
                }
                if series.len() < 6 {
                    series.push(json!({"topology": topo.name, "src": util::ia_str(s_ia), "dst": util::ia_str(d_ia), "replicas_with_distinct_interface_ids": distinct_ids, "series": row}));
                }
            }
        }
    }
}

fn replay(file: &std::path::Path) -> ! {
    let rp = vpc::read_replay(file);
    let w = &rp["witness"];
    let set = MSet::from_json(&w["set"]);
    let (src, dst) = (w["src"].as_u64().unwrap(), w["dst"].as_u64().unwrap());
    let touched: BTreeSet<u32> = w["touched_segment_ids"].as_array().map(|a| a.iter().map(|x| x.as_u64().unwrap() as u32).collect()).unwrap_or_default();
    println!("replay {}: {} -> {} after [{}]", file.display(), util::ia_str(src), util::ia_str(dst), w["mutation"].as_str().unwrap_or(""));
    for s in &set.cores {
        println!("  core     {}", s.text());
    }
    for s in &set.non_cores {
        println!("  non-core {}", s.text());
    }
    let r = run_set(&set, src, dst);
    let mut bad = r.violations.clone();
    if let Some(obs) = &r.paths {
        println!("combine returned {} paths", obs.len());
        for o in obs {
            println!("  {}", o.to_json());
        }
        if let Eval::Paths(rest) = eval(&set.without(&touched), src, dst, false) {
            println!("without the touched segments {touched:?}: {} paths", rest.len());
            let got = iface_set(obs);
            for r in rest.iter().filter(|r| !got.contains(&r.ifaces)) {
                let class = if obs.iter().any(|o| o.fingerprint == r.fingerprint) { "isolation:valid-path-displaced-by-path-with-equal-fingerprint" } else { "isolation:path-of-untouched-segments-lost" };
                bad.push((class.into(), format!("{:?}", r.ifaces.iter().map(|(a, i)| format!("{}#{}", util::ia_str(*a), i)).collect::<Vec<_>>())));
            }
        }
    }
    if bad.is_empty() {
        println!("REPLAY: no violation reproduced");
        std::process::exit(0)
    }
    for (c, wh) in bad {
        println!("REPLAY VIOLATION [{c}] {wh}");
    }
    std::process::exit(1)
}

pub fn run(args: &vpc::Args) -> ! {
    vpc::quiet_panics();
    if let Some(f) = &args.replay {
        replay(f);
    }
    let run = vpc::Run::new(args);
    // watchdog: a call that does not return within twice the budget ends the run with a violation
    std::thread::spawn(|| {
        loop {
            std::thread::sleep(Duration::from_millis(500));
            let g = IN_FLIGHT.lock().unwrap();
            for (_, (t0, set, src, dst)) in g.iter() {
                if t0.elapsed() > BUDGET * 2 {
                    let w = serde_json::to_string(&json!({"set": set.to_json(), "src": src, "dst": dst, "mutation": "hang", "touched_segment_ids": []})).unwrap();
                    let dir = vpc::verif_root().join("replays").join("C19");
                    let _ = std::fs::create_dir_all(&dir);
                    let f = dir.join("no-return-within-budget-hang.json");
                    let _ = std::fs::write(&f, format!("{{\"property\":\"C19\",\"class\":\"no-return-within-budget\",\"what\":\"combine did not return within {} s\",\"witness\":{w}}}", BUDGET.as_secs() * 2));
                    println!("VIOLATION property=C19 replay={}   [no-return-within-budget] combine did not return", f.display());
                    std::process::exit(1);
                }
            }
        }
    });
    let max_n = run.tier.pick(3, 4);
    let pairs_max_n = run.tier.pick(0, 3);
    let mut total = Tally::default();
    let mut per = vec![];
    // one task per (topology, ordered pair)
    let quick = run.tier == vpc::Tier::Quick;
    let explore_all = |topos: &[Topo], pairs: bool| -> Tally {
        let segs: Vec<refseg::RSegs> = topos.iter().map(|t| refseg::beacon(t, BASE_TS)).collect();
        let mut tasks = vec![];
        for (ti, t) in topos.iter().enumerate() {
            for src in 0..t.ases.len() {
                for dst in 0..t.ases.len() {
                    // quick tier: every 4th ordered pair of the 16-AS repository graph (240 pairs)
                    let thin = quick && t.ases.len() > 8 && (src * t.ases.len() + dst) % 4 != 0;
                    if src != dst && !thin {
                        tasks.push((ti, src, dst));
                    }
                }
            }
        }
        let tallies: Vec<Tally> = tasks.par_iter().map(|&(ti, src, dst)| explore(&run, &topos[ti], &segs[ti], src, dst, pairs)).collect();
        let mut tn = Tally::default();
        for t in tallies {
            tn.merge(t);
        }
        tn
    };
    for n in 1..=max_n {
        let topos = reftopo_enum::enumerate(n, 2);
        // pairs of mutations: n <= 2 both numberings, n = 3 on the sequential numbering
        let (with_pairs, singles_only): (Vec<Topo>, Vec<Topo>) = topos.into_iter().partition(|t| n <= pairs_max_n && (n <= 2 || t.name.ends_with("-seq")));
        for (topos, pairs) in [(with_pairs, true), (singles_only, false)] {
            if topos.is_empty() {
                continue;
            }
            let tn = explore_all(&topos, pairs);
            per.push(json!({"n": n, "topologies": topos.len(), "base_sets": tn.bases, "mutated_sets": tn.mutants, "pairs_of_mutations": pairs, "combine_calls": tn.calls}));
            total.merge(tn);
        }
    }
    let cur = reftopo_enum::curated();
    let tn = explore_all(&cur, false);
    per.push(json!({"curated": cur.len(), "base_sets": tn.bases, "mutated_sets": tn.mutants, "pairs_of_mutations": false, "combine_calls": tn.calls}));
    total.merge(tn);
    // scaling series on the curated shapes and the n = 4 shapes with two non-cores
    let mut series = vec![];
    let mut ts = Tally::default();
    for t in cur.iter().chain(reftopo_enum::enumerate(4, 2).iter().step_by(97)) {
        scaling(&run, t, &mut ts, &mut series);
    }
    total.merge(ts);
    for (k, v) in &total.outcomes {
        run.outcome_n(k, *v);
    }
    let d = vpc::Distinct::default();
    d.extend(total.changed.iter().copied());
    let slow_ms = SLOWEST_NS.load(Ordering::Relaxed) as f64 / 1e6;
    run.finish(
        "fault_enumeration",
        json!({
            "evaluations": total.calls,
            "distinct_nontrivial": d.len(),
            "rule": "distinct (topology, pair, mutated segment set) whose returned interface-sequence set differs from the unmutated set's; evaluations = calls of the real combine()",
            "exhaustive": true,
            "bound": format!("every single structural mutation (catalogue: truncate 0/1, reverse, delete/duplicate/swap entries, repeat an AS, foreign AS, every interface id := 0 / another id of the segment / 65535, both 0, swapped, all ids 0, AS MTU in {{0,1,65535,65536,67036,u32::MAX}}, ingress_mtu/peer_mtu 0/1/65535, ExpTime 0/255, peer entry dropped/duplicated/re-targeted/re-wired/invented, 63/64/100-entry chains, segment in both lists / wrong list / missing, forged later twins (one AS replaced; entries reversed in the other list), foreign-leaf segments) of every lookup-plan set of every (topology, ordered pair) with n <= {max_n} ASes + {} curated shapes (quick tier: every 4th ordered pair of the 16-AS repository graph, all pairs of the others); {}; scaling series 5/10/20/40 segments", cur.len(), if pairs_max_n == 0 { "single mutations only in this tier".to_string() } else { "every ordered PAIR of mutations (a second mutation applied to every single mutant) for n <= 2 (both numberings) and n = 3 (sequential numbering)".to_string() }),
            "per_n": per,
            "largest_result_paths": total.max_paths,
            "fixed_budget_s": BUDGET.as_secs(),
            "slowest_call_ms_informational": (slow_ms * 10.0).round() / 10.0,
            "scaling_series": series,
        }),
        &[
            "combine contains no unsafe code, recursion or unbounded allocation, so a process abort is not expected; it would surface as MACHINERY-FAILURE (exit 2), never as a pass; a hang ends the run through the watchdog with a violation",
            "isolation compares metadata interface lists: combine(S) must contain every interface sequence of combine(S without the touched segments)",
            "the time budget is a fixed 20 s per call (unmutated calls take < 1 ms); it is a budget, not a measurement; the timing figures in the evidence are informational",
        ],
    )
}
