mod c14;

fn main() {
    let args = vpc::Args::parse();
    match args.prop.as_str() {
        "C14" => c14::run(&args),
        p => vpc::machinery_failure(&format!("property {p} is not served by this binary")),
    }
}
