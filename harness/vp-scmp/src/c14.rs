//! C14 — SCMP handling: bounded quoting, valid checksums, faithful echo, no error loops.
//!
//! Bounded-exhaustive enumeration (engine E1) over the real encoders, builders and handlers:
//!  (a) every error kind x every offending-packet length x a series of reply header sizes -> the
//!      real `ScionScmpPacket` encoder, judged by R-wire (length <= 1232, quote is a maximal prefix,
//!      truthful lengths, checksum verifies, decodes back);
//!  (b) the same through the builders: snap gateway ingress rejection, pocketscion local simulator;
//!  (c) echo: every request (id, seq, data length, path shape and position) -> the real
//!      `DefaultEchoHandler` and pocketscion `handle_scmp`, judged against R-wire's path reversal;
//!  (d) no reply: every SCMP type byte x code x truncation x checksum -> every handler/builder;
//!  (e) socket loop: every ordering with repetition (<= 4 items) of {SCMP error, datagrams, malformed
//!      SCMP, echo request, unknown next-header, unknown error type} through the real
//!      `PathUnawareUdpScionSocket` over a scripted underlay.
use std::{
    net::{IpAddr, Ipv4Addr, Ipv6Addr, SocketAddr},
    sync::{Arc, Mutex},
};

use pocketscion::network::{
    local::{
        external_as_registry::ExternalAsRegistry, receiver_registry::NetworkReceiverRegistry,
        receivers::Receiver, simulator::LocalNetworkSimulation,
    },
    scion::{routing::LocalAsRoutingAction, topology::ScionRouter},
};
use rayon::prelude::*;
use scion_stack::stack::{
    scmp_handler::{DefaultEchoHandler, ScmpErrorReceiver, ScmpHandler},
    verif_socket::scripted_udp_socket,
};
use sciparse::{
    address::{addr::ScionAddr, host_addr::ScionHostAddr, ip_socket_addr::ScionSocketIpAddr},
    core::{encode::WireEncode, view::View},
    dataplane_path::{
        model::DpPath,
        standard::{
            model::{HopField, InfoField, Segment, StandardPath},
            types::{HopFieldFlags, HopFieldMac, InfoFieldFlags},
        },
        view::ScionDpPathViewRef,
    },
    identifier::isd_asn::IsdAsn,
    packet::{
        model::{ScionRawPacketRef, ScionScmpPacket},
        view::ScionRawPacketView,
    },
    payload::scmp::{
        model::{
            ScmpDestinationUnreachable, ScmpEchoRequest, ScmpErrorMessage, ScmpExternalInterfaceDown, ScmpInternalConnectivityDown, ScmpMessage, ScmpPacketTooBig,
            ScmpParameterProblem,
        },
        types::{ScmpDestinationUnreachableCode, ScmpParameterProblemCode},
    },
};
use snap_dataplane::tunnel_gateway::verif::{IngressVerdict, ingress, ingress_into_recycled};
use vpc::{
    Run, Tier, Value, catch, hex, json,
    refwire::{self, PROTO_SCMP, PROTO_UDP, RHeader, RHop, RInfo, RPath, RStdPath},
};

const MAX_SCMP: usize = 1232;

fn ia(s: &str) -> IsdAsn {
    s.parse().unwrap()
}

/// Deterministic, position-revealing filler for offending packets and payloads.
fn pattern(n: usize, salt: u8) -> Vec<u8> {
    (0..n).map(|i| (i as u32).wrapping_mul(7).wrapping_add(3 + salt as u32) as u8 ^ (i >> 8) as u8).collect()
}

/// A standard path model with the given segment shape; interface ids/MACs distinct per hop.
fn std_path(shape: &[usize], curr_inf: u8, curr_hf: u8, cons: [bool; 3]) -> StandardPath {
    let mut segs = tinyvec::ArrayVec::<[Segment; 3]>::new();
    let mut k = 0u16;
    for (si, n) in shape.iter().enumerate() {
        let mut hops = tinyvec::TinyVec::<[HopField; 12]>::new();
        for _ in 0..*n {
            k += 1;
            let mut mac = [0u8; 6];
            for (j, b) in mac.iter_mut().enumerate() {
                *b = (k as u8).wrapping_mul(13).wrapping_add(j as u8);
            }
            hops.push(HopField { flags: HopFieldFlags::empty(), expiration_units: 63, cons_ingress: 100 + k, cons_egress: 200 + k, mac: HopFieldMac(mac) });
        }
        segs.push(Segment {
            info_field: InfoField { flags: if cons[si] { InfoFieldFlags::CONS_DIR } else { InfoFieldFlags::empty() }, segment_id: 0x1000 + si as u16, timestamp: 1_700_000_000 + si as u32 },
            hop_fields: hops,
        });
    }
    StandardPath { current_info_field: curr_inf, current_hop_field: curr_hf, segments: segs }
}

fn v4(a: u8) -> ScionHostAddr {
    ScionHostAddr::V4(Ipv4Addr::new(10, 0, a, 1))
}
fn v6(a: u8) -> ScionHostAddr {
    ScionHostAddr::V6(Ipv6Addr::new(0x2001, 0xdb8, 0, 0, 0, 0, a as u16, 1))
}

/// Header configurations giving a series of distinct header sizes.
fn header_configs(tier: Tier) -> Vec<(ScionAddr, ScionAddr, DpPath, String)> {
    let mut v: Vec<(ScionAddr, ScionAddr, DpPath, String)> = vec![];
    let (a, b) = (ia("1-ff00:0:110"), ia("2-ff00:0:220"));
    let addr_combos: Vec<(ScionHostAddr, ScionHostAddr, &str)> = vec![(v4(1), v4(2), "v4/v4"), (v6(1), v4(2), "v6/v4"), (v6(1), v6(2), "v6/v6")];
    let mut shapes: Vec<Vec<usize>> = vec![];
    let hop_counts: Vec<usize> = match tier {
        Tier::Quick => vec![1, 2, 5, 12, 24, 40, 63],
        Tier::Thorough => (1..=63).collect(),
    };
    for h in &hop_counts {
        shapes.push(vec![*h]);
    }
    for h in match tier {
        Tier::Quick => vec![(2usize, 2usize, 2usize), (12, 12, 12), (20, 30, 27)],
        Tier::Thorough => vec![(1, 1, 1), (2, 2, 2), (5, 6, 7), (12, 12, 12), (20, 20, 20), (20, 30, 27), (26, 26, 26)],
    } {
        shapes.push(vec![h.0, h.1]);
        shapes.push(vec![h.0, h.1, h.2]);
    }
    for (s, d, name) in &addr_combos {
        v.push((ScionAddr::new(a, *s), ScionAddr::new(b, *d), DpPath::Empty, format!("{name} empty")));
        for sh in &shapes {
            let total: usize = sh.iter().sum();
            // the pointer position does not influence the header size; keep it at 0 (CurrHF >= 64 is a C03 matter)
            let p = std_path(sh, 0, 0, [true, false, true]);
            // only keep shapes the header can hold (<= 1020 bytes)
            let hdr = 12 + 16 + 4 + 8 * sh.len() + 12 * total + if *name == "v4/v4" { 8 } else if *name == "v6/v4" { 20 } else { 32 };
            if hdr <= 1020 {
                v.push((ScionAddr::new(a, *s), ScionAddr::new(b, *d), DpPath::Standard(p), format!("{name} std{sh:?}")));
            }
        }
    }
    v
}

fn error_kinds(offending: Vec<u8>) -> Vec<(u8, usize, ScmpMessage)> {
    vec![
        (1, 8, ScmpDestinationUnreachable::new(ScmpDestinationUnreachableCode::AddressUnreachable, offending.clone()).into()),
        (2, 8, ScmpPacketTooBig::new(1400, offending.clone()).into()),
        (4, 8, ScmpParameterProblem::new(ScmpParameterProblemCode::InvalidCommonHeader, 7, offending.clone()).into()),
        (5, 20, ScmpExternalInterfaceDown::new(ia("1-ff00:0:111"), 42, offending.clone()).into()),
        (6, 28, ScmpInternalConnectivityDown::new(ia("1-ff00:0:111"), 42, 43, offending).into()),
    ]
}

/// Oracle for an encoded SCMP *error* packet: <= 1232 bytes, truthful lengths, quote is a maximal
/// prefix of `offending`, checksum verifies. Returns the parsed header on success.
fn judge_error_packet(run: &Run, ctx: &str, bytes: &[u8], offending: &[u8], expect_type: Option<u8>, witness: &dyn Fn() -> Value) -> Option<RHeader> {
    let (h, hl) = match RHeader::parse(bytes) {
        Ok(x) => x,
        Err(e) => {
            run.violation(&format!("{ctx}:scmp-error-packet-unparseable-by-spec-reader:{e}"), "an SCMP error packet built by the SDK does not parse with the independent SCION header reader", witness());
            return None;
        }
    };
    if bytes.len() > MAX_SCMP {
        run.violation(&format!("{ctx}:scmp-error-longer-than-1232"), &format!("SCMP error packet is {} bytes", bytes.len()), witness());
    }
    if h.next_hdr != PROTO_SCMP {
        run.violation(&format!("{ctx}:scmp-error-wrong-next-header"), "next header is not SCMP", witness());
        return Some(h);
    }
    let l4 = &bytes[hl..];
    if h.payload_len as usize != l4.len() {
        run.violation(&format!("{ctx}:scmp-error-payload-len-untruthful"), &format!("PayloadLen {} but {} bytes follow the header", h.payload_len, l4.len()), witness());
    }
    if l4.len() < 4 {
        run.violation(&format!("{ctx}:scmp-error-l4-too-short"), "SCMP message shorter than 4 bytes", witness());
        return Some(h);
    }
    let ty = l4[0];
    if let Some(t) = expect_type {
        if ty != t {
            run.violation(&format!("{ctx}:scmp-error-wrong-type"), &format!("type {ty} expected {t}"), witness());
        }
    }
    let fixed = match ty {
        1 | 2 | 4 => 8,
        5 => 20,
        6 => 28,
        _ => {
            run.violation(&format!("{ctx}:scmp-error-not-an-error-type"), &format!("type {ty}"), witness());
            return Some(h);
        }
    };
    if l4.len() < fixed {
        run.violation(&format!("{ctx}:scmp-error-truncated-fixed-part"), "message shorter than its fixed part", witness());
        return Some(h);
    }
    let quote = &l4[fixed..];
    if quote.len() > offending.len() || quote != &offending[..quote.len()] {
        run.violation(&format!("{ctx}:scmp-quote-not-a-prefix"), "quoted bytes are not a prefix of the offending packet", witness());
    } else {
        let budget = MAX_SCMP.saturating_sub(hl + fixed);
        let want = offending.len().min(budget);
        if quote.len() != want {
            run.violation(&format!("{ctx}:scmp-quote-not-maximal"), &format!("quoted {} bytes, budget allows {}", quote.len(), want), witness());
        }
    }
    match refwire::verify_l4_checksum(bytes) {
        Ok(true) => {}
        Ok(false) => run.violation(&format!("{ctx}:scmp-checksum-does-not-verify"), "checksum over pseudo-header + SCMP message does not verify", witness()),
        Err(e) => run.violation(&format!("{ctx}:scmp-checksum-not-checkable:{e}"), "cannot verify checksum", witness()),
    }
    Some(h)
}

// ------------------------------------------------------------------------------------------------
// (a) encoder
fn part_a(run: &Run, ev: &vpc::Counters, distinct: &vpc::Distinct) {
    let cfgs = header_configs(run.tier);
    let lens: Vec<usize> = match run.tier {
        // every offending length in both tiers (the whole part takes about a second)
        Tier::Quick | Tier::Thorough => (0..=1400).chain([1500, 9216]).collect(),
    };
    let sizes: std::collections::BTreeSet<usize> = cfgs
        .iter()
        .map(|(s, d, p, _)| ScionScmpPacket::new(*s, *d, p.clone(), ScmpMessage::EchoRequest(ScmpEchoRequest::new(0, 0, vec![]))).header.required_size())
        .collect();
    run.outcome_n("a:distinct-reply-header-sizes", sizes.len() as u64);
    cfgs.par_iter().for_each(|(src, dst, path, name)| {
        for &l in &lens {
            let offending = pattern(l, 1);
            for (ty, _fixed, msg) in error_kinds(offending.clone()) {
                ev.add("evaluations", 1);
                let pkt = ScionScmpPacket::new(*src, *dst, path.clone(), msg.clone());
                let witness = || json!({"part": "a", "header": name, "type": ty, "offending_len": l});
                let enc = catch(|| pkt.try_encode_to_vec());
                let bytes = match enc {
                    Err(p) => {
                        run.violation(&format!("a:encoder-panic@{}", vpc::last_panic_location()), &p, witness());
                        continue;
                    }
                    Ok(Err(e)) => {
                        run.outcome("a:encode-error");
                        run.violation("a:encoder-rejects-representable-scmp-error", &format!("{e:?}"), witness());
                        continue;
                    }
                    Ok(Ok(b)) => b,
                };
                if bytes.len() != pkt.required_size() {
                    run.violation("a:required-size-differs-from-bytes-written", &format!("{} vs {}", pkt.required_size(), bytes.len()), witness());
                }
                // the encoding must not depend on what the target buffer held before (recycled buffers):
                // encode into buffers pre-filled with stale bytes and require the same packet
                for stale in [0xA5u8, 0x5A, 0xFF] {
                    let mut dirty = vec![stale; pkt.required_size() + 3];
                    match catch(|| pkt.try_encode(&mut dirty[..])) {
                        Ok(Ok(n)) => {
                            if dirty[..n] != bytes[..] {
                                let pos = dirty[..n].iter().zip(bytes.iter()).position(|(a, b)| a != b).unwrap_or(n.min(bytes.len()));
                                run.violation("a:encoding-depends-on-previous-buffer-content", &format!("encoding into a buffer filled with {stale:#x} differs from the encoding into a zeroed buffer at byte {pos} (of {n})"), json!({"part": "a", "header": name, "type": ty, "offending_len": l, "stale_fill": stale, "first_differing_byte": pos}));
                                // judge the dirty encoding as a receiver would
                                judge_error_packet(run, "a-recycled-buffer", &dirty[..n], &offending, Some(ty), &witness);
                            }
                        }
                        Ok(Err(e)) => run.violation("a:encoder-rejects-into-provided-buffer", &format!("{e:?}"), witness()),
                        Err(p) => run.violation(&format!("a:encoder-panic@{}", vpc::last_panic_location()), &p, witness()),
                    }
                }
                let h = judge_error_packet(run, "a", &bytes, &offending, Some(ty), &witness);
                let truncated = h.as_ref().map(|h| (h.payload_len as usize) < _fixed + l).unwrap_or(false);
                run.outcome(if truncated { "a:quote-truncated" } else { "a:quote-complete" });
                distinct.add(format!("a|{}|{}|{}", bytes.len(), ty, truncated).as_bytes());
                // decode back with the crate: equal up to the truncated quote
                let back = catch(|| ScionRawPacketRef::try_from_slice(&bytes).map(|(r, rest)| (r.to_owned(), rest.len())));
                match back {
                    Ok(Ok((raw, rest))) => {
                        if rest != 0 {
                            run.violation("a:decoder-leaves-trailing-bytes", "decoder did not consume the whole encoding", witness());
                        }
                        match catch(|| ScionScmpPacket::try_from_raw(raw)) {
                            Ok(Ok(m)) => {
                                let mut want = pkt.clone();
                                if let Some(h) = &h {
                                    let q = (h.payload_len as usize).saturating_sub(_fixed);
                                    set_offending(&mut want.payload, offending[..q.min(offending.len())].to_vec());
                                }
                                if m.payload != want.payload || m.header.address != want.header.address || m.header.path != want.header.path {
                                    run.violation("a:decode-of-encode-differs", "decoded SCMP packet differs from the encoded model (beyond quote truncation)", witness());
                                }
                            }
                            Ok(Err(e)) => run.violation("a:own-encoding-not-decodable-as-scmp", &format!("{e:?}"), witness()),
                            Err(p) => run.violation(&format!("a:decoder-panic@{}", vpc::last_panic_location()), &p, witness()),
                        }
                    }
                    Ok(Err(e)) => run.violation("a:own-encoding-not-decodable", &format!("{e:?}"), witness()),
                    Err(p) => run.violation(&format!("a:decoder-panic@{}", vpc::last_panic_location()), &p, witness()),
                }
                run.sample(3, || json!({"part": "a", "header": name, "type": ty, "offending_len": l, "encoded_len": bytes.len()}));
            }
        }
    });
}

fn set_offending(m: &mut ScmpMessage, q: Vec<u8>) {
    match m {
        ScmpMessage::DestinationUnreachable(x) => x.set_offending_packet(q),
        ScmpMessage::PacketTooBig(x) => x.set_offending_packet(q),
        ScmpMessage::ParameterProblem(x) => x.set_offending_packet(q),
        ScmpMessage::ExternalInterfaceDown(x) => x.set_offending_packet(q),
        ScmpMessage::InternalConnectivityDown(x) => x.set_offending_packet(q),
        _ => {}
    }
}

// ------------------------------------------------------------------------------------------------
// helpers to build request packets with R-wire (independent of the crate's encoder)
fn rpath_for(shape: &[usize], curr_inf: u8, curr_hf: u8) -> RStdPath {
    let mut infos = vec![];
    let mut hops = vec![];
    let mut seg_len = [0u8; 3];
    let mut k = 0u16;
    for (si, n) in shape.iter().enumerate() {
        seg_len[si] = *n as u8;
        infos.push(RInfo { flags: if si % 2 == 0 { 1 } else { 0 }, rsv: 0, seg_id: 0x2000 + si as u16, timestamp: 1_700_000_100 + si as u32 });
        for _ in 0..*n {
            k += 1;
            hops.push(RHop { flags: 0, exp_time: 63, cons_ingress: 300 + k, cons_egress: 400 + k, mac: [k as u8, 1, 2, 3, 4, 5] });
        }
    }
    RStdPath { curr_inf, curr_hf, rsv: 0, seg_len, infos, hops }
}

struct Req {
    src_ia: u64,
    dst_ia: u64,
    src_host: Vec<u8>,
    dst_host: Vec<u8>,
    path: RPath,
}
impl Req {
    fn packet(&self, next_hdr: u8, l4: &[u8], fix_checksum: Option<usize>) -> Vec<u8> {
        let tl = |h: &Vec<u8>| if h.len() == 4 { 0b0000 } else { 0b0011 };
        let h = RHeader {
            version: 0,
            traffic_class: 0,
            flow_id: 1,
            next_hdr,
            hdr_len: 0,
            payload_len: l4.len() as u16,
            path_type: self.path.path_type(),
            dst_tl: tl(&self.dst_host),
            src_tl: tl(&self.src_host),
            rsv: 0,
            dst_ia: self.dst_ia,
            src_ia: self.src_ia,
            dst_host: self.dst_host.clone(),
            src_host: self.src_host.clone(),
            path: self.path.clone(),
        }
        .with_natural_hdr_len();
        let mut l4 = l4.to_vec();
        if let Some(off) = fix_checksum {
            if l4.len() >= off + 2 {
                l4[off] = 0;
                l4[off + 1] = 0;
                let c = refwire::checksum(h.dst_ia, h.src_ia, &h.dst_host, &h.src_host, next_hdr, &l4);
                l4[off..off + 2].copy_from_slice(&c.to_be_bytes());
            }
        }
        let mut b = h.to_bytes_raw();
        b.extend_from_slice(&l4);
        b
    }
}

const LOCAL_IA: &str = "1-ff00:0:110";
const REMOTE_IA: &str = "2-ff00:0:220";
fn ia_u64(s: &str) -> u64 {
    ia(s).to_u64()
}

fn base_req(path: RPath) -> Req {
    // a packet from REMOTE host 10.0.2.1 to LOCAL host 10.0.1.1
    Req { src_ia: ia_u64(REMOTE_IA), dst_ia: ia_u64(LOCAL_IA), src_host: vec![10, 0, 2, 1], dst_host: vec![10, 0, 1, 1], path }
}

fn echo_l4(ty: u8, id: u16, seq: u16, data: &[u8]) -> Vec<u8> {
    let mut v = vec![ty, 0, 0, 0];
    v.extend_from_slice(&id.to_be_bytes());
    v.extend_from_slice(&seq.to_be_bytes());
    v.extend_from_slice(data);
    v
}

/// Judge an echo reply (bytes) against the request.
fn judge_echo_reply(run: &Run, ctx: &str, reply: &[u8], req: &Req, id: u16, seq: u16, data: &[u8], expect_src_host: Option<&[u8]>, witness: &dyn Fn() -> Value) {
    let (h, hl) = match RHeader::parse(reply) {
        Ok(x) => x,
        Err(e) => {
            run.violation(&format!("{ctx}:echo-reply-unparseable:{e}"), "echo reply does not parse with the independent reader", witness());
            return;
        }
    };
    let l4 = &reply[hl..];
    if h.next_hdr != PROTO_SCMP || l4.len() < 8 || l4[0] != 129 || l4[1] != 0 {
        run.violation(&format!("{ctx}:echo-reply-not-an-echo-reply"), &format!("next_hdr {} type {:?}", h.next_hdr, l4.first()), witness());
        return;
    }
    if u16::from_be_bytes([l4[4], l4[5]]) != id || u16::from_be_bytes([l4[6], l4[7]]) != seq {
        run.violation(&format!("{ctx}:echo-reply-id-or-seq-differs"), "identifier / sequence number not echoed", witness());
    }
    if &l4[8..] != data {
        run.violation(&format!("{ctx}:echo-reply-data-differs"), "data not echoed", witness());
    }
    if h.dst_ia != req.src_ia || h.dst_host != req.src_host {
        run.violation(&format!("{ctx}:echo-reply-not-addressed-to-requester"), "destination of the reply is not the requester", witness());
    }
    if h.src_ia != req.dst_ia {
        run.violation(&format!("{ctx}:echo-reply-source-ia-wrong"), "source ISD-AS of the reply is not the responder's", witness());
    }
    if let Some(sh) = expect_src_host {
        if h.src_host != sh {
            run.violation(&format!("{ctx}:echo-reply-source-host-wrong"), "source host of the reply is not the responder", witness());
        }
    }
    let want_path = match &req.path {
        RPath::Std(p) => RPath::Std(p.reversed()),
        other => other.clone(),
    };
    if h.path != want_path {
        run.violation(&format!("{ctx}:echo-reply-path-not-reversed-request-path"), "reply path differs from the spec reversal of the request path", witness());
    }
    if h.payload_len as usize != l4.len() {
        run.violation(&format!("{ctx}:echo-reply-payload-len-untruthful"), "PayloadLen wrong", witness());
    }
    match refwire::verify_l4_checksum(reply) {
        Ok(true) => {}
        _ => run.violation(&format!("{ctx}:scmp-checksum-does-not-verify"), "echo reply checksum does not verify", witness()),
    }
}

struct NullReceiver(Mutex<u64>);
impl Receiver for NullReceiver {
    fn receive_packet(&self, _packet: &ScionRawPacketView) {
        *self.0.lock().unwrap() += 1;
    }
}

struct Pocket {
    router: ScionRouter,
    receivers: NetworkReceiverRegistry,
    external: ExternalAsRegistry,
}
impl Pocket {
    fn new(with_receiver: bool) -> Pocket {
        let mut receivers = NetworkReceiverRegistry::new();
        if with_receiver {
            receivers.add_wildcard_receiver(ia(LOCAL_IA), Arc::new(NullReceiver(Mutex::new(0)))).unwrap();
        }
        Pocket { router: ScionRouter::new_fallback(SocketAddr::new(IpAddr::V4(Ipv4Addr::new(10, 0, 1, 254)), 30042)), receivers, external: ExternalAsRegistry::new() }
    }
    fn sim(&self, ifid: u16) -> LocalNetworkSimulation<'_> {
        LocalNetworkSimulation::new(ia(LOCAL_IA), ifid, &self.receivers, &self.external, &self.router)
    }
    /// Runs a local routing action on `bytes`; returns the encoded reply, if any.
    fn act(&self, ifid: u16, action: LocalAsRoutingAction, bytes: &[u8]) -> Result<Option<Vec<u8>>, String> {
        let mut buf = bytes.to_vec();
        let r = catch(|| {
            let (view, _) = ScionRawPacketView::try_from_mut_slice(&mut buf).map_err(|e| format!("view: {e:?}"))?;
            match self.sim(ifid).handle_local_routing_action(action, view) {
                Ok(None) => Ok(None),
                Ok(Some(p)) => p.try_encode_to_vec().map(Some).map_err(|e| format!("reply-encode: {e:?}")),
                Err(e) => Err(format!("anyhow: {e:#}")),
            }
        });
        match r {
            Ok(x) => x,
            Err(p) => Err(format!("PANIC {p} @{}", vpc::last_panic_location())),
        }
    }
}

// ------------------------------------------------------------------------------------------------
// (b) builders
fn part_b(run: &Run, ev: &vpc::Counters, distinct: &vpc::Distinct) {
    // snap gateway: rejected datagrams of every length
    let lens: Vec<usize> = match run.tier {
        Tier::Quick | Tier::Thorough => (0..=1400).chain([1500, 4000, 9216]).collect(),
    };
    let peer: IpAddr = "10.0.2.1".parse().unwrap();
    let local = ScionHostAddr::V4(Ipv4Addr::new(10, 0, 0, 9));
    lens.par_iter().for_each(|&l| {
        // three rejection causes: garbage, wrong source host, unsupported path type
        let mut cases: Vec<(String, Vec<u8>)> = vec![(format!("garbage{l}"), pattern(l, 9))];
        if l >= 8 {
            let mut r = base_req(RPath::Empty);
            r.src_host = vec![10, 0, 2, 77]; // not the tunnel peer
            let mut udp = vec![0x11, 0x22, 0x33, 0x44];
            udp.extend_from_slice(&(l as u16).to_be_bytes());
            udp.extend_from_slice(&[0, 0]);
            udp.extend_from_slice(&pattern(l - 8, 4));
            if l <= 65535 {
                cases.push((format!("spoofed-src udp{l}"), r.packet(PROTO_UDP, &udp, Some(6))));
                let mut r2 = base_req(RPath::OneHop { info: RInfo { flags: 1, rsv: 0, seg_id: 7, timestamp: 1_700_000_000 }, hop1: RHop { flags: 0, exp_time: 63, cons_ingress: 0, cons_egress: 5, mac: [1; 6] }, hop2: RHop { flags: 0, exp_time: 0, cons_ingress: 0, cons_egress: 0, mac: [0; 6] } });
                r2.src_host = vec![10, 0, 2, 1];
                cases.push((format!("onehop udp{l}"), r2.packet(PROTO_UDP, &udp, Some(6))));
            }
        }
        for (name, dgram) in cases {
            if dgram.len() > 9216 {
                continue;
            }
            ev.add("evaluations", 1);
            let witness = || json!({"part": "b-snap", "case": name, "datagram_len": dgram.len(), "datagram_prefix": hex(&dgram[..dgram.len().min(64)])});
            for stale in [0xA5u8, 0x5A] {
                ev.add("evaluations", 1);
                if let Ok(IngressVerdict::ScmpReply(bytes)) = catch(|| ingress_into_recycled(&dgram, peer, local, Some(stale))) {
                    judge_error_packet(run, "b-snap-recycled-buffer", &bytes, &dgram, Some(4), &witness);
                }
            }
            match catch(|| ingress(&dgram, peer, local)) {
                Err(p) => run.violation(&format!("b:snap-ingress-panic@{}", vpc::last_panic_location()), &p, witness()),
                Ok(IngressVerdict::Dispatch) => run.violation("b:snap-dispatches-a-packet-built-to-be-rejected", &name, witness()),
                Ok(IngressVerdict::ReplyEncodeError(e)) => {
                    run.outcome("b:snap-reply-encode-error");
                    run.violation("b:snap-cannot-encode-scmp-reply", &format!("{e:?}"), witness());
                }
                Ok(IngressVerdict::ScmpReply(bytes)) => {
                    run.outcome("b:snap-scmp-reply");
                    distinct.add(format!("b-snap|{}|{}", name.split(' ').next().unwrap_or(""), bytes.len()).as_bytes());
                    judge_error_packet(run, "b-snap", &bytes, &dgram, Some(4), &witness);
                }
            }
        }
    });

    // pocketscion: SendSCMPErrorResponse / ForwardLocal without receiver / non-local delivery
    let pk_none = Pocket::new(false);
    let shapes: Vec<(Vec<usize>, u8, u8)> = vec![(vec![2], 0, 1), (vec![3, 2], 1, 4), (vec![2, 2, 2], 2, 5)];
    let sizes: Vec<usize> = match run.tier {
        Tier::Quick => vec![0, 1, 100, 1100, 1150, 1160, 1170, 1180, 1190, 1200, 1232, 1400, 9000],
        Tier::Thorough => (0..=1400).step_by(3).chain([9000]).collect(),
    };
    let jobs: Vec<(usize, usize)> = (0..shapes.len()).flat_map(|s| sizes.iter().map(move |z| (s, *z))).collect();
    jobs.par_iter().for_each(|&(si, z)| {
        let (shape, ci, ch) = &shapes[si];
        let req = base_req(RPath::Std(rpath_for(shape, *ci, *ch)));
        let mut udp = vec![0x11, 0x22, 0x33, 0x44];
        udp.extend_from_slice(&((z + 8) as u16).to_be_bytes());
        udp.extend_from_slice(&[0, 0]);
        udp.extend_from_slice(&pattern(z, 5));
        let pkt = req.packet(PROTO_UDP, &udp, Some(6));
        let actions: Vec<(&str, LocalAsRoutingAction, Option<u8>)> = vec![
            ("send-scmp-error(dest-unreachable)", LocalAsRoutingAction::SendSCMPErrorResponse(ScmpErrorMessage::DestinationUnreachable(ScmpDestinationUnreachable::new(ScmpDestinationUnreachableCode::AddressUnreachable, pkt.clone()))), Some(1)),
            ("send-scmp-error(ext-if-down)", LocalAsRoutingAction::SendSCMPErrorResponse(ScmpErrorMessage::ExternalInterfaceDown(ScmpExternalInterfaceDown::new(ia(LOCAL_IA), 3, pkt.clone()))), Some(5)),
            ("forward-local(no receiver)", LocalAsRoutingAction::ForwardLocal, Some(1)),
        ];
        for (name, act, ty) in actions {
            ev.add("evaluations", 1);
            let witness = || json!({"part": "b-pocket", "action": name, "shape": shape, "udp_payload": z, "packet_len": pkt.len()});
            match pk_none.act(0, act, &pkt) {
                Err(e) if e.starts_with("PANIC") => run.violation(&format!("b:pocket-panic:{name}@{}", vpc::last_panic_location()), &e, witness()),
                Err(e) => {
                    run.outcome("b:pocket-error-no-reply");
                    run.violation(&format!("b:pocket-fails-to-build-scmp-error:{name}"), &e, witness());
                }
                Ok(None) => run.violation(&format!("b:pocket-no-scmp-error-for-undeliverable-packet:{name}"), "no reply", witness()),
                Ok(Some(bytes)) => {
                    run.outcome("b:pocket-scmp-reply");
                    distinct.add(format!("b-pocket|{name}|{}", bytes.len()).as_bytes());
                    if let Some(h) = judge_error_packet(run, "b-pocket", &bytes, &pkt, ty, &witness) {
                        if h.dst_ia != req.src_ia || h.dst_host != req.src_host {
                            run.violation("b-pocket:scmp-error-not-addressed-to-offender", "SCMP error not addressed to the source of the offending packet", witness());
                        }
                        if let RPath::Std(p) = &req.path {
                            if h.path != RPath::Std(p.reversed()) {
                                run.violation("b-pocket:scmp-error-path-not-reversed", "SCMP error path is not the reversed offending path", witness());
                            }
                        }
                    }
                }
            }
        }
    });
}

// ------------------------------------------------------------------------------------------------
// (c) echo
fn positions(shape: &[usize]) -> Vec<(u8, u8)> {
    let mut v = vec![];
    let mut base = 0usize;
    for (si, n) in shape.iter().enumerate() {
        for k in 0..*n {
            v.push((si as u8, (base + k) as u8));
        }
        base += n;
    }
    v
}

fn part_c(run: &Run, ev: &vpc::Counters, distinct: &vpc::Distinct) {
    let ids: [u16; 3] = [0, 1, 0xFFFF];
    let data_lens: Vec<usize> = match run.tier {
        Tier::Quick => (0..=16).chain([63, 64, 1200, 1232, 9000]).collect(),
        Tier::Thorough => (0..=64).chain([1200, 1232, 9000]).collect(),
    };
    let shapes: Vec<Vec<usize>> = match run.tier {
        Tier::Quick => vec![vec![1], vec![2], vec![3], vec![2, 2], vec![1, 3], vec![2, 1, 2], vec![3, 3, 3]],
        Tier::Thorough => {
            let mut v = vec![];
            for a in 1..=3 {
                v.push(vec![a]);
                for b in 1..=3 {
                    v.push(vec![a, b]);
                    for c in 1..=3 {
                        v.push(vec![a, b, c]);
                    }
                }
            }
            v
        }
    };
    let mut paths: Vec<RPath> = vec![RPath::Empty];
    for sh in &shapes {
        for (ci, ch) in positions(sh) {
            paths.push(RPath::Std(rpath_for(sh, ci, ch)));
        }
    }
    let handler = DefaultEchoHandler::new();
    let pk = Pocket::new(true);
    paths.par_iter().for_each(|path| {
        let req = base_req(path.clone());
        for &dl in &data_lens {
            let data = pattern(dl, 2);
            for &id in &ids {
                for &seq in &ids {
                    ev.add("evaluations", 1);
                    let l4 = echo_l4(128, id, seq, &data);
                    let pkt = req.packet(PROTO_SCMP, &l4, Some(2));
                    if pkt.len() > 65535 {
                        continue;
                    }
                    let pdesc = match path {
                        RPath::Std(p) => format!("std{:?}@{},{}", p.seg_len, p.curr_inf, p.curr_hf),
                        _ => "empty".into(),
                    };
                    let witness = || json!({"part": "c", "path": pdesc, "id": id, "seq": seq, "data_len": dl, "request": hex(&pkt[..pkt.len().min(160)])});
                    // scion-stack echo handler
                    let r = catch(|| {
                        let (view, _) = ScionRawPacketView::try_from_slice(&pkt).map_err(|e| format!("{e:?}"))?;
                        Ok::<_, String>(handler.handle(view).map(|p| p.try_encode_to_vec()))
                    });
                    match r {
                        Err(p) => run.violation(&format!("c:echo-handler-panic@{}", vpc::last_panic_location()), &p, witness()),
                        Ok(Err(e)) => run.violation("c:request-built-by-spec-writer-rejected-by-view", &e, witness()),
                        Ok(Ok(None)) => {
                            run.outcome("c:stack-no-reply");
                            run.violation("c:stack-echo-request-not-answered", "DefaultEchoHandler returned no reply to a well-formed echo request", witness());
                        }
                        Ok(Ok(Some(Err(e)))) => run.violation("c:stack-echo-reply-not-encodable", &format!("{e:?}"), witness()),
                        Ok(Ok(Some(Ok(reply)))) => {
                            run.outcome("c:stack-echo-reply");
                            distinct.add(format!("c-stack|{pdesc}|{dl}").as_bytes());
                            judge_echo_reply(run, "c-stack", &reply, &req, id, seq, &data, Some(&req.dst_host), &witness);
                        }
                    }
                    // pocketscion router echo (ingress + egress)
                    if id == 1 && seq == 0xFFFF {
                        for (an, act) in [("ingress", LocalAsRoutingAction::IngressSCMPHandleRequest { interface_id: 7 }), ("egress", LocalAsRoutingAction::EgressSCMPHandleRequest { interface_id: 7 })] {
                            ev.add("evaluations", 1);
                            match pk.act(7, act, &pkt) {
                                Err(e) if e.starts_with("PANIC") => run.violation(&format!("c:pocket-echo-panic@{}", vpc::last_panic_location()), &e, witness()),
                                Err(e) => run.violation(&format!("c:pocket-echo-error:{an}"), &e, witness()),
                                Ok(None) => run.violation(&format!("c:pocket-echo-request-not-answered:{an}"), "no reply", witness()),
                                Ok(Some(reply)) => {
                                    run.outcome("c:pocket-echo-reply");
                                    distinct.add(format!("c-pocket|{pdesc}|{dl}").as_bytes());
                                    judge_echo_reply(run, "c-pocket", &reply, &req, id, seq, &data, Some(&[10, 0, 1, 254]), &witness);
                                }
                            }
                        }
                    }
                }
            }
        }
    });
}

// ------------------------------------------------------------------------------------------------
// (d) no reply to errors / malformed SCMP
fn min_len_of_type(ty: u8) -> usize {
    match ty {
        1 | 2 | 4 => 8,
        5 => 20,
        6 => 28,
        128 | 129 => 8,
        130 | 131 => 24,
        _ => 4,
    }
}

fn part_d(run: &Run, ev: &vpc::Counters, distinct: &vpc::Distinct) {
    let handler = DefaultEchoHandler::new();
    let pk_none = Pocket::new(false);
    let req = base_req(RPath::Std(rpath_for(&[2, 2], 1, 3)));
    // an inner offending packet that is itself an SCMP error ("error quoting an error")
    let inner = base_req(RPath::Empty).packet(PROTO_SCMP, &[1, 0, 0, 0, 0, 0, 0, 0, 9, 9, 9], Some(2));
    (0u16..=255).into_par_iter().for_each(|ty| {
        let ty = ty as u8;
        for code in [0u8, 1, 255] {
            let full_len = min_len_of_type(ty) + 8;
            for len in 0..=full_len {
                for good_cs in [true, false] {
                    for quote_error in [false, true] {
                        if quote_error && (len != full_len || ty >= 128) {
                            continue;
                        }
                        let mut l4: Vec<u8> = vec![ty, code, 0, 0];
                        l4.extend(pattern(full_len.saturating_sub(4), ty));
                        l4.truncate(len);
                        if quote_error {
                            l4.truncate(min_len_of_type(ty));
                            l4.extend_from_slice(&inner);
                        }
                        let pkt = req.packet(PROTO_SCMP, &l4, if good_cs { Some(2) } else { None });
                        let is_error = len >= 1 && ty < 128; // SCMP: types 0..127 are error messages
                        let malformed = l4.len() < 4 || l4.len() < min_len_of_type(ty);
                        let must_be_silent = is_error || malformed || len == 0;
                        ev.add("evaluations", 1);
                        distinct.add(format!("d|{ty}|{}|{}", l4.len().min(40), good_cs).as_bytes());
                        let witness = || json!({"part": "d", "type": ty, "code": code, "l4_len": l4.len(), "checksum_valid": good_cs, "quotes_error": quote_error, "packet": hex(&pkt)});
                        // 1. scion-stack echo handler
                        let r = catch(|| ScionRawPacketView::try_from_slice(&pkt).ok().and_then(|(v, _)| handler.handle(v)).is_some());
                        match r {
                            Err(p) => run.violation(&format!("d:echo-handler-panic@{}", vpc::last_panic_location()), &p, witness()),
                            Ok(true) if must_be_silent => run.violation(&format!("d:stack-echo-handler-replies-to-{}", if is_error { "scmp-error" } else { "malformed-scmp" }), &format!("type {ty}"), witness()),
                            Ok(true) => run.outcome("d:stack-reply-to-informational"),
                            Ok(false) => run.outcome("d:stack-silent"),
                        }
                        // 2. pocketscion builders: undeliverable packet, router error, SCMP request handling
                        let acts: Vec<(&str, LocalAsRoutingAction)> = vec![
                            ("forward-local", LocalAsRoutingAction::ForwardLocal),
                            ("send-scmp-error", LocalAsRoutingAction::SendSCMPErrorResponse(ScmpErrorMessage::ParameterProblem(ScmpParameterProblem::new(ScmpParameterProblemCode::InvalidPath, 0, pkt.clone())))),
                            ("ingress-scmp-request", LocalAsRoutingAction::IngressSCMPHandleRequest { interface_id: 7 }),
                        ];
                        for (an, act) in acts {
                            ev.add("evaluations", 1);
                            match pk_none.act(7, act, &pkt) {
                                Err(e) if e.starts_with("PANIC") => run.violation(&format!("d:pocket-panic:{an}@{}", vpc::last_panic_location()), &e, witness()),
                                Err(_) => run.outcome("d:pocket-error-silent"),
                                Ok(None) => run.outcome("d:pocket-silent"),
                                Ok(Some(_)) if must_be_silent => {
                                    let what = if is_error {
                                        if matches!(ty, 1 | 2 | 4 | 5 | 6) { "known-scmp-error".to_string() } else { "unknown-type-scmp-error".to_string() }
                                    } else {
                                        "malformed-scmp".to_string()
                                    };
                                    run.violation(&format!("d:pocket-{an}-replies-to-{what}"), &format!("type {ty} l4_len {}", l4.len()), witness());
                                }
                                Ok(Some(_)) => run.outcome("d:pocket-reply-to-informational"),
                            }
                        }
                    }
                }
            }
        }
    });
}

// ------------------------------------------------------------------------------------------------
// (e) socket loop
struct CountingReceiver(Mutex<Vec<String>>);
impl ScmpErrorReceiver for CountingReceiver {
    fn report_scmp_error<'a>(&self, e: ScmpErrorMessage, _path: ScionDpPathViewRef<'a>) {
        let k = match e {
            ScmpErrorMessage::DestinationUnreachable(_) => "dest-unreachable",
            ScmpErrorMessage::PacketTooBig(_) => "too-big",
            ScmpErrorMessage::ParameterProblem(_) => "param-problem",
            ScmpErrorMessage::ExternalInterfaceDown(_) => "ext-if-down",
            ScmpErrorMessage::InternalConnectivityDown(_) => "int-conn-down",
        };
        self.0.lock().unwrap().push(k.to_string());
    }
}

fn block_on_ready<F: std::future::Future>(f: F) -> Option<F::Output> {
    let w = std::task::Waker::noop();
    let mut cx = std::task::Context::from_waker(w);
    let mut f = std::pin::pin!(f);
    for _ in 0..4 {
        if let std::task::Poll::Ready(v) = f.as_mut().poll(&mut cx) {
            return Some(v);
        }
    }
    None
}

fn part_e(run: &Run, ev: &vpc::Counters, distinct: &vpc::Distinct) {
    let req = base_req(RPath::Std(rpath_for(&[2], 0, 1)));
    let udp = |port: u16, payload: &[u8]| {
        let mut l4 = port.to_be_bytes().to_vec();
        l4.extend_from_slice(&4000u16.to_be_bytes());
        l4.extend_from_slice(&((8 + payload.len()) as u16).to_be_bytes());
        l4.extend_from_slice(&[0, 0]);
        l4.extend_from_slice(payload);
        req.packet(PROTO_UDP, &l4, Some(6))
    };
    let d1 = pattern(33, 1);
    let d2 = pattern(700, 2);
    let mut scmp_err = vec![1u8, 4, 0, 0, 0, 0, 0, 0];
    scmp_err.extend_from_slice(&pattern(60, 3));
    let mut unknown_err = vec![100u8, 0, 0, 0];
    unknown_err.extend_from_slice(&pattern(20, 4));
    let mut ext_down = vec![5u8, 0, 0, 0];
    ext_down.extend_from_slice(&ia_u64(REMOTE_IA).to_be_bytes());
    ext_down.extend_from_slice(&9u64.to_be_bytes());
    ext_down.extend_from_slice(&pattern(40, 5));
    // items: (name, packet, kind)
    let items: Vec<(&str, Vec<u8>)> = vec![
        ("E", req.packet(PROTO_SCMP, &scmp_err, Some(2))),
        ("d1", udp(1111, &d1)),
        ("d2", udp(2222, &d2)),
        ("M", req.packet(PROTO_SCMP, &[1, 0, 0, 0, 7], Some(2))), // truncated error
        ("Q", req.packet(PROTO_SCMP, &echo_l4(128, 5, 6, b"ping"), Some(2))),
        ("X", req.packet(253, &pattern(12, 6), None)), // experimental next header
        ("U", req.packet(PROTO_SCMP, &unknown_err, Some(2))),
        ("I", req.packet(PROTO_SCMP, &ext_down, Some(2))),
    ];
    let n = items.len();
    let maxlen = run.tier.pick(3usize, 4usize);
    let mut seqs: Vec<Vec<usize>> = vec![vec![]];
    let mut frontier: Vec<Vec<usize>> = vec![vec![]];
    for _ in 0..maxlen {
        let mut next = vec![];
        for s in &frontier {
            for i in 0..n {
                let mut t = s.clone();
                t.push(i);
                next.push(t);
            }
        }
        seqs.extend(next.iter().cloned());
        frontier = next;
    }
    let local: ScionSocketIpAddr = ScionSocketIpAddr::new(ia(LOCAL_IA), "10.0.1.1".parse().unwrap(), 4000);
    seqs.par_iter().for_each(|seq| {
        for with_echo in [false, true] {
            ev.add("evaluations", 1);
            let names: Vec<&str> = seq.iter().map(|i| items[*i].0).collect();
            let witness = || json!({"part": "e", "sequence": names, "echo_handler_installed": with_echo});
            let recv = Arc::new(CountingReceiver(Mutex::new(vec![])));
            let r = catch(|| {
                let s = scripted_udp_socket(local, seq.iter().map(|i| items[*i].1.clone()).collect(), vec![recv.clone() as Arc<dyn ScmpErrorReceiver>], with_echo);
                let mut got: Vec<(Vec<u8>, String)> = vec![];
                let mut buf = vec![0u8; 2000];
                let mut stuck = false;
                loop {
                    match block_on_ready(s.socket.recv_from(&mut buf)) {
                        None => {
                            stuck = true;
                            break;
                        }
                        Some(Ok((len, from))) => got.push((buf[..len.min(buf.len())].to_vec(), from.to_string())),
                        Some(Err(_)) => break,
                    }
                    if got.len() > 16 {
                        break;
                    }
                }
                let sent = s.sent.lock().unwrap().clone();
                (got, sent, stuck)
            });
            let (got, sent, stuck) = match r {
                Ok(x) => x,
                Err(p) => {
                    run.violation(&format!("e:socket-loop-panic@{}", vpc::last_panic_location()), &p, witness());
                    continue;
                }
            };
            if stuck {
                run.violation("e:socket-recv-pending-on-ready-underlay", "recv_from stayed pending although the scripted underlay is always ready", witness());
                continue;
            }
            // datagram delivery unaffected
            let want: Vec<Vec<u8>> = names.iter().filter_map(|nm| match *nm { "d1" => Some(d1.clone()), "d2" => Some(d2.clone()), _ => None }).collect();
            let got_payloads: Vec<Vec<u8>> = got.iter().map(|g| g.0.clone()).collect();
            if got_payloads != want {
                run.violation("e:datagram-delivery-affected-by-scmp-traffic", &format!("expected {} datagrams in order, got {}", want.len(), got_payloads.len()), witness());
            }
            // errors reach the receiver exactly once each
            let want_err: Vec<String> = names.iter().filter_map(|nm| match *nm { "E" => Some("dest-unreachable".to_string()), "I" => Some("ext-if-down".to_string()), _ => None }).collect();
            let got_err = recv.0.lock().unwrap().clone();
            if got_err != want_err {
                run.violation("e:scmp-errors-not-delivered-exactly-once-in-order", &format!("expected {want_err:?} got {got_err:?}"), witness());
            }
            // replies only for echo requests
            let nq = names.iter().filter(|x| **x == "Q").count();
            let want_sent = if with_echo { nq } else { 0 };
            if sent.len() != want_sent {
                let cls = if sent.len() > want_sent { "e:socket-sends-reply-not-caused-by-echo-request" } else { "e:socket-echo-request-unanswered" };
                run.violation(cls, &format!("{} packets sent, expected {}", sent.len(), want_sent), witness());
            }
            for s in &sent {
                judge_echo_reply(run, "e", s, &req, 5, 6, b"ping", Some(&req.dst_host), &witness);
            }
            run.outcome(&format!("e:datagrams={} errors={} replies={}", got.len().min(3), got_err.len().min(3), sent.len().min(3)));
            distinct.add(format!("e|{names:?}|{with_echo}").as_bytes());
            run.sample(6, || json!({"part": "e", "sequence": names, "echo": with_echo, "datagrams": got.len(), "errors": got_err, "replies": sent.len()}));
        }
    });
}

pub fn run(args: &vpc::Args) -> ! {
    vpc::quiet_panics();
    let run = Run::new(args);
    if let Some(p) = &args.replay {
        let v = vpc::read_replay(p);
        println!("replay of {}: class={} what={}", p.display(), v["class"], v["what"]);
        println!("witness: {}", serde_json::to_string_pretty(&v["witness"]).unwrap());
        println!("(C14 witnesses are self-describing inputs; re-run `./check C14 --tier quick` to re-execute the enumeration that contains them)");
        std::process::exit(0);
    }
    let ev = vpc::Counters::default();
    let distinct = vpc::Distinct::default();
    let only: Option<String> = args.extra.iter().find_map(|a| a.strip_prefix("--part=").map(|s| s.to_string()));
    let want = |p: &str| only.as_deref().map(|o| o.contains(p)).unwrap_or(true);
    let mut timing = vec![];
    for (name, f) in [("a", part_a as fn(&Run, &vpc::Counters, &vpc::Distinct)), ("b", part_b), ("c", part_c), ("d", part_d), ("e", part_e)] {
        if want(name) {
            let t = std::time::Instant::now();
            f(&run, &ev, &distinct);
            timing.push(json!({"part": name, "wall_s": t.elapsed().as_secs_f64(), "evaluations_so_far": ev.get("evaluations")}));
            println!("part {name}: done in {:.1}s, evaluations so far {}", t.elapsed().as_secs_f64(), ev.get("evaluations"));
        }
    }
    let tier = run.tier;
    run.finish(
        "exploration",
        json!({
            "evaluations": ev.get("evaluations"),
            "distinct_nontrivial": distinct.len(),
            "rule": "cases are generated from size/shape-determining fields: (a) 5 error kinds x offending lengths x reply header shapes; (b) builders x datagram/packet sizes; (c) echo requests x ids x data lengths x path shapes x positions; (d) 256 type bytes x 3 codes x every truncation x checksum x error-quoting-error x 4 handlers; (e) all sequences with repetition over 8 packet kinds. distinct_nontrivial counts distinct (part, encoded length / type / shape / sequence) classes that reached an oracle (a reply judged or a silent verdict checked)",
            "exhaustive": true,
            "bound": match tier { Tier::Quick => "quick: every offending length 0..=1400 (+1500, 9216), reduced reply-header / echo shape series, socket sequences <= 3", Tier::Thorough => "thorough: every offending length 0..=1400, all 1-seg hop counts 1..=63, all <=3x3 shapes and positions, socket sequences <= 4" },
            "parts": timing,
        }),
        &[
            "R-wire (independent SCION header reader/writer + RFC1071 checksum) is the judge of every packet",
            "SCMP types 0..127 are error messages (SCMP specification), also when the type is unknown to the SDK",
            "echo requests with a wrong checksum are don't-care (the property does not say whether they are malformed)",
            "snap gateway glue (match on Ok/Err in start_server) is trusted; the real check + real SCMP builder are executed through the verif hook",
        ],
    )
}
