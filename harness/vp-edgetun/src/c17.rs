//! C17 — tunnel reassembly emits only intact packets, at most once, in any frame order.
//!
//! Explicit-state exploration of frame-delivery histories through the REAL `Defragmenter`
//! (`anapaya_edge_tun::fragmenting`), frames of honest packets produced by the REAL `Fragmenter`.
//!
//! * Payload bytes are provenance tags: byte at absolute position `p` of every frame whose stream
//!   offset identifies packet `pid` is `tag(pid, p)` (never 0, different for different pids at the
//!   same position). A fresh `Defragmenter` has zeroed buffers, so any emitted byte that was not
//!   received in a frame of the emitted packet at that position shows up as `0` or as the tag of
//!   another packet.
//! * Events: deliver frame `f` of the alphabet (honest frames of 4 packets + hostile frames built
//!   by field mutation). Histories: ALL sequences with repetition up to the depth bound.
//! * A new state is produced by replaying its history on a fresh `Defragmenter`; every
//!   (state, frame) transition is executed on the real object and judged by oracles that do not
//!   use the mirror.
//! * De-duplication key: a harness mirror of the documented slot state (stream offset, received
//!   index set, window, final size, expected frames, last offset, idle, buffer provenance
//!   intervals; behaviour as of /repo 7409f59) + the state of the history-dependent honest-sender monitor. Soundness of merging:
//!   the key contains every field that `recv` reads (`next_frame_offset` and the histogram clock
//!   feed metrics only), so two histories with equal keys leave the real object in states that
//!   answer every future frame identically PROVIDED the mirror is faithful. Faithfulness is
//!   checked on every executed transition (result kind, error label, emitted stream offset and
//!   every emitted byte — which exposes the buffer abstraction); after the first divergence a
//!   history and all its extensions are never merged (keyed by the history itself). In addition
//!   every merge at shallow depth is audited on the real object (all one-frame extensions of the
//!   merged history and of the representative must give identical results).
use std::{
    alloc::{GlobalAlloc, Layout, System},
    cell::Cell,
    collections::{BTreeMap, HashMap, HashSet},
};

use anapaya_edge_tun::fragmenting::{
    DefragmentInsertError, Defragmenter, Fragmenter, MAX_MTU, MAX_PACKET_SIZE, MIN_MTU,
    metrics::DefragmentMetrics,
};
use rayon::prelude::*;
use serde_json::{Value, json};

// ---------------------------------------------------------------------------------------------
// counting allocator (per-thread live bytes; the measured sections are single-threaded)
// ---------------------------------------------------------------------------------------------
struct Counting;
thread_local! {
    static LIVE: Cell<i64> = const { Cell::new(0) };
}
unsafe impl GlobalAlloc for Counting {
    unsafe fn alloc(&self, l: Layout) -> *mut u8 {
        let p = unsafe { System.alloc(l) };
        if !p.is_null() {
            let _ = LIVE.try_with(|c| c.set(c.get() + l.size() as i64));
        }
        p
    }
    unsafe fn alloc_zeroed(&self, l: Layout) -> *mut u8 {
        let p = unsafe { System.alloc_zeroed(l) };
        if !p.is_null() {
            let _ = LIVE.try_with(|c| c.set(c.get() + l.size() as i64));
        }
        p
    }
    unsafe fn dealloc(&self, p: *mut u8, l: Layout) {
        unsafe { System.dealloc(p, l) };
        let _ = LIVE.try_with(|c| c.set(c.get() - l.size() as i64));
    }
    unsafe fn realloc(&self, p: *mut u8, l: Layout, new: usize) -> *mut u8 {
        let q = unsafe { System.realloc(p, l, new) };
        if !q.is_null() {
            let _ = LIVE.try_with(|c| c.set(c.get() + new as i64 - l.size() as i64));
        }
        q
    }
}
#[global_allocator]
static ALLOC: Counting = Counting;
fn live() -> i64 {
    LIVE.with(|c| c.get())
}

thread_local! {
    /// One metrics object per thread; every Defragmenter gets a clone (cheap Arc clones) instead
    /// of building a fresh prometheus registry per history.
    static METRICS: DefragmentMetrics = Defragmenter::new_unobserved(1).metrics().clone();
}

// ---------------------------------------------------------------------------------------------
// provenance tags, frames
// ---------------------------------------------------------------------------------------------
const HDR: usize = 16;
const LAST: u16 = 0x8000;

/// Byte at absolute packet position `p` of packet `pid`: never 0; different pids differ at every
/// position; a shift by a multiple of a frame window (>= 256, not a multiple of 251) changes it.
fn tag(pid: u8, p: usize) -> u8 {
    1 + ((p + 37 * pid as usize) % 251) as u8
}

/// `tag(pid, 0..=65536)` for pid 0..8, for slice comparisons.
fn tag_table(pid: u8) -> &'static [u8] {
    static T: std::sync::OnceLock<Vec<Vec<u8>>> = std::sync::OnceLock::new();
    &T.get_or_init(|| (0..8u8).map(|k| (0..=65536usize).map(|p| tag(k, p)).collect()).collect())[pid as usize]
}

#[derive(Clone, Copy, Debug, PartialEq, Eq)]
struct Hdr {
    so: u64,
    off: u16,
    flags: u16,
}
impl Hdr {
    fn last(&self) -> bool {
        self.flags & LAST != 0
    }
}

#[derive(Clone)]
struct Frame {
    name: String,
    /// (honest packet index, frame index) when produced by the real Fragmenter
    honest: Option<(usize, usize)>,
    raw: Vec<u8>,
    /// None for frames shorter than the header
    hdr: Option<Hdr>,
    /// payload length
    len: usize,
    pid: u8,
}

fn mk_frame(name: &str, so: u64, off: u16, flags: u16, len: usize, pid: u8) -> Frame {
    let mut raw = vec![0u8; HDR + len];
    raw[0..8].copy_from_slice(&so.to_be_bytes());
    raw[8..10].copy_from_slice(&off.to_be_bytes());
    raw[10..12].copy_from_slice(&flags.to_be_bytes());
    for i in 0..len {
        raw[HDR + i] = tag(pid, off as usize + i);
    }
    Frame { name: name.to_string(), honest: None, raw, hdr: Some(Hdr { so, off, flags }), len, pid }
}
fn mk_raw(name: &str, raw: Vec<u8>) -> Frame {
    Frame { name: name.to_string(), honest: None, raw, hdr: None, len: 0, pid: 255 }
}
fn parse_hdr(raw: &[u8]) -> Option<Hdr> {
    if raw.len() < HDR {
        return None;
    }
    Some(Hdr {
        so: u64::from_be_bytes(raw[0..8].try_into().unwrap()),
        off: u16::from_be_bytes(raw[8..10].try_into().unwrap()),
        flags: u16::from_be_bytes(raw[10..12].try_into().unwrap()),
    })
}
fn frame_json(f: &Frame) -> Value {
    match f.hdr {
        Some(h) => json!({
            "name": f.name, "kind": "hdr", "stream_offset": h.so.to_string(), "frame_offset": h.off,
            "flags": h.flags, "last": h.last(), "payload_len": f.len, "pid": f.pid,
            "honest": f.honest.map(|(k, i)| json!([k, i])),
        }),
        None => json!({"name": f.name, "kind": "raw", "raw_hex": vpc::hex(&f.raw)}),
    }
}
fn frame_from_json(v: &Value) -> Frame {
    let name = v["name"].as_str().unwrap_or("?");
    if v["kind"] == "raw" {
        return mk_raw(name, vpc::unhex(v["raw_hex"].as_str().unwrap_or("")));
    }
    let so: u64 = v["stream_offset"].as_str().and_then(|s| s.parse().ok()).unwrap_or_else(|| vpc::machinery_failure("replay: bad stream_offset"));
    let mut f = mk_frame(
        name,
        so,
        v["frame_offset"].as_u64().unwrap_or(0) as u16,
        v["flags"].as_u64().unwrap_or(0) as u16,
        v["payload_len"].as_u64().unwrap_or(0) as usize,
        v["pid"].as_u64().unwrap_or(0) as u8,
    );
    if let Some(a) = v["honest"].as_array() {
        f.honest = Some((a[0].as_u64().unwrap() as usize, a[1].as_u64().unwrap() as usize));
    }
    f
}

#[derive(Clone)]
struct Pkt {
    pid: u8,
    so: u64,
    data: Vec<u8>,
    nframes: usize,
}

#[derive(Clone, Copy, Debug)]
struct Cfg {
    mtu: usize,
    variant: char,
    q: usize,
}

struct Ctx {
    cfg: Cfg,
    w: usize,
    frames: Vec<Frame>,
    pkts: Vec<Pkt>,
    /// stream offset -> provenance id of every stream offset occurring in the alphabet
    so_pid: Vec<(u64, u8)>,
    build_problems: Vec<String>,
}
impl Ctx {
    fn pid_of(&self, so: u64) -> Option<u8> {
        self.so_pid.iter().find(|(s, _)| *s == so).map(|(_, p)| *p)
    }
}

const PID_OLD: u8 = 4;
const PID_MAX: u8 = 5;
const PID_PREAMBLE: u8 = 6;

fn sizes(variant: char, w: usize) -> [usize; 4] {
    match variant {
        // 1, 2, 3, 2 frames; sizes at the frame boundary and +-1
        'A' => [w, w + 1, 2 * w + 1, 2 * w],
        'B' => [w - 1, 2 * w - 1, 3 * w, w + 1],
        _ => [1, 2 * w, 3 * w - 1, 2 * w - 1],
    }
}

/// Honest frames from the real Fragmenter + hostile frames by field mutation.
fn build_ctx(cfg: Cfg, with_flag_variants: bool) -> Ctx {
    let w = cfg.mtu - HDR;
    let mut problems = vec![];
    let mut fr = Fragmenter::new_unobserved(cfg.mtu);
    if fr.mtu() != cfg.mtu {
        problems.push(format!("Fragmenter mtu {} != requested {}", fr.mtu(), cfg.mtu));
    }
    // preamble packet so that honest stream offsets are > 0 (an "older" offset exists)
    let pre: Vec<u8> = (0..7).map(|p| tag(PID_PREAMBLE, p)).collect();
    let _ = fr.send(&pre, |_| {});
    let mut frames: Vec<Frame> = vec![];
    let mut pkts = vec![];
    let mut expect_so = 7u64;
    for (k, size) in sizes(cfg.variant, w).into_iter().enumerate() {
        let data: Vec<u8> = (0..size).map(|p| tag(k as u8, p)).collect();
        let mut got: Vec<Vec<u8>> = vec![];
        let so = match fr.send(&data, |f| got.push(f.to_vec())) {
            Ok(so) => so,
            Err(e) => {
                problems.push(format!("Fragmenter refused honest packet of {size} bytes: {e}"));
                continue;
            }
        };
        // independent expectation of what an honest sender emits (module doc of fragmenting.rs)
        let n = size.div_ceil(w);
        if so != expect_so || got.len() != n {
            problems.push(format!("packet {k}: stream offset {so} (expected {expect_so}), {} frames (expected {n})", got.len()));
        }
        for (i, raw) in got.iter().enumerate() {
            let h = parse_hdr(raw);
            let want = Hdr { so, off: (i * w) as u16, flags: if i + 1 == n { LAST } else { 0 } };
            let lo = (i * w).min(size);
            let hi = ((i + 1) * w).min(size);
            if h != Some(want) || raw.len() < HDR || raw[HDR..] != data[lo..hi] || raw[12..16] != [0, 0, 0, 0] {
                problems.push(format!("packet {k} frame {i}: header {h:?} / payload differ from the honest expectation {want:?}"));
            }
            let hh = h.unwrap_or(want);
            frames.push(Frame {
                name: format!("P{k}.{}{}", if hh.last() { "L@" } else { "M@" }, off_name(hh.off as usize, w)),
                honest: Some((k, i)),
                raw: raw.clone(),
                hdr: h,
                len: raw.len().saturating_sub(HDR),
                pid: k as u8,
            });
        }
        pkts.push(Pkt { pid: k as u8, so, data, nframes: got.len() });
        expect_so += size as u64;
    }
    let s1 = pkts[1].so;
    let s2 = pkts[2].so;
    let w16 = w as u16;
    let l2 = pkts[2].data.len() - 2 * w; // honest length of P2's LAST fragment
    let mut hostile = vec![
        mk_raw("X.short0", vec![]),
        mk_raw("X.short15", vec![0x11; 15]),
        mk_frame("X2.L@0/len0", s2, 0, LAST, 0, 2),
        mk_frame("X2.L@0/len1", s2, 0, LAST, 1, 2),
        mk_frame("X2.L@w/len1", s2, w16, LAST, 1, 2),
        mk_frame("X2.L@2w/len+1", s2, 2 * w16, LAST, l2 + 1, 2),
        mk_frame("X2.L@w+1/len1", s2, w16 + 1, LAST, 1, 2),
        mk_frame("X2.M@2w", s2, 2 * w16, 0, w, 2),
        mk_frame("X2.M@3w", s2, 3 * w16, 0, w, 2),
        mk_frame("X2.M@4w", s2, 4 * w16, 0, w, 2),
        mk_frame("X2.M@0/len0", s2, 0, 0, 0, 2),
        mk_frame("X2.L@w/len0", s2, w16, LAST, 0, 2),
        mk_frame("X2.M@0/len(w+1)", s2, 0, 0, w + 1, 2),
        mk_frame("X2.L@65534/len1", s2, 65534, LAST, 1, 2),
        mk_frame("X2.L@65535/len1", s2, 65535, LAST, 1, 2),
        {
            let k = MAX_PACKET_SIZE / w; // k*w <= 65535 < k*w + w
            mk_frame("X2.M@kw/end>65535", s2, (k * w) as u16, 0, w, 2)
        },
        mk_frame("X1.M@w", s1, w16, 0, w, 1),
        mk_frame("Xold.M@0", 3, 0, 0, w, PID_OLD),
        mk_frame("Xmax.M@0", u64::MAX, 0, 0, w, PID_MAX),
        mk_frame("Xmax.L@w/len1", u64::MAX, w16, LAST, 1, PID_MAX),
        mk_frame("X2.L@0/len65536", s2, 0, LAST, 65536, 2),
    ];
    if with_flag_variants {
        hostile.push(mk_frame("X2.M@0/flags7fff", s2, 0, 0x7fff, w, 2));
        hostile.push(mk_frame("X2.L@2w/flagsffff", s2, 2 * w16, 0xffff, l2, 2));
    }
    frames.extend(hostile);
    let mut so_pid: Vec<(u64, u8)> = pkts.iter().map(|p| (p.so, p.pid)).collect();
    so_pid.push((3, PID_OLD));
    so_pid.push((u64::MAX, PID_MAX));
    if frames.len() > 64 {
        vpc::machinery_failure("alphabet larger than 64");
    }
    Ctx { cfg, w, frames, pkts, so_pid, build_problems: problems }
}
fn off_name(off: usize, w: usize) -> String {
    if off == 0 {
        "0".into()
    } else if off % w == 0 {
        format!("{}w", off / w)
    } else {
        format!("{off}")
    }
}

// ---------------------------------------------------------------------------------------------
// running the real object
// ---------------------------------------------------------------------------------------------
#[derive(Clone, Debug, PartialEq, Eq)]
enum Out {
    Emit { so: u64, payload: Vec<u8> },
    None,
    Err(&'static str),
    Panic(String),
}
impl Out {
    fn short(&self) -> String {
        match self {
            Out::Emit { so, payload } => format!("Ok(Some(stream_offset={so}, len={}))", payload.len()),
            Out::None => "Ok(None)".into(),
            Out::Err(l) => format!("Err({l})"),
            Out::Panic(m) => format!("PANIC({m})"),
        }
    }
}
fn err_label(e: &DefragmentInsertError) -> &'static str {
    match e {
        DefragmentInsertError::QueueNotAccepting => "queue_idle",
        DefragmentInsertError::InvalidHeader => "invalid_header",
        DefragmentInsertError::InvalidHeaderValue(_, m) => m,
        DefragmentInsertError::OutOfBounds(_) => "segment_out_of_bounds",
        DefragmentInsertError::Duplicate(_) => "duplicate_segment",
        DefragmentInsertError::TooOld(_) => "segment_too_old",
    }
}
fn recv_one(d: &mut Defragmenter, raw: &[u8]) -> Out {
    match d.recv(raw) {
        Ok(Some(p)) => Out::Emit { so: p.stream_offset, payload: p.payload.to_vec() },
        Ok(None) => Out::None,
        Err(e) => Out::Err(err_label(&e)),
    }
}
fn new_defrag(q: usize) -> Defragmenter {
    METRICS.with(|m| Defragmenter::new(q, m.clone()))
}
/// Replays `hist` on a fresh Defragmenter, returns the result of the last delivery.
fn exec_last(q: usize, frames: &[Frame], hist: &[u8]) -> Out {
    let r = vpc::catch(|| {
        let mut d = new_defrag(q);
        let (last, pre) = hist.split_last().expect("non-empty history");
        for &i in pre {
            let _ = d.recv(&frames[i as usize].raw);
        }
        recv_one(&mut d, &frames[*last as usize].raw)
    });
    match r {
        Ok(o) => o,
        Err(m) => Out::Panic(format!("{m} @ {}", vpc::last_panic_location())),
    }
}
/// Replays `hist` on a fresh Defragmenter, returns every result.
fn exec_all(q: usize, frames: &[&Frame]) -> Vec<Out> {
    let mut outs = vec![];
    let mut d = match vpc::catch(|| new_defrag(q)) {
        Ok(d) => d,
        Err(m) => return vec![Out::Panic(m)],
    };
    for f in frames {
        let r = vpc::catch(|| recv_one(&mut d, &f.raw));
        match r {
            Ok(o) => outs.push(o),
            Err(m) => {
                outs.push(Out::Panic(format!("{m} @ {}", vpc::last_panic_location())));
                break;
            }
        }
    }
    outs
}

/// "never grows memory": live heap bytes after replaying the history once == after replaying it
/// twice == right after construction; everything is released on drop. A dry run first creates the
/// lazily allocated per-label metric children (shared, bounded by the number of error labels).
fn memory_check(q: usize, frames: &[Frame], hist: &[u8]) -> Result<(), (String, Value)> {
    let run = |measure: bool| -> Option<[i64; 5]> {
        let base = live();
        let mut d = new_defrag(q);
        let l0 = live();
        for &i in hist {
            let _ = d.recv(&frames[i as usize].raw);
        }
        let l1 = live();
        for &i in hist {
            let _ = d.recv(&frames[i as usize].raw);
        }
        let l2 = live();
        drop(d);
        let l3 = live();
        measure.then_some([base, l0, l1, l2, l3])
    };
    let r = vpc::catch(|| {
        run(false);
        run(true).unwrap()
    });
    let Ok([base, l0, l1, l2, l3]) = r else { return Ok(()) }; // panics are reported by the transition oracle
    if l2 != l1 {
        return Err(("memory-growth:second-replay".into(), json!({"live_after_construction": l0 - base, "after_once": l1 - base, "after_twice": l2 - base})));
    }
    if l1 != l0 {
        return Err(("memory-growth:after-construction".into(), json!({"live_after_construction": l0 - base, "after_once": l1 - base})));
    }
    if l3 != base {
        return Err(("memory-leak:after-drop".into(), json!({"live_after_drop_minus_before_new": l3 - base})));
    }
    Ok(())
}

// ---------------------------------------------------------------------------------------------
// oracles (independent of the mirror)
// ---------------------------------------------------------------------------------------------
struct Viol {
    class: String,
    what: String,
    detail: Value,
    /// extra observed-outcome class to count (None for most)
    note: Option<&'static str>,
}

/// Byte-provenance oracle: every byte of an emitted packet with stream offset S is `tag(pid(S), p)`,
/// i.e. was received at that position in a frame of that same packet.
fn provenance_oracle(ctx: &Ctx, hist: &[&Frame], so: u64, payload: &[u8]) -> Option<Viol> {
    let Some(pid) = ctx.pid_of(so) else {
        return Some(Viol {
                note: None,
            class: "emitted-unknown-stream-offset".into(),
            what: format!("emitted a packet with stream offset {so} that no delivered frame carries"),
            detail: json!({"stream_offset": so.to_string(), "len": payload.len()}),
        });
    };
    if payload.len() <= 65537 && (pid as usize) < 8 && payload == &tag_table(pid)[..payload.len()] {
        return None;
    }
    let bad: Vec<usize> = (0..payload.len()).filter(|&p| payload[p] != tag(pid, p)).collect();
    if bad.is_empty() {
        return None;
    }
    // contiguous bad ranges with their apparent source
    let mut ranges: Vec<(usize, usize, String)> = vec![];
    for &p in &bad {
        let src = if payload[p] == 0 {
            "zero (never written)".to_string()
        } else {
            match (0..8u8).find(|&o| o != pid && tag(o, p) == payload[p]) {
                Some(o) => format!("bytes of packet pid {o}"),
                None => "unknown".to_string(),
            }
        };
        match ranges.last_mut() {
            Some((_, e, s)) if *e == p && *s == src => *e = p + 1,
            _ => ranges.push((p, p + 1, src)),
        }
    }
    // which structural anomaly do the delivered frames of this packet show?
    let mine: Vec<&&Frame> = hist.iter().filter(|f| f.hdr.is_some_and(|h| h.so == so)).collect();
    let lasts: Vec<(u16, usize)> = {
        let mut v: Vec<(u16, usize)> = mine.iter().filter(|f| f.hdr.unwrap().last()).map(|f| (f.hdr.unwrap().off, f.len)).collect();
        v.sort();
        v.dedup();
        v
    };
    let mut anomalies = vec![];
    if lasts.len() > 1 {
        anomalies.push("conflicting-last");
    }
    if mine.iter().any(|f| !f.hdr.unwrap().last() && lasts.iter().any(|(lo, _)| f.hdr.unwrap().off >= *lo)) {
        anomalies.push("mid-at-or-beyond-last");
    }
    if anomalies.is_empty() {
        anomalies.push(if mine.iter().all(|f| f.honest.is_some()) { "honest-frames-only" } else { "no-frame-anomaly" });
    }
    let stale_other = ranges.iter().any(|r| r.2.starts_with("bytes of packet"));
    Some(Viol {
        note: Some(if stale_other { "emit:contains-bytes-of-an-earlier-packet" } else { "emit:contains-never-written(zero)-bytes" }),
        class: format!("stale-bytes:{}", anomalies.join("+")),
        what: format!(
            "emitted packet (stream offset {so}, pid {pid}, {} bytes) contains {} bytes that were not received in any frame of that packet at that position{}",
            payload.len(),
            bad.len(),
            if stale_other { " — they are bytes of an EARLIER packet left in the slot" } else { " (buffer never written there)" }
        ),
        detail: json!({
            "emitted_stream_offset": so.to_string(), "emitted_len": payload.len(), "bad_bytes": bad.len(),
            "bad_ranges": ranges.iter().take(8).map(|(s, e, src)| json!({"from": s, "to_excl": e, "content": src})).collect::<Vec<_>>(),
        }),
    })
}

/// State of the honest-sender monitor (spec level, fed by the history and the observed results).
#[derive(Clone, Copy, PartialEq, Eq, Default, Debug)]
struct Mon {
    /// number of hostile frames delivered so far (saturating)
    hostile: u8,
    /// per honest packet: distinct frames delivered so far / since its last emission
    recv: [u8; 4],
    since: [u8; 4],
    emitted: [u8; 4],
    /// multi-frame packets that got a frame after their first completion (may hold a slot again)
    touched: u8,
    /// more than Q packets were possibly holding a slot at some time: eviction may have been due
    pressure: bool,
}
impl Mon {
    fn step(&mut self, ctx: &Ctx, f: &Frame, out: &Out, notes: &mut Vec<&'static str>) -> Vec<Viol> {
        let mut v = vec![];
        let Some((k, i)) = f.honest else {
            self.hostile = self.hostile.saturating_add(1);
            return v;
        };
        if self.hostile > 0 {
            return v;
        }
        let q = ctx.cfg.q;
        let pk = &ctx.pkts[k];
        let full = |j: usize| (1u8 << ctx.pkts[j].nframes) - 1;
        let was_complete = self.recv[k] == full(k);
        self.recv[k] |= 1 << i;
        self.since[k] |= 1 << i;
        if was_complete && pk.nframes > 1 {
            self.touched |= 1 << k;
        }
        let first_completion = !was_complete && self.recv[k] == full(k);
        let occ = (0..ctx.pkts.len())
            .filter(|&j| ctx.pkts[j].nframes > 1 && self.recv[j] != 0 && (self.recv[j] != full(j) || self.touched & (1 << j) != 0 || (j == k && first_completion)))
            .count();
        if occ > q {
            self.pressure = true;
        }
        if let Out::Emit { so, payload } = out {
            match ctx.pkts.iter().position(|p| p.so == *so) {
                None => v.push(Viol {
                note: None,
                    class: "honest:emitted-unsent-stream-offset".into(),
                    what: format!("honest frames only, but a packet with stream offset {so} (never sent) was emitted"),
                    detail: json!({"stream_offset": so.to_string()}),
                }),
                Some(j) => {
                    let pj = &ctx.pkts[j];
                    if *payload != pj.data {
                        v.push(Viol {
                note: None,
                            class: "honest:emitted-not-identical-to-sent".into(),
                            what: format!("honest frames only: emitted packet P{j} ({} bytes) differs from the sent packet ({} bytes)", payload.len(), pj.data.len()),
                            detail: json!({"packet": j, "emitted_len": payload.len(), "sent_len": pj.data.len(),
                                "first_difference": payload.iter().zip(&pj.data).position(|(a, b)| a != b)}),
                        });
                    }
                    if self.recv[j] != full(j) {
                        v.push(Viol {
                note: None,
                            class: "honest:emitted-before-all-frames-arrived".into(),
                            what: format!("packet P{j} emitted although only frames {:#b} of {} have been delivered", self.recv[j], pj.nframes),
                            detail: json!({"packet": j}),
                        });
                    }
                    if self.emitted[j] >= 1 {
                        let how = if pj.nframes == 1 {
                            "single-frame-fast-path"
                        } else if self.since[j] == full(j) {
                            "all-frames-redelivered-after-slot-reuse"
                        } else {
                            "without-full-redelivery"
                        };
                        v.push(Viol {
                note: None,
                            class: format!("honest:emitted-twice:{how}"),
                            what: format!("honest sender, duplicated frames: packet P{j} ({} frame(s)) is emitted a second time", pj.nframes),
                            detail: json!({"packet": j, "frames_of_packet": pj.nframes, "frames_redelivered_since_first_emission_mask": self.since[j]}),
                        });
                    }
                    self.emitted[j] = (self.emitted[j] + 1).min(2);
                    self.since[j] = 0;
                }
            }
        }
        if first_completion {
            notes.push(if self.pressure { "honest:completed-after-possible-eviction(emission-not-required)" } else { "honest:completion-obligation-checked" });
        }
        if first_completion && !self.pressure && !matches!(out, Out::Emit { so, .. } if *so == pk.so) {
            v.push(Viol {
                note: None,
                class: "honest:not-emitted-on-completion".into(),
                what: format!(
                    "honest frames only, never more than Q={q} packets in progress: the last missing frame of P{k} arrived but the result was {} instead of the packet",
                    out.short()
                ),
                detail: json!({"packet": k}),
            });
        }
        v
    }
    fn canon(&self, budget_mode: bool, out: &mut Vec<u8>) {
        if self.hostile > 0 {
            out.push(0xff);
            out.push(if budget_mode { self.hostile } else { 1 });
        } else {
            out.push(0);
            out.extend_from_slice(&self.recv);
            out.extend_from_slice(&self.since);
            out.extend_from_slice(&self.emitted);
            out.push(self.touched);
            out.push(self.pressure as u8);
        }
    }
}

/// All oracles for one delivery (the last frame of `hist`).
fn judge(ctx: &Ctx, mon: &mut Mon, hist: &[&Frame], out: &Out, notes: &mut Vec<&'static str>) -> Vec<Viol> {
    let mut v = vec![];
    match out {
        Out::Panic(m) => {
            let loc = m.rsplit(" @ ").next().unwrap_or("?").to_string();
            v.push(Viol { note: None, class: format!("panic@{loc}"), what: format!("Defragmenter::recv panicked: {m}"), detail: json!({"panic": m}) });
        }
        Out::Emit { so, payload } => {
            if let Some(x) = provenance_oracle(ctx, hist, *so, payload) {
                v.push(x);
            }
        }
        _ => {}
    }
    v.extend(mon.step(ctx, hist.last().unwrap(), out, notes));
    for x in &v {
        if let Some(n) = x.note {
            notes.push(n);
        }
    }
    v
}

fn outcome_class(f: &Frame, out: &Out) -> String {
    match out {
        Out::Emit { .. } if f.hdr.is_some_and(|h| h.last() && h.off == 0) => "emit:single-frame".into(),
        Out::Emit { .. } => "emit:reassembled".into(),
        Out::None => "accepted:incomplete".into(),
        Out::Err(l) => format!("err:{l}"),
        Out::Panic(_) => "panic".into(),
    }
}

// ---------------------------------------------------------------------------------------------
// mirror of the documented slot state — used ONLY for de-duplication
// ---------------------------------------------------------------------------------------------
#[derive(Clone)]
struct MSlot {
    so: u64,
    mask: [u128; 2],
    win: Option<usize>,
    fin: Option<usize>,
    exp: Option<usize>,
    last_off: Option<u16>,
    idle: bool,
    /// sorted disjoint [start, end) -> pid; gaps are zero bytes
    buf: Vec<(u32, u32, u8)>,
}
#[derive(Clone)]
struct Mirror {
    slots: Vec<MSlot>,
}
enum Pred {
    EmitFrame,
    EmitSlot(usize, usize),
    None,
    Err(&'static str),
}
fn is_mult(a: usize, b: usize) -> bool {
    if b == 0 { a == 0 } else { a % b == 0 }
}
impl MSlot {
    fn write(&mut self, s: u32, e: u32, pid: u8) {
        if s >= e {
            return;
        }
        let mut nb: Vec<(u32, u32, u8)> = Vec::with_capacity(self.buf.len() + 2);
        for &(a, b, p) in &self.buf {
            if b <= s || a >= e {
                nb.push((a, b, p));
            } else {
                if a < s {
                    nb.push((a, s, p));
                }
                if b > e {
                    nb.push((e, b, p));
                }
            }
        }
        nb.push((s, e, pid));
        nb.sort();
        let mut m: Vec<(u32, u32, u8)> = Vec::with_capacity(nb.len());
        for x in nb {
            match m.last_mut() {
                Some(l) if l.1 == x.0 && l.2 == x.2 => l.1 = x.1,
                _ => m.push(x),
            }
        }
        self.buf = m;
    }
}
impl Mirror {
    fn new(q: usize) -> Mirror {
        Mirror {
            slots: (0..q).map(|_| MSlot { so: u64::MAX, mask: [0; 2], win: None, fin: None, exp: None, last_off: None, idle: true, buf: vec![] }).collect(),
        }
    }
    fn recv(&mut self, f: &Frame) -> Pred {
        let Some(h) = f.hdr else { return Pred::Err("invalid_header") };
        if h.last() && h.off == 0 {
            return Pred::EmitFrame;
        }
        let mut lowest = u64::MAX;
        let mut li = 0;
        let mut idle = None;
        let mut found = None;
        for (i, s) in self.slots.iter().enumerate() {
            if s.so == h.so {
                found = Some(i);
                break;
            }
            if s.idle {
                idle = Some(i);
            }
            if lowest > s.so {
                lowest = s.so;
                li = i;
            }
        }
        let si = match found {
            Some(i) => i,
            None => {
                if idle.is_none() && h.so < lowest {
                    return Pred::Err("segment_too_old");
                }
                let i = idle.unwrap_or(li);
                let s = &mut self.slots[i];
                s.mask = [0; 2];
                s.win = None;
                s.fin = None;
                s.exp = None;
                s.last_off = None; // since 7409f59
                s.idle = false;
                s.so = h.so;
                i
            }
        };
        let s = &mut self.slots[si];
        if s.idle {
            return Pred::Err("queue_idle");
        }
        let off = h.off as usize;
        if off + f.len > MAX_PACKET_SIZE {
            s.idle = true;
            return Pred::Err("segment_out_of_bounds");
        }
        let idx = if h.last() {
            // since 7409f59: a second LAST frame is a duplicate before its size is adopted
            if s.last_off.is_some() {
                return Pred::Err("duplicate_segment");
            }
            s.fin = Some(off + f.len);
            s.last_off = Some(h.off);
            255
        } else {
            if s.win.is_some() && s.win != Some(f.len) {
                s.idle = true;
                return Pred::Err("inconsistent_frame_size");
            }
            s.win = Some(f.len);
            if !is_mult(off, f.len) {
                s.idle = true;
                return Pred::Err("offset_alignment_invalid");
            }
            if f.len < MIN_MTU - HDR {
                s.idle = true;
                return Pred::Err("frame_too_small");
            }
            let idx = off / f.len;
            if idx >= 255 {
                s.idle = true;
                return Pred::Err("frame_idx_exceeds_max_frames");
            }
            idx
        };
        if let (Some(fin), Some(win), Some(lo), None) = (s.fin, s.win, s.last_off, s.exp) {
            if !is_mult(lo as usize, win) {
                s.idle = true;
                return Pred::Err("last_frame_offset_alignment_invalid");
            }
            s.exp = Some(fin.div_ceil(win));
        }
        // since 7409f59: with the frame count known, middle frames must lie before the LAST frame and
        // the LAST frame must follow them directly
        if let (Some(e), Some(win), Some(lo)) = (s.exp, s.win, s.last_off) {
            let li = e.saturating_sub(1);
            let mid_beyond = (li..255).any(|i| s.mask[i / 128] & (1u128 << (i % 128)) != 0);
            if lo as usize != li * win || (!h.last() && idx >= li) || mid_beyond {
                s.idle = true;
                return Pred::Err("frame_beyond_last_frame");
            }
        }
        let bit = 1u128 << (idx % 128);
        if s.mask[idx / 128] & bit != 0 {
            return Pred::Err("duplicate_segment");
        }
        s.write(off as u32, (off + f.len) as u32, f.pid);
        s.mask[idx / 128] |= bit;
        if let Some(e) = s.exp
            && (s.mask[0].count_ones() + s.mask[1].count_ones()) as usize == e
        {
            s.idle = true;
            return Pred::EmitSlot(si, s.fin.unwrap_or(MAX_PACKET_SIZE));
        }
        Pred::None
    }
    /// Does the real result equal the mirror's prediction (incl. every emitted byte)?
    fn faithful(&self, pred: &Pred, f: &Frame, out: &Out) -> bool {
        match (pred, out) {
            (Pred::None, Out::None) => true,
            (Pred::Err(a), Out::Err(b)) => a == b,
            (Pred::EmitFrame, Out::Emit { so, payload }) => Some(*so) == f.hdr.map(|h| h.so) && payload[..] == f.raw[HDR..],
            (Pred::EmitSlot(i, n), Out::Emit { so, payload }) => {
                let s = &self.slots[*i];
                if *so != s.so || payload.len() != *n {
                    return false;
                }
                let mut exp = vec![0u8; *n];
                for &(a, b, pid) in &s.buf {
                    let (a, b) = (a as usize, (b as usize).min(*n));
                    if a < b {
                        exp[a..b].copy_from_slice(&tag_table(pid)[a..b]);
                    }
                }
                exp == *payload
            }
            _ => false,
        }
    }
    fn canon(&self, out: &mut Vec<u8>) {
        for s in &self.slots {
            out.extend_from_slice(&s.so.to_be_bytes());
            out.push(s.idle as u8);
            if !s.idle {
                out.extend_from_slice(&s.mask[0].to_be_bytes());
                out.extend_from_slice(&s.mask[1].to_be_bytes());
                let o = |x: Option<usize>| (x.map(|v| v as u32 + 1).unwrap_or(0)).to_be_bytes();
                out.extend_from_slice(&o(s.win));
                out.extend_from_slice(&o(s.fin));
                out.extend_from_slice(&o(s.exp));
                out.extend_from_slice(&o(s.last_off.map(|v| v as usize)));
            }
            out.push(s.buf.len() as u8);
            for &(a, b, p) in &s.buf {
                out.extend_from_slice(&a.to_be_bytes());
                out.extend_from_slice(&b.to_be_bytes());
                out.push(p);
            }
        }
    }
}

fn hash128(bytes: &[u8]) -> u128 {
    let h1 = vpc::fnv64(bytes);
    // second, independent 64-bit hash (different basis, multiply-xorshift per byte, final avalanche)
    let mut h2: u64 = 0x9e3779b97f4a7c15 ^ (bytes.len() as u64);
    for &b in bytes {
        h2 = (h2 ^ b as u64).wrapping_mul(0xff51afd7ed558ccd);
        h2 ^= h2 >> 29;
    }
    h2 = (h2 ^ (h2 >> 33)).wrapping_mul(0xc4ceb9fe1a85ec53);
    h2 ^= h2 >> 32;
    ((h1 as u128) << 64) | h2 as u128
}

// ---------------------------------------------------------------------------------------------
// breadth-first exploration
// ---------------------------------------------------------------------------------------------
const MAXD: usize = 12;
#[derive(Clone, Copy)]
struct Node {
    hist: [u8; MAXD],
    len: u8,
    mon: Mon,
    diverged: bool,
}
impl Node {
    fn h(&self) -> &[u8] {
        &self.hist[..self.len as usize]
    }
}
struct Succ {
    key: u128,
    node: Node,
}
#[derive(Default)]
struct Expanded {
    succ: Vec<Succ>,
    merged_known: u64,
    outcomes: BTreeMap<String, u64>,
    /// class -> (count, first: what, history, detail)
    viols: BTreeMap<String, (u64, String, Vec<u8>, Value)>,
    executed: u64,
    divergences: u64,
    /// first history in which an emitted packet contained bytes of ANOTHER (earlier) packet
    first_earlier: Option<Vec<u8>>,
    /// first history whose last result differs from the mirror's prediction
    first_div: Option<String>,
}

#[derive(Clone, Copy)]
struct Mode {
    depth: usize,
    /// None: all sequences over the full alphabet; Some(n): at most n hostile deliveries per history
    max_hostile: Option<u8>,
    audit_depth: usize,
    name: &'static str,
}

#[derive(Default)]
struct Totals {
    states: u64,
    transitions: u64,
    executed: u64,
    mem_checks: u64,
    audits: u64,
    audit_failures: u64,
    divergences: u64,
    capped: bool,
    seen_classes: HashSet<String>,
    earlier_packet_witness: Option<Value>,
    first_divergence: Option<String>,
    stopped_on_leak: bool,
    per_run: Vec<Value>,
}

const CHUNK: usize = 1 << 14;
/// Safety valve: states that can no longer be merged (mirror diverged — only under a changed
/// subject) grow like A^d; beyond this many per level they are not expanded further.
const UNMERGED_CAP: usize = 20_000;

fn key_of(mirror: &Mirror, mon: &Mon, budget: bool) -> u128 {
    let mut b = Vec::with_capacity(160);
    mirror.canon(&mut b);
    mon.canon(budget, &mut b);
    hash128(&b)
}
fn hist_key(h: &[u8]) -> u128 {
    let mut b = Vec::with_capacity(h.len() + 1);
    b.push(0xEE);
    b.extend_from_slice(h);
    // disjoint from mirror keys with overwhelming probability; mark by flipping the top bit pattern
    hash128(&b) ^ (0xD1u128 << 120)
}

fn expand(ctx: &Ctx, mode: &Mode, node: &Node, visited: &HashSet<u128>, prefilter: bool) -> Expanded {
    let mut ex = Expanded::default();
    let frames = &ctx.frames;
    let q = ctx.cfg.q;
    let budget = mode.max_hostile.is_some();
    let mut mirror = Mirror::new(q);
    for &i in node.h() {
        let _ = mirror.recv(&frames[i as usize]);
    }
    let mut hist = node.hist;
    let n = node.len as usize;
    for (fi, f) in frames.iter().enumerate() {
        if let Some(maxh) = mode.max_hostile
            && f.honest.is_none()
            && node.mon.hostile >= maxh
        {
            continue;
        }
        hist[n] = fi as u8;
        let h = &hist[..n + 1];
        let out = exec_last(q, frames, h);
        ex.executed += 1;
        *ex.outcomes.entry(outcome_class(f, &out)).or_default() += 1;
        let mut mon = node.mon;
        let refs: Vec<&Frame> = h.iter().map(|&i| &frames[i as usize]).collect();
        let mut notes = vec![];
        let vs = judge(ctx, &mut mon, &refs, &out, &mut notes);
        for n in notes {
            if n == "emit:contains-bytes-of-an-earlier-packet" && ex.first_earlier.is_none() {
                ex.first_earlier = Some(h.to_vec());
            }
            *ex.outcomes.entry(n.to_string()).or_default() += 1;
        }
        for v in vs {
            let e = ex.viols.entry(v.class).or_insert((0, v.what, h.to_vec(), v.detail));
            e.0 += 1;
        }
        let mut m2 = mirror.clone();
        let pred = m2.recv(f);
        let ok = m2.faithful(&pred, f, &out);
        if !ok {
            if ex.first_div.is_none() {
                let pd = match &pred {
                    Pred::EmitFrame => "emit the frame's own payload".to_string(),
                    Pred::EmitSlot(i, n) => format!("emit {n} bytes from slot {i}"),
                    Pred::None => "Ok(None)".to_string(),
                    Pred::Err(l) => format!("Err({l})"),
                };
                ex.first_div = Some(format!(
                    "mtu {} Q {} history [{}]: real result {}, documented-behaviour mirror predicted {pd}{}",
                    ctx.cfg.mtu,
                    q,
                    refs.iter().map(|f| f.name.as_str()).collect::<Vec<_>>().join(" , "),
                    out.short(),
                    if matches!((&pred, &out), (Pred::EmitSlot(..), Out::Emit { .. })) { " (or different bytes)" } else { "" }
                ));
            }
            ex.divergences += 1;
            *ex.outcomes.entry("mirror-divergence(no-merge)".into()).or_default() += 1;
        }
        let diverged = node.diverged || !ok;
        let key = if diverged { hist_key(h) } else { key_of(&m2, &mon, budget) };
        if prefilter && visited.contains(&key) {
            ex.merged_known += 1;
        } else {
            ex.succ.push(Succ { key, node: Node { hist, len: (n + 1) as u8, mon, diverged } });
        }
    }
    ex
}

fn witness(ctx: &Ctx, mode: &Mode, hist: &[u8], detail: &Value) -> Value {
    let fr: Vec<&Frame> = hist.iter().map(|&i| &ctx.frames[i as usize]).collect();
    let outs = exec_all(ctx.cfg.q, &fr);
    json!({
        "scenario": "bfs", "mode": mode.name,
        "mtu": ctx.cfg.mtu, "window": ctx.w, "size_variant": ctx.cfg.variant.to_string(), "queues": ctx.cfg.q,
        "honest_packets": ctx.pkts.iter().map(|p| json!({"pid": p.pid, "stream_offset": p.so.to_string(), "size": p.data.len(), "frames": p.nframes})).collect::<Vec<_>>(),
        "stream_offset_pids": ctx.so_pid.iter().map(|(s, p)| json!([s.to_string(), p])).collect::<Vec<_>>(),
        "history": fr.iter().map(|f| f.name.clone()).collect::<Vec<_>>(),
        "frames": fr.iter().map(|f| frame_json(f)).collect::<Vec<_>>(),
        "results": outs.iter().map(|o| o.short()).collect::<Vec<_>>(),
        "detail": detail,
    })
}

fn report(run: &vpc::Run, ctx: &Ctx, mode: &Mode, tot: &mut Totals, class: &str, n: u64, what: &str, hist: &[u8], detail: &Value) {
    // the witness (which re-executes the history) is only built for the first case of a class
    if tot.seen_classes.insert(class.to_string()) {
        let names = hist.iter().map(|&i| ctx.frames[i as usize].name.as_str()).collect::<Vec<_>>().join(" , ");
        run.violation(class, &format!("{what}  [mtu {} Q {} history: {names}]", ctx.cfg.mtu, ctx.cfg.q), witness(ctx, mode, hist, detail));
    } else {
        run.violation(class, "", Value::Null);
    }
    for _ in 1..n {
        run.violation(class, "", Value::Null);
    }
}

fn explore(run: &vpc::Run, ctx: &Ctx, mode: Mode, tot: &mut Totals) {
    let t0 = run.elapsed_s();
    let mut visited: HashSet<u128> = HashSet::new();
    let mut reps: HashMap<u128, Vec<u8>> = HashMap::new();
    let root = Node { hist: [0; MAXD], len: 0, mon: Mon::default(), diverged: false };
    visited.insert(key_of(&Mirror::new(ctx.cfg.q), &root.mon, mode.max_hostile.is_some()));
    let mut frontier = vec![root];
    let mut transitions = 0u64;
    let mut executed = 0u64;
    let mut per_level = vec![];
    let mut capped = false;
    let mut phase = [0f64; 4];
    let mut outcomes: BTreeMap<String, u64> = BTreeMap::new();
    for level in 0..mode.depth {
        let mut next: Vec<Node> = vec![];
        let mut unmerged_next = 0usize;
        let mut audit_jobs: Vec<(Vec<u8>, Node)> = vec![];
        let prefilter = level + 1 > mode.audit_depth;
        for chunk in frontier.chunks(CHUNK) {
            let tp = std::time::Instant::now();
            let exs: Vec<Expanded> = chunk.par_iter().map(|nd| expand(ctx, &mode, nd, &visited, prefilter)).collect();
            phase[0] += tp.elapsed().as_secs_f64();
            let tp = std::time::Instant::now();
            for ex in exs {
                executed += ex.executed;
                tot.divergences += ex.divergences;
                if tot.first_divergence.is_none() {
                    tot.first_divergence = ex.first_div.clone();
                }
                transitions += ex.succ.len() as u64 + ex.merged_known;
                for (c, n) in &ex.outcomes {
                    match outcomes.get_mut(c) {
                        Some(x) => *x += *n,
                        None => {
                            outcomes.insert(c.clone(), *n);
                        }
                    }
                }
                if let (Some(h), None) = (&ex.first_earlier, &tot.earlier_packet_witness) {
                    tot.earlier_packet_witness = Some(witness(ctx, &mode, h, &json!("emitted packet contains bytes of an earlier packet that used the slot")));
                }
                for (class, (n, what, hist, detail)) in &ex.viols {
                    report(run, ctx, &mode, tot, class, *n, what, hist, detail);
                }
                for s in ex.succ {
                    let new = visited.insert(s.key);
                    if !new {
                        if !s.node.diverged && s.node.len as usize <= mode.audit_depth && let Some(rep) = reps.get(&s.key) {
                            audit_jobs.push((rep.clone(), s.node));
                        }
                        continue;
                    }
                    if s.node.len as usize <= mode.audit_depth {
                        reps.insert(s.key, s.node.h().to_vec());
                    }
                    if s.node.diverged {
                        unmerged_next += 1;
                        if unmerged_next > UNMERGED_CAP {
                            capped = true;
                            continue;
                        }
                    }
                    next.push(s.node);
                }
            }
            phase[1] += tp.elapsed().as_secs_f64();
        }
        let tp = std::time::Instant::now();
        // merge audits on the real object: every one-frame extension of the merged history and of
        // the representative of its key must give the identical result (incl. emitted bytes)
        let bad: Vec<usize> = audit_jobs
            .par_iter()
            .enumerate()
            .filter(|(_, (rep, nd))| {
                (0..ctx.frames.len()).any(|fi| {
                    let mut a = rep.clone();
                    a.push(fi as u8);
                    let mut b = nd.h().to_vec();
                    b.push(fi as u8);
                    exec_last(ctx.cfg.q, &ctx.frames, &a) != exec_last(ctx.cfg.q, &ctx.frames, &b)
                })
            })
            .map(|(i, _)| i)
            .collect();
        tot.audits += audit_jobs.len() as u64;
        executed += 2 * (ctx.frames.len() * audit_jobs.len()) as u64;
        for i in bad {
            tot.audit_failures += 1;
            run.outcome("merge-audit-failed(no-merge)");
            let mut nd = audit_jobs[i].1;
            nd.diverged = true;
            if visited.insert(hist_key(nd.h())) {
                next.push(nd);
            }
        }
        phase[2] += tp.elapsed().as_secs_f64();
        let tp = std::time::Instant::now();
        // memory oracle on every newly discovered state (its representative history)
        let mem: Vec<(usize, String, Value)> = next
            .par_iter()
            .enumerate()
            .filter_map(|(i, nd)| memory_check(ctx.cfg.q, &ctx.frames, nd.h()).err().map(|(c, d)| (i, c, d)))
            .collect();
        executed += 2 * next.len() as u64;
        tot.mem_checks += next.len() as u64;
        let leaking = !mem.is_empty();
        for (i, class, detail) in mem {
            let h = next[i].h().to_vec();
            report(run, ctx, &mode, tot, &class, 1, "live heap bytes changed while replaying the history on one Defragmenter", &h, &detail);
        }
        if leaking {
            // a subject that leaks would make this process grow without bound: stop this exploration
            // (the violation is recorded; the bound is reported as not completed)
            capped = true;
            tot.stopped_on_leak = true;
            per_level.push(json!({"depth": level + 1, "new_states": next.len(), "stopped": "memory growth found"}));
            break;
        }
        phase[3] += tp.elapsed().as_secs_f64();
        if !next.is_empty() {
            // a written-out case per depth: the representative history of a newly found state
            let nd = &next[next.len() / 2];
            run.sample(16, || {
                let fr: Vec<&Frame> = nd.h().iter().map(|&i| &ctx.frames[i as usize]).collect();
                json!({"mtu": ctx.cfg.mtu, "queues": ctx.cfg.q, "mode": mode.name,
                    "history": fr.iter().map(|f| f.name.clone()).collect::<Vec<_>>(),
                    "results": exec_all(ctx.cfg.q, &fr).iter().map(|o| o.short()).collect::<Vec<_>>()})
            });
        }
        per_level.push(json!({"depth": level + 1, "new_states": next.len()}));
        frontier = next;
        if frontier.is_empty() {
            break;
        }
    }
    for (c, n) in &outcomes {
        run.outcome_n(c, *n);
    }
    let states_total = visited.len() as u64;
    tot.states += states_total;
    tot.transitions += transitions;
    tot.executed += executed;
    tot.capped |= capped;
    tot.per_run.push(json!({
        "mode": mode.name, "mtu": ctx.cfg.mtu, "variant": ctx.cfg.variant.to_string(), "queues": ctx.cfg.q, "alphabet": ctx.frames.len(),
        "depth": mode.depth, "max_hostile": mode.max_hostile, "states": states_total, "transitions": transitions,
        "histories_executed": executed, "new_states_per_depth": per_level, "capped": capped, "wall_s": ((run.elapsed_s() - t0) * 10.0).round() / 10.0,
        "wall_s_by_phase": {"expand_parallel": (phase[0] * 10.0).round() / 10.0, "merge_sequential": (phase[1] * 10.0).round() / 10.0, "merge_audits": (phase[2] * 10.0).round() / 10.0, "memory_oracle": (phase[3] * 10.0).round() / 10.0},
    }));
}

// ---------------------------------------------------------------------------------------------
// linear scenario: 65535-byte packets at the minimum MTU (256 frames)
// ---------------------------------------------------------------------------------------------
fn linear_frames() -> (Vec<Vec<u8>>, Vec<Vec<Vec<u8>>>) {
    let mut fr = Fragmenter::new_unobserved(MIN_MTU);
    let mut pk = vec![];
    let mut fs = vec![];
    for k in 0..2u8 {
        let data: Vec<u8> = (0..MAX_PACKET_SIZE).map(|p| tag(k, p)).collect();
        let mut got = vec![];
        let _ = fr.send(&data, |f| got.push(f.to_vec()));
        pk.push(data);
        fs.push(got);
    }
    (pk, fs)
}
fn linear_order(name: &str, n: usize) -> Vec<(usize, usize)> {
    // (packet, frame index)
    match name {
        "in-order" => (0..n).map(|i| (0, i)).collect(),
        "reverse" => (0..n).rev().map(|i| (0, i)).collect(),
        "evens-up-odds-down" => (0..n).step_by(2).chain((0..n).filter(|i| i % 2 == 1).rev()).map(|i| (0, i)).collect(),
        "two-packets-alternating" => (0..n).flat_map(|i| [(0, i), (1, n - 1 - i)]).collect(),
        "two-packets-sequential-reverse-second" => (0..n).map(|i| (0, i)).chain((0..n).rev().map(|i| (1, i))).collect(),
        "in-order-then-all-duplicated" => (0..n).chain(0..n).map(|i| (0, i)).collect(),
        _ => vec![],
    }
}
const LINEAR: &[(&str, usize)] = &[
    ("in-order", 1),
    ("reverse", 1),
    ("evens-up-odds-down", 1),
    ("two-packets-alternating", 2),
    ("two-packets-sequential-reverse-second", 1),
    ("in-order-then-all-duplicated", 1),
];
/// Returns (violations, log lines).
fn linear_run(name: &str, q: usize) -> (Vec<Viol>, Vec<String>, u64) {
    let (pk, fs) = linear_frames();
    let mut v = vec![];
    let mut log = vec![];
    let n = fs[0].len();
    if n != 256 || fs[1].len() != 256 {
        v.push(Viol { note: None, class: "linear:frame-count".into(), what: format!("65535 bytes at MIN_MTU gave {n} frames, expected 256"), detail: json!({}) });
        return (v, log, 0);
    }
    let order = linear_order(name, n);
    let mut d = new_defrag(q);
    let mut seen = [vec![false; n], vec![false; n]];
    let mut emitted = [0u32; 2];
    for (step, &(k, i)) in order.iter().enumerate() {
        let r = vpc::catch(|| recv_one(&mut d, &fs[k][i]));
        let out = match r {
            Ok(o) => o,
            Err(m) => {
                let loc = vpc::last_panic_location();
                v.push(Viol { note: None, class: format!("panic@{loc}"), what: format!("linear {name}: recv panicked: {m}"), detail: json!({"step": step}) });
                break;
            }
        };
        let first_time = !seen[k][i];
        seen[k][i] = true;
        let completes = first_time && seen[k].iter().all(|b| *b) && emitted[k] == 0;
        match &out {
            Out::Emit { so, payload } => {
                let j = if *so == 0 { 0 } else { 1 };
                log.push(format!("step {step}: frame P{k}.{i} -> {}", out.short()));
                emitted[j] += 1;
                if *so != (j * MAX_PACKET_SIZE) as u64 || *payload != pk[j] {
                    let bad = payload.iter().zip(&pk[j]).filter(|(a, b)| a != b).count();
                    v.push(Viol { note: None, class: "linear:emitted-not-identical-to-sent".into(), what: format!("linear {name}: emitted packet differs from the sent one in {bad} bytes (len {})", payload.len()), detail: json!({"step": step}) });
                }
                if emitted[j] > 1 {
                    v.push(Viol { note: None, class: "linear:emitted-twice".into(), what: format!("linear {name}: packet {j} emitted {} times", emitted[j]), detail: json!({"step": step}) });
                }
                if !completes || j != k {
                    v.push(Viol { note: None, class: "linear:emitted-early".into(), what: format!("linear {name}: packet {j} emitted at step {step} before its last missing frame"), detail: json!({"step": step}) });
                }
            }
            _ if completes => {
                v.push(Viol { note: None, class: "linear:not-emitted-on-completion".into(), what: format!("linear {name}: last missing frame of packet {k} delivered at step {step}, result {}", out.short()), detail: json!({"step": step}) });
            }
            _ => {}
        }
    }
    log.push(format!("emitted counts: {emitted:?}"));
    (v, log, order.len() as u64)
}

// ---------------------------------------------------------------------------------------------
// replay
// ---------------------------------------------------------------------------------------------
fn replay(path: &std::path::Path) -> ! {
    let v = vpc::read_replay(path);
    let w = &v["witness"];
    println!("replay of class [{}]: {}", v["class"].as_str().unwrap_or("?"), v["what"].as_str().unwrap_or(""));
    let mut nviol = 0;
    if w["scenario"] == "linear" {
        let name = w["order"].as_str().unwrap_or("");
        let q = w["queues"].as_u64().unwrap_or(1) as usize;
        let (viols, log, _) = linear_run(name, q);
        for l in log {
            println!("  {l}");
        }
        for x in &viols {
            println!("  VIOLATION [{}] {}", x.class, x.what);
        }
        nviol = viols.len();
    } else {
        let q = w["queues"].as_u64().unwrap_or(1) as usize;
        let mtu = w["mtu"].as_u64().unwrap_or(MIN_MTU as u64) as usize;
        let frames: Vec<Frame> = w["frames"].as_array().map(|a| a.iter().map(frame_from_json).collect()).unwrap_or_default();
        let pkts: Vec<Pkt> = w["honest_packets"]
            .as_array()
            .map(|a| {
                a.iter()
                    .map(|p| {
                        let pid = p["pid"].as_u64().unwrap() as u8;
                        let size = p["size"].as_u64().unwrap() as usize;
                        Pkt { pid, so: p["stream_offset"].as_str().unwrap().parse().unwrap(), data: (0..size).map(|i| tag(pid, i)).collect(), nframes: p["frames"].as_u64().unwrap() as usize }
                    })
                    .collect()
            })
            .unwrap_or_default();
        let so_pid: Vec<(u64, u8)> = w["stream_offset_pids"].as_array().map(|a| a.iter().map(|e| (e[0].as_str().unwrap().parse().unwrap(), e[1].as_u64().unwrap() as u8)).collect()).unwrap_or_default();
        let ctx = Ctx { cfg: Cfg { mtu, variant: '?', q }, w: mtu - HDR, frames: frames.clone(), pkts, so_pid, build_problems: vec![] };
        let refs: Vec<&Frame> = frames.iter().collect();
        let outs = exec_all(q, &refs);
        let mut mon = Mon::default();
        println!("fresh Defragmenter with {q} queue(s), window {} bytes", ctx.w);
        for (i, out) in outs.iter().enumerate() {
            let f = &frames[i];
            let desc = match f.hdr {
                Some(h) => format!("stream_offset={} frame_offset={} last={} payload_len={} (pid {})", h.so, h.off, h.last(), f.len, f.pid),
                None => format!("{} raw bytes", f.raw.len()),
            };
            println!("  step {}: deliver {:<22} {desc}\n           -> {}", i + 1, f.name, out.short());
            for x in judge(&ctx, &mut mon, &refs[..=i], out, &mut vec![]) {
                println!("           VIOLATION [{}] {}\n           {}", x.class, x.what, x.detail);
                nviol += 1;
            }
        }
        let idx: Vec<u8> = (0..frames.len() as u8).collect();
        if let Err((class, detail)) = memory_check(q, &frames, &idx) {
            println!("  VIOLATION [{class}] {detail}");
            nviol += 1;
        }
    }
    println!("replay verdict: {}", if nviol > 0 { format!("{nviol} violation(s) reproduced") } else { "no violation".into() });
    std::process::exit(if nviol > 0 { 1 } else { 0 })
}

// ---------------------------------------------------------------------------------------------
pub fn run(args: &vpc::Args) -> ! {
    vpc::quiet_panics();
    // Every history runs on a fresh Defragmenter (Q x 64 KiB buffers): keep freed memory inside the
    // allocator instead of returning it to the kernel and faulting it in again for the next history.
    unsafe {
        libc::mallopt(libc::M_TRIM_THRESHOLD, 1 << 30);
        libc::mallopt(libc::M_MMAP_THRESHOLD, 32 << 20);
        libc::mallopt(libc::M_TOP_PAD, 8 << 20);
    }
    if let Some(p) = &args.replay {
        replay(p);
    }
    let run = vpc::Run::new(args);
    let thorough = run.tier == vpc::Tier::Thorough;
    let mut tot = Totals::default();

    // ---- linear scenario --------------------------------------------------------------------
    let mut linear_frames_delivered = 0u64;
    for (name, q) in LINEAR {
        let (viols, _log, n) = linear_run(name, *q);
        linear_frames_delivered += n;
        run.outcome(if viols.is_empty() { "linear:emitted-exactly-once-at-completion" } else { "linear:violation" });
        for x in viols {
            run.violation(&x.class, &x.what, json!({"scenario": "linear", "order": name, "queues": q, "detail": x.detail}));
        }
    }

    // ---- explorations -----------------------------------------------------------------------
    let mtus = [MIN_MTU, MIN_MTU + 1, 1500, MAX_MTU];
    let mut cfgs: Vec<Cfg> = vec![];
    for (mi, &mtu) in mtus.iter().enumerate() {
        let variants: Vec<char> = if thorough { vec!['A', 'B', 'C'] } else { vec![['A', 'B', 'C', 'A'][mi]] };
        for variant in variants {
            for q in [1, 2] {
                cfgs.push(Cfg { mtu, variant, q });
            }
        }
    }
    // bounds (tuning overrides for experiments: C17_FULL_Q1, C17_FULL_Q2, C17_BUDGET_DEPTH, C17_BUDGET_HOSTILE)
    let envn = |k: &str, d: usize| std::env::var(k).ok().and_then(|v| v.parse().ok()).unwrap_or(d);
    let full_depth = [envn("C17_FULL_Q1", run.tier.pick(6, 10)), envn("C17_FULL_Q2", run.tier.pick(6, 9))];
    let budget = Mode {
        depth: envn("C17_BUDGET_DEPTH", run.tier.pick(7, 10)),
        max_hostile: Some(envn("C17_BUDGET_HOSTILE", run.tier.pick(1, 2)) as u8),
        audit_depth: 2,
        name: "hostile-budget",
    };
    if full_depth.iter().any(|d| *d >= MAXD) || budget.depth >= MAXD {
        vpc::machinery_failure("depth bound too large");
    }
    let mut alphabet = 0;
    for cfg in &cfgs {
        let ctx = build_ctx(*cfg, thorough);
        alphabet = ctx.frames.len();
        for p in &ctx.build_problems {
            run.violation("fragmenter:unexpected-honest-frames", p, json!({"scenario": "build", "mtu": cfg.mtu, "variant": cfg.variant.to_string()}));
        }
        run.sample(1, || json!({"mtu": cfg.mtu, "queues": cfg.q, "alphabet": ctx.frames.iter().map(|f| f.name.clone()).collect::<Vec<_>>(),
            "honest_packet_sizes": ctx.pkts.iter().map(|p| p.data.len()).collect::<Vec<_>>()}));
        // quick: the deepest Q=2 run only at the minimum MTU (cost)
        let d = if !thorough && cfg.q == 2 && cfg.mtu != MIN_MTU { full_depth[1] - 1 } else { full_depth[cfg.q - 1] };
        let full = Mode { depth: d, max_hostile: None, audit_depth: 3, name: "all-sequences" };
        explore(&run, &ctx, full, &mut tot);
        explore(&run, &ctx, budget, &mut tot);
        eprintln!("[c17] {:?} done at {:.1}s (states so far {}, executed {})", cfg, run.elapsed_s(), tot.states, tot.executed);
    }

    // shows that the allocation counter sees the subject's buffers (Q x 65535 bytes + the queue vector)
    let live_probe: Vec<i64> = [1usize, 2]
        .iter()
        .map(|&q| {
            let b = live();
            let d = new_defrag(q);
            let l = live() - b;
            drop(d);
            l
        })
        .collect();
    let exhaustive = !tot.capped;
    if tot.capped && run.violation_count() == 0 {
        // The subject no longer behaves like the documented slot machine the de-duplication relies
        // on; unmerged states were cut off, so the stated bound was NOT completed and no violation
        // was seen in the explored part: this is not a verdict.
        vpc::machinery_failure(&format!(
            "C17: the real Defragmenter diverged from the harness mirror {} times (merge audits failed: {}); first: {}. \
             States could not be merged and the exploration was cut off before the bound; no property violation was seen in the explored part. \
             Update the mirror in vp-edgetun/src/c17.rs to the new behaviour.",
            tot.divergences,
            tot.audit_failures,
            tot.first_divergence.clone().unwrap_or_default()
        ));
    }
    let bound = format!(
        "{} configurations (MTU {{{},{},1500,{}}} x packet-size variants x Q {{1,2}}), alphabet {} frames (8 honest of 4 packets with 1/2/3/2 frames + hostile); \
         ALL delivery sequences with repetition up to length {} (Q=1) / {} (Q=2{}) over the full alphabet, and up to length {} with at most {} hostile deliveries; \
         plus 6 linear 65535-byte/256-frame orders",
        cfgs.len(), MIN_MTU, MIN_MTU + 1, MAX_MTU, alphabet, full_depth[0], full_depth[1],
        if thorough { String::new() } else { format!(" at MTU {MIN_MTU}, {} at the other MTUs", full_depth[1] - 1) },
        budget.depth, budget.max_hostile.unwrap()
    );
    let cov = json!({
        "states": tot.states,
        "transitions": tot.transitions,
        "traces_validated_against_impl": tot.executed + LINEAR.len() as u64,
        "linear_frames_delivered": linear_frames_delivered,
        "exhaustive": exhaustive,
        "bound": bound,
        "state_key": "128-bit hash of (mirror slot state incl. buffer provenance intervals, honest-monitor state); mirror checked against the real result on every transition",
        "mirror_divergences": tot.divergences,
        "first_mirror_divergence": tot.first_divergence,
        "merge_audits": tot.audits,
        "merge_audit_failures": tot.audit_failures,
        "unmerged_state_cap_hit": tot.capped && !tot.stopped_on_leak,
        "stopped_because_subject_leaks_memory": tot.stopped_on_leak,
        "memory_oracle_states_checked": tot.mem_checks,
        "live_heap_bytes_of_a_defragmenter_q1_q2": live_probe,
        "first_witness_with_bytes_of_an_earlier_packet": tot.earlier_packet_witness,
        "runs": tot.per_run,
    });
    run.finish(
        "model_checking",
        cov,
        &[
            "hostile frames are the listed field mutations (not arbitrary byte strings); packet identity = stream offset",
            "stale bytes are recognised by value: tags are non-zero and differ between packets at every position; bytes of an earlier incarnation of the SAME stream offset are not distinguished",
            "'no eviction can be due' = at most Q multi-frame packets incomplete or re-touched after completion at any time of an honest-only history",
            "memory oracle counts heap bytes of the calling thread; lazily created per-error-label metric children are warmed up by a dry run (bounded by the number of labels)",
            "merged states: equal mirror key => equal futures holds if the mirror is faithful; checked per transition (all emitted bytes) and by shallow merge audits on the real object",
        ],
    )
}
