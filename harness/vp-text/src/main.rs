mod c15;

fn main() {
    let args = vpc::Args::parse();
    match args.prop.as_str() {
        "C15" => c15::run(&args),
        p => vpc::machinery_failure(&format!("property {p} is not served by this binary")),
    }
}
