//! C15 - address and identifier text forms round-trip, reject the rest, never panic.
//!
//! Bounded exhaustive enumeration, two spaces:
//!  (a) VALUES: every value of the stated value sets of every text-form type is displayed by the
//!      real code, parsed back by the real code (FromStr and, where the type has one, its serde
//!      string form) and must come back unchanged. TXT records with 1-3 entries likewise.
//!  (b) STRINGS: every string of length <= L over a 15-character alphabet, every single-character
//!      edit of every displayed form of a reduced value set, bracket mismatches, numeric overflow
//!      forms, TXT record edits - each into EVERY parser. Oracle: no panic, and a string is accepted
//!      only if the independent recogniser below (`reference`) accepts it with the same value.
//!
//! The recogniser implements the DOCUMENTED grammar: the displayed forms plus the documented
//! alternative spellings (decimal AS below 2^32, `\d+` ISD, hex groups `1*HEXDIG` with value
//! <= 0xffff, `CS|DS|Wildcard` with optional `_A`/`_M`, whitespace between TXT entries). The host
//! part uses std's `Ipv4Addr`/`Ipv6Addr` parsers (documentation is silent, std defines it).
//! Every accepted string outside that grammar is attributed to a minimal set of named
//! relaxations (`LAX`) - each relaxation is one narrow violation class - or reported as
//! `unexplained-accept-<parser>`.
use std::{
    cell::RefCell,
    collections::BTreeMap,
    net::{IpAddr, Ipv4Addr, Ipv6Addr},
    str::FromStr,
};

use scion_stack::resolver::txt::{verif_parse_txt_payload, verif_resolve_txt_records};
use sciparse::{
    address::{
        addr::{ScionAddr, ScionAddrSvc, ScionAddrV4, ScionAddrV6},
        host_addr::{ScionHostAddr, ServiceAddr},
        ip_addr::ScionIpAddr,
        ip_socket_addr::ScionSocketIpAddr,
        socket_addr::{ScionSocketAddr, ScionSocketAddrSvc, ScionSocketAddrV4, ScionSocketAddrV6},
    },
    identifier::{asn::Asn, isd::Isd, isd_asn::IsdAsn},
};
use vpc::{Value, json, rayon::prelude::*};

// ---------------------------------------------------------------------------------------------
// canonical values (harness-side, independent of the subject's types)
// ---------------------------------------------------------------------------------------------

#[derive(Clone, Copy, PartialEq, Eq, Debug, PartialOrd, Ord)]
enum Host {
    V4(u32),
    V6(u128),
    Svc(u16),
}

#[derive(Clone, PartialEq, Eq, Debug)]
enum Val {
    Isd(u16),
    Asn(u64),
    Ia(u64),
    Host(Host),
    Addr(u64, Host),
    Sock(u64, Host, u16),
    List(Vec<(u64, Host)>),
}

fn host_json(h: &Host) -> Value {
    match h {
        Host::V4(x) => json!({"v4": x}),
        Host::V6(x) => json!({"v6": format!("{x:032x}")}),
        Host::Svc(x) => json!({"svc": x}),
    }
}
fn host_from_json(v: &Value) -> Option<Host> {
    if let Some(x) = v.get("v4") {
        return Some(Host::V4(x.as_u64()? as u32));
    }
    if let Some(x) = v.get("v6") {
        return Some(Host::V6(u128::from_str_radix(x.as_str()?, 16).ok()?));
    }
    if let Some(x) = v.get("svc") {
        return Some(Host::Svc(x.as_u64()? as u16));
    }
    None
}
impl Val {
    fn to_json(&self) -> Value {
        match self {
            Val::Isd(x) => json!({"isd": x}),
            Val::Asn(x) => json!({"asn": x}),
            Val::Ia(x) => json!({"ia": x}),
            Val::Host(h) => json!({"host": host_json(h)}),
            Val::Addr(ia, h) => json!({"addr": {"ia": ia, "host": host_json(h)}}),
            Val::Sock(ia, h, p) => json!({"sock": {"ia": ia, "host": host_json(h), "port": p}}),
            Val::List(l) => json!({"list": l.iter().map(|(ia, h)| json!({"ia": ia, "host": host_json(h)})).collect::<Vec<_>>()}),
        }
    }
    fn from_json(v: &Value) -> Option<Val> {
        if let Some(x) = v.get("isd") {
            return Some(Val::Isd(x.as_u64()? as u16));
        }
        if let Some(x) = v.get("asn") {
            return Some(Val::Asn(x.as_u64()?));
        }
        if let Some(x) = v.get("ia") {
            return Some(Val::Ia(x.as_u64()?));
        }
        if let Some(x) = v.get("host") {
            return Some(Val::Host(host_from_json(x)?));
        }
        if let Some(x) = v.get("addr") {
            return Some(Val::Addr(x.get("ia")?.as_u64()?, host_from_json(x.get("host")?)?));
        }
        if let Some(x) = v.get("sock") {
            return Some(Val::Sock(x.get("ia")?.as_u64()?, host_from_json(x.get("host")?)?, x.get("port")?.as_u64()? as u16));
        }
        if let Some(x) = v.get("list") {
            let mut l = vec![];
            for e in x.as_array()? {
                l.push((e.get("ia")?.as_u64()?, host_from_json(e.get("host")?)?));
            }
            return Some(Val::List(l));
        }
        None
    }
}

fn h2s(h: &Host) -> ScionHostAddr {
    match h {
        Host::V4(x) => ScionHostAddr::V4(Ipv4Addr::from(*x)),
        Host::V6(x) => ScionHostAddr::V6(Ipv6Addr::from(*x)),
        Host::Svc(x) => ScionHostAddr::Svc(ServiceAddr(*x)),
    }
}
fn s2h(h: ScionHostAddr) -> Host {
    match h {
        ScionHostAddr::V4(x) => Host::V4(u32::from(x)),
        ScionHostAddr::V6(x) => Host::V6(u128::from(x)),
        ScionHostAddr::Svc(x) => Host::Svc(x.0),
    }
}
fn ip2h(ip: IpAddr) -> Host {
    match ip {
        IpAddr::V4(x) => Host::V4(u32::from(x)),
        IpAddr::V6(x) => Host::V6(u128::from(x)),
    }
}
fn h2ip(h: &Host) -> Option<IpAddr> {
    match h {
        Host::V4(x) => Some(IpAddr::V4(Ipv4Addr::from(*x))),
        Host::V6(x) => Some(IpAddr::V6(Ipv6Addr::from(*x))),
        Host::Svc(_) => None,
    }
}

// ---------------------------------------------------------------------------------------------
// the parsers under test
// ---------------------------------------------------------------------------------------------

#[derive(Clone, Copy, PartialEq, Eq, Debug, PartialOrd, Ord)]
#[repr(usize)]
enum P {
    Isd,
    Asn,
    IsdAsn,
    ServiceAddr,
    ScionHostAddr,
    ScionAddr,
    ScionAddrV4,
    ScionAddrV6,
    ScionAddrSvc,
    ScionIpAddr,
    ScionSocketAddr,
    ScionSocketAddrV4,
    ScionSocketAddrV6,
    ScionSocketAddrSvc,
    ScionSocketIpAddr,
    TxtPayload,
    TxtRecord,
}
const NP: usize = 17;
const ALL_P: [P; NP] = [
    P::Isd,
    P::Asn,
    P::IsdAsn,
    P::ServiceAddr,
    P::ScionHostAddr,
    P::ScionAddr,
    P::ScionAddrV4,
    P::ScionAddrV6,
    P::ScionAddrSvc,
    P::ScionIpAddr,
    P::ScionSocketAddr,
    P::ScionSocketAddrV4,
    P::ScionSocketAddrV6,
    P::ScionSocketAddrSvc,
    P::ScionSocketIpAddr,
    P::TxtPayload,
    P::TxtRecord,
];
impl P {
    fn name(self) -> &'static str {
        match self {
            P::Isd => "Isd",
            P::Asn => "Asn",
            P::IsdAsn => "IsdAsn",
            P::ServiceAddr => "ServiceAddr",
            P::ScionHostAddr => "ScionHostAddr",
            P::ScionAddr => "ScionAddr",
            P::ScionAddrV4 => "ScionAddrV4",
            P::ScionAddrV6 => "ScionAddrV6",
            P::ScionAddrSvc => "ScionAddrSvc",
            P::ScionIpAddr => "ScionIpAddr",
            P::ScionSocketAddr => "ScionSocketAddr",
            P::ScionSocketAddrV4 => "ScionSocketAddrV4",
            P::ScionSocketAddrV6 => "ScionSocketAddrV6",
            P::ScionSocketAddrSvc => "ScionSocketAddrSvc",
            P::ScionSocketIpAddr => "ScionSocketIpAddr",
            P::TxtPayload => "TxtPayload",
            P::TxtRecord => "TxtRecord",
        }
    }
    fn from_name(n: &str) -> Option<P> {
        ALL_P.iter().copied().find(|p| p.name() == n)
    }
    fn is_sock(self) -> bool {
        matches!(self, P::ScionSocketAddr | P::ScionSocketAddrV4 | P::ScionSocketAddrV6 | P::ScionSocketAddrSvc | P::ScionSocketIpAddr)
    }
    /// Which hosts the type admits.
    fn host_kind(self) -> HK {
        match self {
            P::ScionAddrV4 | P::ScionSocketAddrV4 => HK::V4,
            P::ScionAddrV6 | P::ScionSocketAddrV6 => HK::V6,
            P::ScionAddrSvc | P::ScionSocketAddrSvc | P::ServiceAddr => HK::Svc,
            P::ScionIpAddr | P::ScionSocketIpAddr | P::TxtPayload | P::TxtRecord => HK::Ip,
            _ => HK::Any,
        }
    }
}

#[derive(Clone, Copy, PartialEq, Eq)]
enum HK {
    Any,
    V4,
    V6,
    Svc,
    Ip,
}
impl HK {
    fn admits(self, h: &Host) -> bool {
        match (self, h) {
            (HK::Any, _) => true,
            (HK::V4, Host::V4(_)) | (HK::V6, Host::V6(_)) | (HK::Svc, Host::Svc(_)) => true,
            (HK::Ip, Host::V4(_)) | (HK::Ip, Host::V6(_)) => true,
            _ => false,
        }
    }
}

/// A text-form type of the subject: conversion to/from the harness value, serde string form.
trait Subject: Sized + std::fmt::Display + FromStr {
    fn to_val(&self) -> Val;
    fn from_val(v: &Val) -> Option<Self>;
    /// serde_json serialisation, `None` when the type has no serde form.
    fn ser(&self) -> Option<String>;
    /// serde_json deserialisation; outer `None` when the type has no serde form.
    fn de(json: &str) -> Option<Option<Self>>;
}

macro_rules! serde_yes {
    ($T:ty) => {
        fn ser(&self) -> Option<String> {
            Some(vpc::serde_json::to_string(self).unwrap_or_else(|e| format!("<serialize error {e}>")))
        }
        fn de(json: &str) -> Option<Option<Self>> {
            Some(vpc::serde_json::from_str::<$T>(json).ok())
        }
    };
}

impl Subject for Isd {
    fn to_val(&self) -> Val {
        Val::Isd(self.0)
    }
    fn from_val(v: &Val) -> Option<Self> {
        if let Val::Isd(x) = v { Some(Isd(*x)) } else { None }
    }
    serde_yes!(Isd);
}
impl Subject for Asn {
    fn to_val(&self) -> Val {
        Val::Asn(self.0)
    }
    fn from_val(v: &Val) -> Option<Self> {
        if let Val::Asn(x) = v { Some(Asn(*x)) } else { None }
    }
    serde_yes!(Asn);
}
impl Subject for IsdAsn {
    fn to_val(&self) -> Val {
        Val::Ia(self.0)
    }
    fn from_val(v: &Val) -> Option<Self> {
        if let Val::Ia(x) = v { Some(IsdAsn(*x)) } else { None }
    }
    serde_yes!(IsdAsn);
}
impl Subject for ServiceAddr {
    fn to_val(&self) -> Val {
        Val::Host(Host::Svc(self.0))
    }
    fn from_val(v: &Val) -> Option<Self> {
        if let Val::Host(Host::Svc(x)) = v { Some(ServiceAddr(*x)) } else { None }
    }
    fn ser(&self) -> Option<String> {
        None
    }
    fn de(_: &str) -> Option<Option<Self>> {
        None
    }
}
impl Subject for ScionHostAddr {
    fn to_val(&self) -> Val {
        Val::Host(s2h(*self))
    }
    fn from_val(v: &Val) -> Option<Self> {
        if let Val::Host(h) = v { Some(h2s(h)) } else { None }
    }
    serde_yes!(ScionHostAddr);
}
impl Subject for ScionAddr {
    fn to_val(&self) -> Val {
        Val::Addr(self.isd_asn().0, s2h(self.host()))
    }
    fn from_val(v: &Val) -> Option<Self> {
        if let Val::Addr(ia, h) = v { Some(ScionAddr::new(IsdAsn(*ia), h2s(h))) } else { None }
    }
    serde_yes!(ScionAddr);
}
impl Subject for ScionAddrV4 {
    fn to_val(&self) -> Val {
        Val::Addr(self.isd_asn.0, Host::V4(u32::from(self.host)))
    }
    fn from_val(v: &Val) -> Option<Self> {
        if let Val::Addr(ia, Host::V4(x)) = v { Some(ScionAddrV4::new(IsdAsn(*ia), Ipv4Addr::from(*x))) } else { None }
    }
    serde_yes!(ScionAddrV4);
}
impl Subject for ScionAddrV6 {
    fn to_val(&self) -> Val {
        Val::Addr(self.isd_asn.0, Host::V6(u128::from(self.host)))
    }
    fn from_val(v: &Val) -> Option<Self> {
        if let Val::Addr(ia, Host::V6(x)) = v { Some(ScionAddrV6::new(IsdAsn(*ia), Ipv6Addr::from(*x))) } else { None }
    }
    serde_yes!(ScionAddrV6);
}
impl Subject for ScionAddrSvc {
    fn to_val(&self) -> Val {
        Val::Addr(self.isd_asn.0, Host::Svc(self.host.0))
    }
    fn from_val(v: &Val) -> Option<Self> {
        if let Val::Addr(ia, Host::Svc(x)) = v { Some(ScionAddrSvc::new(IsdAsn(*ia), ServiceAddr(*x))) } else { None }
    }
    serde_yes!(ScionAddrSvc);
}
impl Subject for ScionIpAddr {
    fn to_val(&self) -> Val {
        Val::Addr(self.isd_asn().0, ip2h(self.ip()))
    }
    fn from_val(v: &Val) -> Option<Self> {
        if let Val::Addr(ia, h) = v { Some(ScionIpAddr::new(IsdAsn(*ia), h2ip(h)?)) } else { None }
    }
    serde_yes!(ScionIpAddr);
}
impl Subject for ScionSocketAddr {
    fn to_val(&self) -> Val {
        Val::Sock(self.isd_asn().0, s2h(self.host()), self.port())
    }
    fn from_val(v: &Val) -> Option<Self> {
        if let Val::Sock(ia, h, p) = v { Some(ScionSocketAddr::new(IsdAsn(*ia), h2s(h), *p)) } else { None }
    }
    serde_yes!(ScionSocketAddr);
}
impl Subject for ScionSocketAddrV4 {
    fn to_val(&self) -> Val {
        Val::Sock(self.isd_asn.0, Host::V4(u32::from(self.host)), self.port)
    }
    fn from_val(v: &Val) -> Option<Self> {
        if let Val::Sock(ia, Host::V4(x), p) = v { Some(ScionSocketAddrV4::new(IsdAsn(*ia), Ipv4Addr::from(*x), *p)) } else { None }
    }
    serde_yes!(ScionSocketAddrV4);
}
impl Subject for ScionSocketAddrV6 {
    fn to_val(&self) -> Val {
        Val::Sock(self.isd_asn.0, Host::V6(u128::from(self.host)), self.port)
    }
    fn from_val(v: &Val) -> Option<Self> {
        if let Val::Sock(ia, Host::V6(x), p) = v { Some(ScionSocketAddrV6::new(IsdAsn(*ia), Ipv6Addr::from(*x), *p)) } else { None }
    }
    serde_yes!(ScionSocketAddrV6);
}
impl Subject for ScionSocketAddrSvc {
    fn to_val(&self) -> Val {
        Val::Sock(self.isd_asn.0, Host::Svc(self.host.0), self.port)
    }
    fn from_val(v: &Val) -> Option<Self> {
        if let Val::Sock(ia, Host::Svc(x), p) = v { Some(ScionSocketAddrSvc::new(IsdAsn(*ia), ServiceAddr(*x), *p)) } else { None }
    }
    serde_yes!(ScionSocketAddrSvc);
}
impl Subject for ScionSocketIpAddr {
    fn to_val(&self) -> Val {
        Val::Sock(self.isd_asn().0, ip2h(self.ip()), self.port())
    }
    fn from_val(v: &Val) -> Option<Self> {
        if let Val::Sock(ia, h, p) = v { Some(ScionSocketIpAddr::new(IsdAsn(*ia), h2ip(h)?, *p)) } else { None }
    }
    serde_yes!(ScionSocketIpAddr);
}

macro_rules! with_type {
    ($p:expr, $T:ident => $body:expr, txt => $txt:expr) => {
        match $p {
            P::Isd => { type $T = Isd; $body }
            P::Asn => { type $T = Asn; $body }
            P::IsdAsn => { type $T = IsdAsn; $body }
            P::ServiceAddr => { type $T = ServiceAddr; $body }
            P::ScionHostAddr => { type $T = ScionHostAddr; $body }
            P::ScionAddr => { type $T = ScionAddr; $body }
            P::ScionAddrV4 => { type $T = ScionAddrV4; $body }
            P::ScionAddrV6 => { type $T = ScionAddrV6; $body }
            P::ScionAddrSvc => { type $T = ScionAddrSvc; $body }
            P::ScionIpAddr => { type $T = ScionIpAddr; $body }
            P::ScionSocketAddr => { type $T = ScionSocketAddr; $body }
            P::ScionSocketAddrV4 => { type $T = ScionSocketAddrV4; $body }
            P::ScionSocketAddrV6 => { type $T = ScionSocketAddrV6; $body }
            P::ScionSocketAddrSvc => { type $T = ScionSocketAddrSvc; $body }
            P::ScionSocketIpAddr => { type $T = ScionSocketIpAddr; $body }
            P::TxtPayload | P::TxtRecord => $txt,
        }
    };
}

fn list_val(l: Vec<ScionIpAddr>) -> Val {
    Val::List(l.into_iter().map(|a| (a.isd_asn().0, ip2h(a.ip()))).collect())
}

/// The REAL parser `p` on `s` (call inside `vpc::catch`).
fn real_parse(p: P, s: &str) -> Option<Val> {
    match p {
        P::TxtPayload => verif_parse_txt_payload(s).ok().map(list_val),
        P::TxtRecord => verif_resolve_txt_records("verif.example", vec![s.to_string()]).ok().map(list_val),
        _ => with_type!(p, T => <T as FromStr>::from_str(s).ok().map(|t| t.to_val()), txt => unreachable!()),
    }
}

/// The REAL display of value `v` as type `p` (TXT records have no Display in the subject: the
/// record is composed from the real Display of IsdAsn and IpAddr following the documented ABNF).
fn real_display(p: P, v: &Val) -> Option<String> {
    match p {
        P::TxtPayload | P::TxtRecord => {
            let Val::List(l) = v else { return None };
            let mut s = String::new();
            if p == P::TxtRecord {
                s.push_str("scion=v1;");
            }
            for (i, (ia, h)) in l.iter().enumerate() {
                if i > 0 {
                    s.push(',');
                }
                s.push_str(&format!("[{},{}]", IsdAsn(*ia), h2ip(h)?));
            }
            Some(s)
        }
        _ => with_type!(p, T => <T as Subject>::from_val(v).map(|t| t.to_string()), txt => unreachable!()),
    }
}
fn real_ser(p: P, v: &Val) -> Option<String> {
    with_type!(p, T => <T as Subject>::from_val(v).and_then(|t| t.ser()), txt => None)
}
fn real_de(p: P, json: &str) -> Option<Option<Val>> {
    with_type!(p, T => <T as Subject>::de(json).map(|o| o.map(|t| t.to_val())), txt => None)
}

// ---------------------------------------------------------------------------------------------
// independent reference recogniser (documented grammar) with named relaxations
// ---------------------------------------------------------------------------------------------

const LAX_PLUS_ISD: u32 = 1 << 0;
const LAX_PLUS_ASN_DEC: u32 = 1 << 1;
const LAX_PLUS_ASN_HEX: u32 = 1 << 2;
const LAX_PLUS_PORT: u32 = 1 << 3;
const LAX_SOCK_OPEN_ANY: u32 = 1 << 4;
const LAX_SOCK_CLOSE_ANY: u32 = 1 << 5;
const LAX_TXT_TRAILING_COMMA: u32 = 1 << 6;
const LAX_TXT_INNER_WS: u32 = 1 << 7;
const LAX_TXT_OUTER_WS: u32 = 1 << 8;
const N_LAX: u32 = 9;
const LAX_ALL: u32 = (1 << N_LAX) - 1;

/// Narrow violation class of each relaxation: "the real parser accepts a string that is only in
/// the documented grammar when this rule is relaxed".
fn lax_class(bit: u32) -> &'static str {
    match bit {
        LAX_PLUS_ISD => "plus-sign-accepted-in-isd",
        LAX_PLUS_ASN_DEC => "plus-sign-accepted-in-decimal-asn",
        LAX_PLUS_ASN_HEX => "plus-sign-accepted-in-hex-asn-group",
        LAX_PLUS_PORT => "plus-sign-accepted-in-port",
        LAX_SOCK_OPEN_ANY => "socketaddr-opening-bracket-not-required",
        LAX_SOCK_CLOSE_ANY => "socketaddr-closing-bracket-not-required",
        LAX_TXT_TRAILING_COMMA => "txt-trailing-comma-accepted",
        LAX_TXT_INNER_WS => "txt-whitespace-inside-entry-accepted",
        LAX_TXT_OUTER_WS => "txt-leading-or-trailing-whitespace-accepted",
        _ => "unknown-relaxation",
    }
}
fn lax_what(bit: u32) -> &'static str {
    match bit {
        LAX_PLUS_ISD => "a '+' sign in front of the ISD number is accepted (not a displayed form, not documented)",
        LAX_PLUS_ASN_DEC => "a '+' sign in front of a decimal AS number is accepted",
        LAX_PLUS_ASN_HEX => "a '+' sign in front of a hex AS group is accepted",
        LAX_PLUS_PORT => "a '+' sign in front of the port is accepted",
        LAX_SOCK_OPEN_ANY => "socket address accepted although it does not start with '[': the first character is silently dropped",
        LAX_SOCK_CLOSE_ANY => "socket address accepted although there is no ']' before ':port': the last character before the port separator is silently dropped",
        LAX_TXT_TRAILING_COMMA => "TXT address list accepted with a trailing ',' (ABNF: address *(\",\" address))",
        LAX_TXT_INNER_WS => "TXT entry accepted with whitespace inside the brackets (ABNF has none; only whitespace BETWEEN entries is documented by a test)",
        LAX_TXT_OUTER_WS => "TXT payload accepted with leading/trailing whitespace",
        _ => "?",
    }
}

/// `1*DIGIT` with value <= max (leading zeros are within `\d+` of the documented pattern).
fn r_dec(s: &str, max: u64, plus_ok: bool) -> Option<u64> {
    let s = if plus_ok { s.strip_prefix('+').unwrap_or(s) } else { s };
    if s.is_empty() {
        return None;
    }
    let mut v: u64 = 0;
    for b in s.bytes() {
        if !b.is_ascii_digit() {
            return None;
        }
        v = v.checked_mul(10)?.checked_add((b - b'0') as u64)?;
    }
    if v > max { None } else { Some(v) }
}
/// `1*HEXDIG` with value <= 0xffff.
fn r_hexgroup(s: &str, plus_ok: bool) -> Option<u64> {
    let s = if plus_ok { s.strip_prefix('+').unwrap_or(s) } else { s };
    if s.is_empty() {
        return None;
    }
    let mut v: u64 = 0;
    for b in s.bytes() {
        let d = match b {
            b'0'..=b'9' => b - b'0',
            b'a'..=b'f' => b - b'a' + 10,
            b'A'..=b'F' => b - b'A' + 10,
            _ => return None,
        };
        v = v.checked_mul(16)?.checked_add(d as u64)?;
        if v > 0xffff_ffff {
            return None; // far beyond a group; keeps the accumulator small
        }
    }
    if v > 0xffff { None } else { Some(v) }
}
fn all_digits(s: &str) -> bool {
    !s.is_empty() && s.bytes().all(|b| b.is_ascii_digit())
}
/// AS: decimal below 2^32, or three colon-separated hex groups.
fn r_asn(s: &str, lax: u32) -> Option<u64> {
    let body = if lax & LAX_PLUS_ASN_DEC != 0 { s.strip_prefix('+').unwrap_or(s) } else { s };
    if all_digits(body) {
        // an all-digit token is the decimal notation and nothing else
        return r_dec(s, u32::MAX as u64, lax & LAX_PLUS_ASN_DEC != 0);
    }
    let plus = lax & LAX_PLUS_ASN_HEX != 0;
    let c1 = s.find(':')?;
    let g1 = r_hexgroup(&s[..c1], plus)?;
    let rest = &s[c1 + 1..];
    let c2 = rest.find(':')?;
    let g2 = r_hexgroup(&rest[..c2], plus)?;
    let g3 = r_hexgroup(&rest[c2 + 1..], plus)?; // a further ':' is not a hex digit
    Some((g1 << 32) | (g2 << 16) | g3)
}
fn r_isd(s: &str, lax: u32) -> Option<u64> {
    r_dec(s, u16::MAX as u64, lax & LAX_PLUS_ISD != 0)
}
fn r_ia(s: &str, lax: u32) -> Option<u64> {
    let d = s.find('-')?;
    let isd = r_isd(&s[..d], lax)?;
    let asn = r_asn(&s[d + 1..], lax)?; // a second '-' is in neither AS notation
    Some((isd << 48) | asn)
}
/// Service address: `CS|DS|Wildcard` [`_A`|`_M`], or the displayed form of an unnamed one.
fn r_svc(s: &str) -> Option<u16> {
    let named = [("CS", 0x0002u16), ("DS", 0x0001), ("Wildcard", 0x0010)];
    for (name, base) in named {
        if let Some(rest) = s.strip_prefix(name) {
            return match rest {
                "" | "_A" => Some(base),
                "_M" => Some(base | 0x8000),
                _ => None,
            };
        }
    }
    // displayed form of every other value: "<SVC:0x%04x>" of the anycast value, "_M" if multicast
    let rest = s.strip_prefix("<SVC:0x")?;
    if rest.len() < 5 || !rest.is_char_boundary(4) {
        return None;
    }
    let (digits, tail) = rest.split_at(4);
    if !digits.bytes().all(|b| b.is_ascii_digit() || (b'a'..=b'f').contains(&b)) {
        return None;
    }
    let v = u16::from_str_radix(digits, 16).ok()?;
    if v >= 0x8000 || v == 1 || v == 2 || v == 0x10 {
        return None; // those are displayed differently
    }
    match tail {
        // `_A` is the documented explicit anycast suffix of service addresses (`CS_A`, `DS_A`,
        // `Wildcard_A` in the constants' docs); it is accepted on the numeric form as on the names.
        ">" | ">_A" => Some(v),
        ">_M" => Some(v | 0x8000),
        _ => None,
    }
}
/// Host: std's IPv4/IPv6 syntax (documentation is silent, std defines it) or a service address.
fn r_host(s: &str, hk: HK) -> Option<Host> {
    let h = if let Ok(a) = Ipv4Addr::from_str(s) {
        Host::V4(u32::from(a))
    } else if let Ok(a) = Ipv6Addr::from_str(s) {
        Host::V6(u128::from(a))
    } else {
        Host::Svc(r_svc(s)?)
    };
    if hk.admits(&h) { Some(h) } else { None }
}
/// `isd-as "," host`
fn r_addr(s: &str, hk: HK, lax: u32) -> Option<(u64, Host)> {
    let c = s.find(',')?;
    let ia = r_ia(&s[..c], lax)?;
    let h = r_host(&s[c + 1..], hk)?; // no host form contains ','
    Some((ia, h))
}
/// `"[" addr "]" ":" port`
fn r_sock(s: &str, hk: HK, lax: u32) -> Option<(u64, Host, u16)> {
    // from the right: port digits, ':', the closing bracket; from the left: the opening bracket
    let colon = s.rfind(':')?;
    let port = r_dec(&s[colon + 1..], u16::MAX as u64, lax & LAX_PLUS_PORT != 0)? as u16;
    let pre = &s[..colon];
    let mut it = pre.chars();
    let open = it.next()?;
    let close = it.next_back()?;
    if open != '[' && lax & LAX_SOCK_OPEN_ANY == 0 {
        return None;
    }
    if close != ']' && lax & LAX_SOCK_CLOSE_ANY == 0 {
        return None;
    }
    let (ia, h) = r_addr(it.as_str(), hk, lax)?; // no addr form contains '[' or ']'
    Some((ia, h, port))
}
/// `address *( *WSP "," *WSP address )`, `address = "[" isd-as "," ip "]"`.
fn r_txt_payload(s: &str, lax: u32) -> Option<Vec<(u64, Host)>> {
    let inner_ws = lax & LAX_TXT_INNER_WS != 0;
    let mut rest = if lax & LAX_TXT_OUTER_WS != 0 { s.trim() } else { s };
    let mut out = vec![];
    loop {
        rest = rest.strip_prefix('[')?;
        let close = rest.find(']')?;
        let mut entry = &rest[..close];
        rest = &rest[close + 1..];
        if inner_ws {
            entry = entry.trim();
        }
        let c = entry.find(',')?;
        let (mut a, mut h) = (&entry[..c], &entry[c + 1..]);
        if inner_ws {
            a = a.trim();
            h = h.trim();
        }
        let ia = r_ia(a, lax)?;
        let ip = IpAddr::from_str(h).ok()?;
        out.push((ia, ip2h(ip)));
        if rest.is_empty() {
            return Some(out);
        }
        // documented (test `parse_txt_payload_allows_whitespace_between_entries`): ws around ','
        let after_comma = rest.trim_start().strip_prefix(',')?;
        let next = after_comma.trim_start();
        if next.is_empty() {
            // nothing follows the comma
            return if lax & LAX_TXT_TRAILING_COMMA != 0 && after_comma.is_empty() { Some(out) } else { None };
        }
        rest = next;
    }
}

/// The reference recogniser for parser `p` under relaxation set `lax` (0 = documented grammar).
fn reference(p: P, s: &str, lax: u32) -> Option<Val> {
    let hk = p.host_kind();
    match p {
        P::Isd => r_isd(s, lax).map(|x| Val::Isd(x as u16)),
        P::Asn => r_asn(s, lax).map(Val::Asn),
        P::IsdAsn => r_ia(s, lax).map(Val::Ia),
        P::ServiceAddr | P::ScionHostAddr => r_host(s, hk).map(Val::Host),
        P::ScionAddr | P::ScionAddrV4 | P::ScionAddrV6 | P::ScionAddrSvc | P::ScionIpAddr => r_addr(s, hk, lax).map(|(ia, h)| Val::Addr(ia, h)),
        P::ScionSocketAddr | P::ScionSocketAddrV4 | P::ScionSocketAddrV6 | P::ScionSocketAddrSvc | P::ScionSocketIpAddr => {
            r_sock(s, hk, lax).map(|(ia, h, port)| Val::Sock(ia, h, port))
        }
        P::TxtPayload => r_txt_payload(s, lax).map(Val::List),
        P::TxtRecord => r_txt_payload(s.strip_prefix("scion=v1;")?, lax).map(Val::List),
    }
}

/// Smallest relaxation set (by size, then numerically) under which the reference yields `v`.
fn minimal_lax(p: P, s: &str, v: &Val) -> Option<u32> {
    if reference(p, s, LAX_ALL).as_ref() != Some(v) {
        return None;
    }
    for size in 1..=N_LAX {
        for mask in 1..=LAX_ALL {
            if mask.count_ones() == size && reference(p, s, mask).as_ref() == Some(v) {
                return Some(mask);
            }
        }
    }
    None
}

// ---------------------------------------------------------------------------------------------
// statistics, deterministic violation aggregation
// ---------------------------------------------------------------------------------------------

const VIOL_CALL_CAP: u64 = 1_000;
const O_ACC_CANON: usize = 0; // accepted, string is the displayed form of the value
const O_ACC_ALT: usize = 1; // accepted, documented alternative spelling
const O_ACC_BAD: usize = 2; // accepted, not in the documented grammar (violation)
const O_REJ: usize = 3; // rejected, reference rejects too
const O_REJ_DOC: usize = 4; // rejected although in the documented grammar (counted, not a violation)
const O_PANIC: usize = 5;
const NO: usize = 6;
const O_NAMES: [&str; NO] = ["accepted-displayed-form", "accepted-documented-alternative", "accepted-OUTSIDE-grammar", "rejected", "rejected-though-in-grammar", "PANIC"];

#[derive(Clone)]
struct Witness {
    /// number of relaxations needed to explain the witness (1 = the class alone); 0 for other kinds
    rank: u32,
    parser: P,
    mode: &'static str,
    input: String,
    extra: Value,
}
/// Borrowed ordering key of a witness: fewest relaxations, shortest input, then lexicographic.
type WKey<'a> = (u32, usize, &'a str, usize, &'a str);
fn wkey<'a>(rank: u32, input: &'a str, p: P, mode: &'a str) -> WKey<'a> {
    (rank, input.chars().count(), input, p as usize, mode)
}
impl Witness {
    fn key(&self) -> WKey<'_> {
        wkey(self.rank, &self.input, self.parser, self.mode)
    }
    fn json(&self) -> Value {
        json!({"mode": self.mode, "parser": self.parser.name(), "input": self.input, "input_utf8_hex": vpc::hex(self.input.as_bytes()), "detail": self.extra})
    }
}
struct VAgg {
    count: u64,
    what: String,
    min: Witness,
}

#[derive(Default)]
struct Stats {
    evals: u64,
    strings: u64,
    strings_accepted_by_some_parser: u64,
    by: [[u64; NO]; NP],
    rt_ok: [u64; NP],
    rt_fail: [u64; NP],
    serde_ok: [u64; NP],
    serde_fail: [u64; NP],
    ref_selfcheck_fail: Vec<String>,
    accepted_hashes: Vec<u64>,
    viols: BTreeMap<String, VAgg>,
    rejdoc_samples: Vec<(String, &'static str)>,
}
impl Stats {
    /// Count a witness of `class`; `build` (what, detail) runs only when the witness becomes the
    /// minimal one of its class.
    fn viol(&mut self, class: &str, rank: u32, p: P, mode: &'static str, input: &str, build: impl FnOnce() -> (String, Value)) {
        match self.viols.get_mut(class) {
            Some(a) => {
                a.count += 1;
                if wkey(rank, input, p, mode) < a.min.key() {
                    let (what, extra) = build();
                    a.what = what;
                    a.min = Witness { rank, parser: p, mode, input: input.to_string(), extra };
                }
            }
            None => {
                let (what, extra) = build();
                self.viols.insert(class.to_string(), VAgg { count: 1, what, min: Witness { rank, parser: p, mode, input: input.to_string(), extra } });
            }
        }
    }
    fn merge(mut self, o: Stats) -> Stats {
        self.evals += o.evals;
        self.strings += o.strings;
        self.strings_accepted_by_some_parser += o.strings_accepted_by_some_parser;
        for p in 0..NP {
            for k in 0..NO {
                self.by[p][k] += o.by[p][k];
            }
            self.rt_ok[p] += o.rt_ok[p];
            self.rt_fail[p] += o.rt_fail[p];
            self.serde_ok[p] += o.serde_ok[p];
            self.serde_fail[p] += o.serde_fail[p];
        }
        for x in o.ref_selfcheck_fail {
            if self.ref_selfcheck_fail.len() < 5 {
                self.ref_selfcheck_fail.push(x);
            }
        }
        self.accepted_hashes.extend(o.accepted_hashes);
        if self.accepted_hashes.len() > 4_000_000 {
            self.accepted_hashes.sort_unstable();
            self.accepted_hashes.dedup();
        }
        for (k, a) in o.viols {
            match self.viols.get_mut(&k) {
                Some(b) => {
                    b.count += a.count;
                    if a.min.key() < b.min.key() {
                        b.min = a.min;
                        b.what = a.what;
                    }
                }
                None => {
                    self.viols.insert(k, a);
                }
            }
        }
        self.rejdoc_samples.extend(o.rejdoc_samples);
        self.rejdoc_samples.sort();
        self.rejdoc_samples.dedup();
        self.rejdoc_samples.truncate(12);
        self
    }
}

thread_local! {
    static PANIC_LOC: RefCell<String> = const { RefCell::new(String::new()) };
}
fn install_panic_hook() {
    std::panic::set_hook(Box::new(|info| {
        let loc = info.location().map(|l| format!("{}:{}", l.file(), l.line())).unwrap_or_default();
        PANIC_LOC.with(|c| *c.borrow_mut() = loc);
    }));
}
fn last_loc() -> String {
    let l = PANIC_LOC.with(|c| c.borrow().clone());
    // keep the path repo-relative so that the class/witness does not depend on the checkout
    match l.find("crates/") {
        Some(i) => l[i..].to_string(),
        None => l,
    }
}

/// Narrow class of a panic: by the shape of the input for the known socket-address slicing, by
/// location otherwise.
fn panic_class(p: P, s: &str, loc: &str) -> String {
    if p.is_sock() {
        if let Some(colon) = s.rfind(':') {
            let pre = &s[..colon];
            if pre.is_empty() {
                return "panic-socketaddr-unbracketed-empty-host".into();
            }
            if pre.chars().count() == 1 {
                return "panic-socketaddr-single-char-before-port".into();
            }
            if !pre.is_char_boundary(1) || !pre.is_char_boundary(pre.len() - 1) {
                return "panic-socketaddr-non-ascii-at-bracket-position".into();
            }
        }
    }
    let file_line = loc.rsplit('/').next().unwrap_or(loc);
    format!("panic-{}@{}", p.name(), file_line)
}

/// One (parser, string) evaluation: real parser under catch vs the reference.
fn eval(p: P, s: &str, st: &mut Stats) -> bool {
    st.evals += 1;
    let r = vpc::catch(|| real_parse(p, s));
    let pi = p as usize;
    match r {
        Err(msg) => {
            st.by[pi][O_PANIC] += 1;
            let loc = last_loc();
            let class = panic_class(p, s, &loc);
            st.viol(&class, 0, p, "string", s, || (format!("parser panics instead of returning an error ({loc}: {msg})"), json!({"panic": msg, "at": loc})));
            false
        }
        Ok(None) => {
            if reference(p, s, 0).is_some() {
                st.by[pi][O_REJ_DOC] += 1;
                if st.rejdoc_samples.len() < 12 {
                    st.rejdoc_samples.push((s.to_string(), p.name()));
                }
            } else {
                st.by[pi][O_REJ] += 1;
            }
            false
        }
        Ok(Some(v)) => {
            let strict = reference(p, s, 0);
            if strict.as_ref() == Some(&v) {
                let canon = vpc::catch(|| real_display(p, &v)).ok().flatten().as_deref() == Some(s);
                st.by[pi][if canon { O_ACC_CANON } else { O_ACC_ALT }] += 1;
            } else {
                st.by[pi][O_ACC_BAD] += 1;
                match minimal_lax(p, s, &v) {
                    Some(mask) => {
                        for b in 0..N_LAX {
                            if mask & (1 << b) != 0 {
                                st.viol(lax_class(1 << b), mask.count_ones(), p, "string", s, || {
                                    let names: Vec<&str> = (0..N_LAX).filter(|b| mask & (1 << b) != 0).map(|b| lax_class(1 << b)).collect();
                                    (lax_what(1 << b).to_string(), json!({"accepted_as": v.to_json(), "needed_relaxations": names, "reference_strict": strict.as_ref().map(|x| x.to_json())}))
                                });
                            }
                        }
                    }
                    None => {
                        let lenient = reference(p, s, LAX_ALL);
                        let (class, what) = if strict.is_some() || lenient.is_some() {
                            (format!("accepted-with-wrong-value-{}", p.name()), "parser accepts the string but yields a different value than the documented grammar")
                        } else {
                            (format!("unexplained-accept-{}", p.name()), "parser accepts a string that is neither a displayed form nor a documented alternative (no known relaxation explains it)")
                        };
                        st.viol(&class, 0, p, "string", s, || {
                            (what.to_string(), json!({"accepted_as": v.to_json(), "reference_strict": strict.map(|x| x.to_json()), "reference_all_relaxations": lenient.map(|x| x.to_json())}))
                        });
                    }
                }
            }
            true
        }
    }
}

/// One string into every parser.
fn eval_all(s: &str, st: &mut Stats) {
    st.strings += 1;
    let mut any = false;
    for p in ALL_P {
        any |= eval(p, s, st);
    }
    if any {
        st.strings_accepted_by_some_parser += 1;
        st.accepted_hashes.push(vpc::fnv64(s.as_bytes()));
    }
}

fn is_unnamed_svc(v: &Val) -> bool {
    let h = match v {
        Val::Host(h) | Val::Addr(_, h) | Val::Sock(_, h, _) => h,
        _ => return false,
    };
    matches!(h, Host::Svc(x) if !matches!(x & 0x7fff, 1 | 2 | 0x10))
}

/// One value: display -> parse -> same value; serde string form likewise; reference self-check.
fn roundtrip(p: P, v: &Val, with_serde: bool, st: &mut Stats) {
    let pi = p as usize;
    st.evals += 1;
    let shown = match vpc::catch(|| real_display(p, v)) {
        Ok(Some(s)) => s,
        Ok(None) => {
            st.ref_selfcheck_fail.push(format!("value {v:?} cannot be built as {}", p.name()));
            return;
        }
        Err(msg) => {
            st.rt_fail[pi] += 1;
            st.viol(&format!("panic-display-{}", p.name()), 0, p, "value", "", || (format!("Display panics: {msg}"), json!({"value": v.to_json()})));
            return;
        }
    };
    // the reference must accept every displayed form with the right value (validates the oracle)
    if reference(p, &shown, 0).as_ref() != Some(v) {
        st.ref_selfcheck_fail.push(format!("reference({}, {shown:?}) != {v:?}", p.name()));
    }
    let back = vpc::catch(|| real_parse(p, &shown));
    let unnamed = is_unnamed_svc(v);
    match &back {
        Ok(Some(b)) if b == v => st.rt_ok[pi] += 1,
        _ => {
            st.rt_fail[pi] += 1;
            let class = if unnamed { "svc-display-unparseable".to_string() } else { format!("roundtrip-{}", p.name()) };
            st.viol(&class, 0, p, "value", &shown, || {
                let what = if unnamed {
                    "the displayed form '<SVC:0x....>' of a service address other than CS/DS/Wildcard is rejected by the parser of the same type".to_string()
                } else {
                    format!("parse(display(v)) != v: display = {shown:?}, parse = {back:?}")
                };
                (what, json!({"value": v.to_json(), "parsed": format!("{back:?}")}))
            });
        }
    }
    if with_serde {
        if let Ok(Some(js)) = vpc::catch(|| real_ser(p, v)) {
            st.evals += 1;
            let expect = format!("\"{shown}\"");
            let back = vpc::catch(|| real_de(p, &js)).ok().flatten().flatten();
            if js == expect && back.as_ref() == Some(v) {
                st.serde_ok[pi] += 1;
            } else {
                st.serde_fail[pi] += 1;
                let svc = unnamed && js == expect;
                let class = if svc { "svc-display-unparseable".to_string() } else { format!("serde-roundtrip-{}", p.name()) };
                st.viol(&class, 0, p, "serde", &shown, || {
                    let what = if svc {
                        "the serde string form '<SVC:0x....>' of a service address other than CS/DS/Wildcard does not deserialize".to_string()
                    } else {
                        format!("serde string form does not round-trip: serialized {js}, expected {expect}, deserialized {back:?}")
                    };
                    (what, json!({"value": v.to_json(), "serialized": js}))
                });
            }
        }
    }
}

// ---------------------------------------------------------------------------------------------
// value sets
// ---------------------------------------------------------------------------------------------

const ISDS: [u16; 5] = [0, 1, 9, 10, 65535];
const ASN_CORNER: [u64; 7] = [0, 1, 0xffff_ffff, 0x1_0000_0000, 0x1_0000_0001, 0xff00_0000_0110, 0xffff_ffff_ffff];
const PORTS: [u16; 4] = [0, 1, 80, 65535];

fn asn_full() -> Vec<u64> {
    let mut v: Vec<u64> = ASN_CORNER.to_vec();
    for g in 0..3 {
        for x in 1..=0xffffu64 {
            v.push(x << (16 * g));
        }
    }
    v.sort_unstable();
    v.dedup();
    v
}
fn ia(isd: u16, asn: u64) -> u64 {
    ((isd as u64) << 48) | asn
}
fn ia_corner() -> Vec<u64> {
    ISDS.iter().flat_map(|i| ASN_CORNER.iter().map(move |a| ia(*i, *a))).collect()
}
fn v4_set() -> Vec<Host> {
    ["0.0.0.0", "0.0.0.1", "1.2.3.4", "10.0.0.1", "100.99.9.0", "127.0.0.1", "192.0.2.1", "255.255.255.255"]
        .iter()
        .map(|s| Host::V4(u32::from(Ipv4Addr::from_str(s).unwrap())))
        .collect()
}
fn v6_set() -> Vec<Host> {
    [
        "::",
        "::1",
        "1::",
        "::ffff:10.0.0.1",         // v4-mapped
        "::ffff:255.255.255.255",  // v4-mapped, max
        "::1.2.3.4",               // v4-compatible (deprecated form)
        "2001:db8:1:2:3:4:5:6",    // full
        "2001:db8::1",             // compressed in the middle
        "fe80::1:0:0:1",           // two zero runs, first is longer
        "1:0:0:2::3",              // compressed later run
        "ff02::9:0:0:10",
        "ffff:ffff:ffff:ffff:ffff:ffff:ffff:ffff",
    ]
    .iter()
    .map(|s| Host::V6(u128::from(Ipv6Addr::from_str(s).unwrap())))
    .collect()
}
fn svc_all() -> Vec<Host> {
    (0..=u16::MAX).map(Host::Svc).collect()
}
fn svc_small() -> Vec<Host> {
    // CS, CS_M, DS, DS_M, Wildcard, Wildcard_M, three unnamed ones (incl. NONE = 0xffff)
    [0x0002u16, 0x8002, 0x0001, 0x8001, 0x0010, 0x8010, 0x0000, 0x0003, 0xffff].iter().map(|x| Host::Svc(*x)).collect()
}

/// A lazily described block of (parser, values).
struct Block {
    p: P,
    n: usize,
    make: Box<dyn Fn(usize) -> Val + Sync + Send>,
}

fn product_addr(ias: Vec<u64>, hosts: Vec<Host>) -> (usize, impl Fn(usize) -> Val + Sync + Send) {
    let n = ias.len() * hosts.len();
    let nh = hosts.len();
    (n, move |i| Val::Addr(ias[i / nh], hosts[i % nh]))
}
fn product_sock(ias: Vec<u64>, hosts: Vec<Host>, ports: Vec<u16>) -> (usize, impl Fn(usize) -> Val + Sync + Send) {
    let nh = hosts.len();
    let np = ports.len();
    let n = ias.len() * nh * np;
    (n, move |i| {
        let port = ports[i % np];
        let j = i / np;
        Val::Sock(ias[j / nh], hosts[j % nh], port)
    })
}

/// The value space (a). Quick keeps every stated value of every component but thins two
/// PRODUCTS (stated in the bound): every-svc x ports, and every-single-group-AS x ISD.
fn value_blocks(thorough: bool) -> (Vec<Block>, String) {
    let asns = asn_full();
    let iac = ia_corner();
    let ia_full: Vec<u64> = ISDS.iter().flat_map(|i| asns.iter().map(move |a| ia(*i, *a))).collect();
    // ISD-AS set used for "every single-group AS inside an address"
    let ia_wide: Vec<u64> = if thorough { ia_full.clone() } else { [1u16].iter().flat_map(|i| asns.iter().map(move |a| ia(*i, *a))).collect() };
    let (v4, v6, svc) = (v4_set(), v6_set(), svc_all());
    let ip: Vec<Host> = v4.iter().chain(v6.iter()).copied().collect();
    let any: Vec<Host> = ip.iter().chain(svc.iter()).copied().collect();
    let any_small: Vec<Host> = ip.iter().copied().chain(svc_small()).collect();
    // one host of each kind, for the products with every single-group AS
    let one_each = vec![v4[3], v6[7], Host::Svc(2), Host::Svc(0x8001)];
    let all_ports = PORTS.to_vec();
    let wide_ports: Vec<u16> = if thorough { PORTS.to_vec() } else { vec![80] };
    let mut b: Vec<Block> = vec![];
    let mut add = |p: P, n: usize, f: Box<dyn Fn(usize) -> Val + Sync + Send>| b.push(Block { p, n, make: f });

    add(P::Isd, 65536, Box::new(|i| Val::Isd(i as u16)));
    {
        let a = asns.clone();
        add(P::Asn, a.len(), Box::new(move |i| Val::Asn(a[i])));
    }
    {
        let a = ia_full.clone();
        add(P::IsdAsn, a.len(), Box::new(move |i| Val::Ia(a[i])));
    }
    add(P::ServiceAddr, 65536, Box::new(|i| Val::Host(Host::Svc(i as u16))));
    {
        let a = any.clone();
        add(P::ScionHostAddr, a.len(), Box::new(move |i| Val::Host(a[i])));
    }
    for p in [P::ScionAddr, P::ScionAddrV4, P::ScionAddrV6, P::ScionAddrSvc, P::ScionIpAddr] {
        let hk = p.host_kind();
        let hosts: Vec<Host> = any.iter().filter(|h| hk.admits(h)).copied().collect();
        let (n, f) = product_addr(iac.clone(), hosts);
        add(p, n, Box::new(f));
        let few: Vec<Host> = one_each.iter().filter(|h| hk.admits(h)).copied().collect();
        let (n, f) = product_addr(ia_wide.clone(), few);
        add(p, n, Box::new(f));
    }
    for p in [P::ScionSocketAddr, P::ScionSocketAddrV4, P::ScionSocketAddrV6, P::ScionSocketAddrSvc, P::ScionSocketIpAddr] {
        let hk = p.host_kind();
        // every admitted host (incl. every svc) x 35 ISD-AS x ports (quick: port 80 only) ...
        let hosts: Vec<Host> = any.iter().filter(|h| hk.admits(h)).copied().collect();
        let (n, f) = product_sock(iac.clone(), hosts, wide_ports.clone());
        add(p, n, Box::new(f));
        // ... and the full port set with the IP hosts and the named/corner svc hosts
        if !thorough {
            let hosts: Vec<Host> = any_small.iter().filter(|h| hk.admits(h)).copied().collect();
            let (n, f) = product_sock(iac.clone(), hosts, all_ports.clone());
            add(p, n, Box::new(f));
        }
        let few: Vec<Host> = one_each.iter().filter(|h| hk.admits(h)).copied().collect();
        let (n, f) = product_sock(ia_wide.clone(), few, wide_ports.clone());
        add(p, n, Box::new(f));
    }
    // TXT records (payload and whole record): 1 entry and 2 entries over ia_corner x ip;
    // 3 entries over a reduced entry set
    let entries: Vec<(u64, Host)> = iac.iter().flat_map(|a| ip.iter().map(move |h| (*a, *h))).collect();
    let few_ia = [ia(0, 0), ia(1, 0xff00_0000_0110), ia(65535, 0xffff_ffff_ffff), ia(10, 0xffff_ffff), ia(9, 0x1_0000_0000)];
    let few_ip = [v4[3], v4[7], v6[0], v6[3], v6[7]];
    let few_entries: Vec<(u64, Host)> = few_ia.iter().flat_map(|a| few_ip.iter().map(move |h| (*a, *h))).collect();
    for p in [P::TxtPayload, P::TxtRecord] {
        let e = entries.clone();
        add(p, e.len(), Box::new(move |i| Val::List(vec![e[i]])));
        let e = entries.clone();
        let n = e.len();
        add(p, n * n, Box::new(move |i| Val::List(vec![e[i / n], e[i % n]])));
        let e = few_entries.clone();
        let n = e.len();
        add(p, n * n * n, Box::new(move |i| Val::List(vec![e[i / (n * n)], e[(i / n) % n], e[i % n]])));
    }
    let desc = format!(
        "Isd all 65536; Asn = 7 corner + every AS with one non-zero hex group ({} values); IsdAsn = 5 ISD x that; ServiceAddr all 65536; ScionHostAddr = 8 IPv4 + 12 IPv6 + all 65536 svc; \
         ScionAddr{{,V4,V6,Svc}}/ScionIpAddr = 35 ISD-AS (5 ISD x 7 AS) x every admitted host (incl. every svc), plus every single-group AS x {} ISD x one host per kind; \
         ScionSocketAddr{{,V4,V6,Svc}}/ScionSocketIpAddr = 35 ISD-AS x every admitted host (incl. every svc) x {}, plus every single-group AS x {} ISD x one host per kind x {}; \
         TXT payload and record: 1 and 2 entries over 35 ISD-AS x 20 IP, 3 entries over 25 entries",
        asns.len(),
        if thorough { "5" } else { "1 (ISD 1)" },
        if thorough { "ports {0,1,80,65535}" } else { "port 80, and x ports {0,1,80,65535} for the 20 IP + 9 named/corner svc hosts" },
        if thorough { "5" } else { "1" },
        if thorough { "4 ports" } else { "port 80" },
    );
    (b, desc)
}

// ---------------------------------------------------------------------------------------------
// string spaces
// ---------------------------------------------------------------------------------------------

/// The alphabet of the exhaustive space and of the quick-tier edits.
const ALPHABET: [char; 15] = ['0', '1', '9', 'f', 'g', ':', '-', ',', '[', ']', '.', '#', '+', ' ', 'é'];

/// Thorough-tier edit alphabet: printable ASCII plus a few non-ASCII / control characters.
fn wide_alphabet() -> Vec<char> {
    let mut v: Vec<char> = (0x20u8..=0x7e).map(|b| b as char).collect();
    v.extend(['é', '\t', '\n', '\0', '\u{a0}', '１', '\u{200b}']);
    v
}

fn dfs(buf: &mut String, len: usize, lmax: usize, st: &mut Stats) {
    eval_all(buf, st);
    if len < lmax {
        for c in ALPHABET {
            buf.push(c);
            dfs(buf, len + 1, lmax, st);
            buf.pop();
        }
    }
}

/// All strings of length <= lmax over ALPHABET into every parser.
fn exhaustive_strings(lmax: usize) -> Stats {
    // strings shorter than the split depth, then one task per prefix of that depth
    let depth = lmax.min(3);
    let mut st = Stats::default();
    let mut prefixes: Vec<String> = vec![String::new()];
    for d in 0..depth {
        let mut next = vec![];
        for pre in &prefixes {
            if pre.chars().count() == d {
                for c in ALPHABET {
                    let mut s = pre.clone();
                    s.push(c);
                    next.push(s);
                }
            }
        }
        // strings of length d are complete here
        for pre in &prefixes {
            eval_all(pre, &mut st);
        }
        prefixes = next;
    }
    let deep = prefixes
        .par_iter()
        .map(|pre| {
            let mut st = Stats::default();
            let mut buf = pre.clone();
            dfs(&mut buf, depth, lmax, &mut st);
            st
        })
        .reduce(Stats::default, Stats::merge);
    st.merge(deep)
}

/// Every single-character deletion, substitution and insertion over `alpha`.
fn single_edits(base: &str, alpha: &[char], out: &mut Vec<String>) {
    let chars: Vec<char> = base.chars().collect();
    for i in 0..chars.len() {
        let mut s: String = chars[..i].iter().collect();
        s.extend(&chars[i + 1..]);
        out.push(s);
        for c in alpha {
            if *c != chars[i] {
                let mut s: String = chars[..i].iter().collect();
                s.push(*c);
                s.extend(&chars[i + 1..]);
                out.push(s);
            }
        }
    }
    for i in 0..=chars.len() {
        for c in alpha {
            let mut s: String = chars[..i].iter().collect();
            s.push(*c);
            s.extend(&chars[i..]);
            out.push(s);
        }
    }
}

/// Displayed forms (by the real Display) of the reduced value set used as edit bases.
fn edit_bases() -> Vec<(P, String)> {
    let iac = ia_corner();
    let hosts: Vec<Host> = v4_set().into_iter().chain(v6_set()).chain(svc_small()).collect();
    let mut vals: Vec<(P, Val)> = vec![];
    for i in ISDS {
        vals.push((P::Isd, Val::Isd(i)));
    }
    for a in ASN_CORNER.iter().chain([0xffff, 0xffff_0000, 0xffff_0000_0000].iter()) {
        vals.push((P::Asn, Val::Asn(*a)));
    }
    for a in &iac {
        vals.push((P::IsdAsn, Val::Ia(*a)));
    }
    for h in &hosts {
        vals.push((P::ScionHostAddr, Val::Host(*h)));
    }
    for a in &iac {
        for h in &hosts {
            vals.push((P::ScionAddr, Val::Addr(*a, *h)));
            for port in PORTS {
                vals.push((P::ScionSocketAddr, Val::Sock(*a, *h, port)));
            }
        }
    }
    // TXT records: 1 entry over ia_corner x ip; 2 and 3 entries over a small entry set
    let ip: Vec<Host> = v4_set().into_iter().chain(v6_set()).collect();
    for a in &iac {
        for h in &ip {
            vals.push((P::TxtRecord, Val::List(vec![(*a, *h)])));
        }
    }
    let few: Vec<(u64, Host)> = vec![(ia(1, 0xff00_0000_0110), ip[3]), (ia(65535, 0xffff_ffff_ffff), ip[15]), (ia(0, 0), ip[8]), (ia(10, 0xffff_ffff), ip[11])];
    for a in &few {
        for b in &few {
            vals.push((P::TxtRecord, Val::List(vec![*a, *b])));
        }
    }
    for a in &few[..2] {
        for b in &few[..2] {
            for c in &few[..2] {
                vals.push((P::TxtRecord, Val::List(vec![*a, *b, *c])));
            }
        }
    }
    vals.into_iter().filter_map(|(p, v)| real_display(p, &v).map(|s| (p, s))).collect()
}

/// Bracket mismatches of socket-address and TXT forms (beyond what one edit reaches).
fn bracket_forms() -> Vec<String> {
    let mut out: Vec<String> = vec![];
    let inner = ["1-ff00:0:110,10.0.0.1", "1-1,10.0.0.1", "0-0,::", "1-ff00:0:110,2001:db8::1", "1-ff00:0:110,CS", "65535-ffff:ffff:ffff,Wildcard_M", "11-ff00:0:110,10.0.0.11", "0", "", "x"];
    let ports = ["80", "0", "65535", "", "65536", "+80"];
    for a in inner {
        for port in ports {
            // every pair of characters at the two bracket positions
            for o in ALPHABET.iter().map(|c| c.to_string()).chain(["".to_string(), "(".into(), "[[".into(), "x".into(), "<".into()]) {
                for c in ALPHABET.iter().map(|c| c.to_string()).chain(["".to_string(), ")".into(), "]]".into(), "y".into(), ">".into()]) {
                    out.push(format!("{o}{a}{c}:{port}"));
                }
            }
            out.push(format!("[{a}]{port}")); // no separator
            out.push(format!("[{a}]")); // no port at all
            out.push(format!("[{a}]:{port}:"));
            out.push(format!("[{a}]:{port}]"));
            out.push(format!("[{a}:{port}]"));
            out.push(format!("{a}:[{port}]"));
            out.push(format!("[[{a}]:{port}]:{port}"));
        }
        // brackets around the host only / IPv6 literal style
        if let Some((ia, host)) = a.split_once(',') {
            for port in ports {
                out.push(format!("{ia},[{host}]:{port}"));
                out.push(format!("[{ia},[{host}]]:{port}"));
                out.push(format!("[{ia}],{host}:{port}"));
                out.push(format!("[{ia}],[{host}]:{port}"));
            }
        }
    }
    for s in [":", "::", ":80", "x:80", "é:80", "[:80", "]:80", "[]:80", "][:80", "[[]]:80", "éé:80", "[é]:80", "é1-1,10.0.0.1]:80", "[1-1,10.0.0.1é:80", "é1-1,10.0.0.1é:80"] {
        out.push(s.to_string());
    }
    // TXT: bracket trouble
    let e = ["19-ff00:0:110,192.0.2.1", "1-1,::1"];
    for a in e {
        for b in e {
            for pre in ["scion=v1;", ""] {
                out.push(format!("{pre}[{a}],[{b}"));
                out.push(format!("{pre}[{a},[{b}]"));
                out.push(format!("{pre}[{a}]],[{b}]"));
                out.push(format!("{pre}[[{a}],[{b}]"));
                out.push(format!("{pre}{a}],[{b}]"));
                out.push(format!("{pre}[{a}][{b}]"));
                out.push(format!("{pre}[{a}],{b}"));
                out.push(format!("{pre}[{a}],[{b}]]"));
                out.push(format!("{pre}]{a}[,[{b}]"));
                out.push(format!("{pre}[{a}],[]"));
                out.push(format!("{pre}[],[{b}]"));
                out.push(format!("{pre}[{a}]:80,[{b}]"));
                out.push(format!("{pre}[[{a}]:80],[{b}]"));
            }
        }
    }
    out
}

/// Numeric overflow / sign / leading-zero tokens in every numeric field of every form.
fn numeric_forms() -> Vec<String> {
    let tokens: Vec<String> = [
        "0", "00", "01", "0001", "00001", "00000000000000000000000001", "1", "9", "10", "255", "256", "0255", "65535", "65536", "065535", "99999", "4294967295", "4294967296", "04294967295",
        "281474976710655", "281474976710656", "18446744073709551615", "18446744073709551616", "99999999999999999999", "340282366920938463463374607431768211456", "+0", "+1", "+65535", "+65536",
        "+4294967295", "-0", "-1", "+", "-", "++1", "+-1", "1+", "", " 1", "1 ", "0x1", "0X1", "1e1", "1_0", "1.0", "１", "٣", "ffff", "FFFF", "fFfF", "0ffff", "00ffff", "10000", "fffff", "+ffff", "+f", "-f",
        "g", "0xffff", "ffffffffffff", "ffff:ffff", "1:0", "0:1:0:0",
    ]
    .iter()
    .map(|s| s.to_string())
    .collect();
    let mut out = vec![];
    for t in &tokens {
        // identifiers
        out.push(t.clone());
        out.push(format!("{t}:0:0"));
        out.push(format!("0:{t}:0"));
        out.push(format!("0:0:{t}"));
        out.push(format!("{t}:{t}:{t}"));
        out.push(format!("{t}-ff00:0:110"));
        out.push(format!("1-{t}"));
        out.push(format!("1-{t}:0:110"));
        out.push(format!("1-ff00:{t}:110"));
        out.push(format!("1-ff00:0:{t}"));
        out.push(format!("{t}-{t}"));
        // hosts
        out.push(format!("{t}.0.0.1"));
        out.push(format!("10.{t}.0.1"));
        out.push(format!("10.0.0.{t}"));
        out.push(format!("::{t}"));
        out.push(format!("{t}::"));
        out.push(format!("2001:db8::{t}"));
        out.push(format!("<SVC:0x{t}>"));
        out.push(format!("<SVC:{t}>"));
        out.push(format!("CS_{t}"));
        // addresses and socket addresses
        for host in ["10.0.0.1", "2001:db8::1", "CS"] {
            out.push(format!("{t}-ff00:0:110,{host}"));
            out.push(format!("1-{t},{host}"));
            out.push(format!("1-ff00:{t}:110,{host}"));
            out.push(format!("[{t}-ff00:0:110,{host}]:80"));
            out.push(format!("[1-{t},{host}]:80"));
            out.push(format!("[1-{t}:0:1,{host}]:80"));
            out.push(format!("[1-ff00:0:110,{host}]:{t}"));
            out.push(format!("[{t}-{t},{host}]:{t}"));
        }
        out.push(format!("1-ff00:0:110,10.0.0.{t}"));
        out.push(format!("[1-ff00:0:110,10.0.0.{t}]:80"));
        out.push(format!("[1-ff00:0:110,::{t}]:80"));
        // TXT
        for pre in ["scion=v1;", ""] {
            out.push(format!("{pre}[{t}-ff00:0:110,192.0.2.1]"));
            out.push(format!("{pre}[19-{t},192.0.2.1]"));
            out.push(format!("{pre}[19-{t}:0:110,192.0.2.1]"));
            out.push(format!("{pre}[19-ff00:0:110,192.0.2.{t}]"));
            out.push(format!("{pre}[19-ff00:0:110,::{t}]"));
            out.push(format!("{pre}[19-ff00:0:110,192.0.2.1],[{t}-{t},::1]"));
        }
        out.push(format!("scion=v{t};[19-ff00:0:110,192.0.2.1]"));
    }
    out
}

/// TXT spelling variants: separators, whitespace, prefix.
fn txt_forms() -> Vec<String> {
    let mut out = vec![];
    let a = "[19-ff00:0:110,192.0.2.1]";
    let b = "[19-ff00:0:111,2001:db8::1]";
    let ws = ["", " ", "  ", "\t", "\n", "\u{a0}", "\u{200b}", "é"];
    for pre in ["scion=v1;", ""] {
        for w in ws {
            out.push(format!("{pre}{w}{a}"));
            out.push(format!("{pre}{a}{w}"));
            out.push(format!("{pre}{a}{w},{b}"));
            out.push(format!("{pre}{a},{w}{b}"));
            out.push(format!("{pre}{a}{w},{w}{b}"));
            out.push(format!("{pre}{a},{w}"));
            out.push(format!("{pre}{a}{w},"));
            out.push(format!("{pre}{w},{a}"));
            out.push(format!("{pre}{a},{w},{b}"));
            out.push(format!("{pre}{a}{w}{b}"));
            out.push(format!("{pre}[{w}19-ff00:0:110,192.0.2.1]"));
            out.push(format!("{pre}[19-ff00:0:110{w},192.0.2.1]"));
            out.push(format!("{pre}[19-ff00:0:110,{w}192.0.2.1]"));
            out.push(format!("{pre}[19-ff00:0:110,192.0.2.1{w}]"));
            out.push(format!("{pre}[19{w}-ff00:0:110,192.0.2.1]"));
            out.push(format!("{pre}[19-ff00:0:110,192.0{w}.2.1]"));
            out.push(format!("{pre}{w}"));
        }
        out.push(format!("{pre}{a},{b},"));
        out.push(format!("{pre}{a},,{b}"));
        out.push(format!("{pre}{a};{b}"));
        out.push(format!("{pre}{a},{b},{a},{b}"));
        out.push(format!("{pre}[19-ff00:0:110,CS]"));
        out.push(format!("{pre}[19-ff00:0:110,192.0.2.1,192.0.2.2]"));
        out.push(format!("{pre}[19-ff00:0:110;192.0.2.1]"));
        out.push(format!("{pre}[19-64512,192.0.2.1]"));
        out.push(format!("{pre}[19-ff00:0:110,192.0.2.1]:443"));
        out.push(format!("{pre}[19-ff00:0:110,[2001:db8::1]]"));
        out.push(format!("{pre}19-ff00:0:110,192.0.2.1"));
    }
    for pre in ["scion=v1", "scion=v2;", "SCION=v1;", "scion=V1;", " scion=v1;", "scion =v1;", "scion=v1;;", "scion=v1;scion=v1;", "scion=v1,", "scion=;", "=v1;", "scion=v1; ;"] {
        out.push(format!("{pre}{a}"));
    }
    out
}

/// Strings (already generated) into every parser, in parallel, deterministic merge.
fn run_strings(strings: &[String]) -> Stats {
    strings
        .par_chunks(2048)
        .map(|chunk| {
            let mut st = Stats::default();
            for s in chunk {
                eval_all(s, &mut st);
            }
            st
        })
        .reduce(Stats::default, Stats::merge)
}

/// Single edits of every base over `alpha`, generated and evaluated per base in parallel.
fn run_edits(bases: &[(P, String)], alpha: &[char]) -> Stats {
    bases
        .par_iter()
        .map(|(_, base)| {
            let mut st = Stats::default();
            let mut edits = vec![];
            single_edits(base, alpha, &mut edits);
            for s in &edits {
                eval_all(s, &mut st);
            }
            st
        })
        .reduce(Stats::default, Stats::merge)
}

fn run_values(blocks: &[Block], with_serde: bool) -> Stats {
    let mut total = Stats::default();
    for b in blocks {
        let st = (0..b.n)
            .into_par_iter()
            .with_min_len(4096)
            .fold(Stats::default, |mut st, i| {
                roundtrip(b.p, &(b.make)(i), with_serde, &mut st);
                st
            })
            .reduce(Stats::default, Stats::merge);
        total = total.merge(st);
    }
    total
}

// ---------------------------------------------------------------------------------------------
// replay
// ---------------------------------------------------------------------------------------------

fn replay(path: &std::path::Path) -> ! {
    let doc = vpc::read_replay(path);
    let w = doc.get("witness").cloned().unwrap_or(doc.clone());
    let pname = w.get("parser").and_then(|x| x.as_str()).unwrap_or("");
    let Some(p) = P::from_name(pname) else { vpc::machinery_failure(&format!("replay: unknown parser {pname:?}")) };
    let mode = w.get("mode").and_then(|x| x.as_str()).unwrap_or("string");
    let mut st = Stats::default();
    println!("replay: property C15, recorded class {:?}", doc.get("class").and_then(|c| c.as_str()).unwrap_or("?"));
    match mode {
        "value" | "serde" => {
            let Some(v) = w.get("detail").and_then(|d| d.get("value")).and_then(Val::from_json) else { vpc::machinery_failure("replay: no value in witness") };
            println!("parser      : {}", p.name());
            println!("value       : {v:?}");
            println!("display     : {:?}", vpc::catch(|| real_display(p, &v)));
            if let Ok(Some(s)) = vpc::catch(|| real_display(p, &v)) {
                println!("parse(disp) : {:?}", vpc::catch(|| real_parse(p, &s)));
                println!("reference   : {:?}", reference(p, &s, 0));
            }
            if let Ok(Some(js)) = vpc::catch(|| real_ser(p, &v)) {
                println!("serde ser   : {js}");
                println!("serde de    : {:?}", vpc::catch(|| real_de(p, &js)));
            }
            roundtrip(p, &v, true, &mut st);
        }
        _ => {
            let s = match w.get("input_utf8_hex").and_then(|x| x.as_str()) {
                Some(h) => String::from_utf8(vpc::unhex(h)).unwrap_or_else(|_| vpc::machinery_failure("replay: input is not UTF-8")),
                None => w.get("input").and_then(|x| x.as_str()).unwrap_or("").to_string(),
            };
            println!("parser      : {}", p.name());
            println!("input       : {s:?}");
            let r = vpc::catch(|| real_parse(p, &s));
            match &r {
                Err(m) => println!("real parser : PANIC {m} at {}", last_loc()),
                Ok(x) => println!("real parser : {x:?}"),
            }
            println!("reference   : {:?}   (documented grammar)", reference(p, &s, 0));
            if let Ok(Some(v)) = &r {
                if let Some(mask) = minimal_lax(p, &s, v) {
                    let names: Vec<&str> = (0..N_LAX).filter(|b| mask & (1 << b) != 0).map(|b| lax_class(1 << b)).collect();
                    println!("explained by: {names:?}");
                }
            }
            eval(p, &s, &mut st);
        }
    }
    if st.viols.is_empty() {
        println!("REPLAY: no violation reproduced");
        std::process::exit(0)
    }
    for (c, a) in &st.viols {
        println!("REPLAY: VIOLATION reproduced [{c}] {}", a.what);
    }
    std::process::exit(1)
}

// ---------------------------------------------------------------------------------------------
// entry point
// ---------------------------------------------------------------------------------------------

pub fn run(args: &vpc::Args) -> ! {
    vpc::quiet_panics();
    install_panic_hook();
    if let Some(path) = &args.replay {
        replay(path);
    }
    let run = vpc::Run::new(args);
    let lmax: usize = run.tier.pick(5, 7);
    let thorough = run.tier == vpc::Tier::Thorough;

    // (a) values
    let (blocks, values_desc) = value_blocks(thorough);
    let n_values: usize = blocks.iter().map(|b| b.n).sum();
    let t0 = run.elapsed_s();
    let sv = run_values(&blocks, true);
    let t_values = run.elapsed_s() - t0;
    if !sv.ref_selfcheck_fail.is_empty() {
        vpc::machinery_failure(&format!("reference recogniser rejects a displayed form (oracle bug): {:?}", sv.ref_selfcheck_fail));
    }

    // (b) strings
    let t0 = run.elapsed_s();
    let sx = exhaustive_strings(lmax);
    let t_exh = run.elapsed_s() - t0;
    let n_exh = sx.strings;

    let t0 = run.elapsed_s();
    let bases = edit_bases();
    let alpha: Vec<char> = if thorough { wide_alphabet() } else { ALPHABET.to_vec() };
    let se = run_edits(&bases, &alpha);
    let t_edits = run.elapsed_s() - t0;
    let n_edits = se.strings;

    let t0 = run.elapsed_s();
    let mut special: Vec<String> = bracket_forms();
    let n_br = special.len();
    special.extend(numeric_forms());
    let n_num = special.len() - n_br;
    special.extend(txt_forms());
    let n_txt = special.len() - n_br - n_num;
    let ss = run_strings(&special);
    let t_special = run.elapsed_s() - t0;

    // ---- merge, report (deterministic order) ----
    let rt_pairs: u64 = sv.rt_ok.iter().sum::<u64>() + sv.serde_ok.iter().sum::<u64>();
    let rt_values: u64 = sv.rt_ok.iter().sum();
    let mut all = sv.merge(sx).merge(se).merge(ss);
    all.accepted_hashes.sort_unstable();
    all.accepted_hashes.dedup();
    let distinct_accepted = all.accepted_hashes.len() as u64;

    let mut per_parser = serde_json_map();
    for p in ALL_P {
        let pi = p as usize;
        let mut m = serde_json_map();
        for k in 0..NO {
            m.insert(O_NAMES[k].to_string(), json!(all.by[pi][k]));
            if all.by[pi][k] > 0 {
                run.outcome_n(&format!("{}:{}", p.name(), O_NAMES[k]), all.by[pi][k]);
            }
        }
        m.insert("values-roundtrip-ok".into(), json!(all.rt_ok[pi]));
        m.insert("values-roundtrip-FAIL".into(), json!(all.rt_fail[pi]));
        m.insert("serde-roundtrip-ok".into(), json!(all.serde_ok[pi]));
        m.insert("serde-roundtrip-FAIL".into(), json!(all.serde_fail[pi]));
        if all.rt_ok[pi] > 0 {
            run.outcome_n(&format!("{}:value-roundtrip-ok", p.name()), all.rt_ok[pi]);
        }
        if all.rt_fail[pi] > 0 {
            run.outcome_n(&format!("{}:value-roundtrip-FAIL", p.name()), all.rt_fail[pi]);
        }
        if all.serde_fail[pi] > 0 {
            run.outcome_n(&format!("{}:serde-roundtrip-FAIL", p.name()), all.serde_fail[pi]);
        }
        per_parser.insert(p.name().to_string(), Value::Object(m));
    }
    for (s, pn) in all.rejdoc_samples.iter().take(5) {
        run.sample(10, || json!({"kind": "rejected-though-in-documented-grammar (counted, not a violation)", "parser": pn, "input": s}));
    }
    for (p, s) in bases.iter().step_by(bases.len() / 5 + 1) {
        run.sample(10, || json!({"kind": "edit base (displayed by the real code)", "type": p.name(), "form": s}));
    }

    let witnesses_per_class: BTreeMap<String, u64> = all.viols.iter().map(|(k, a)| (k.clone(), a.count)).collect();
    for (class, a) in &all.viols {
        // `Run` keeps the smallest witness it is given: hand it the minimal one of the class only.
        // Exact witness counts are in coverage.witnesses_per_class; the Run counter is capped.
        let w = a.min.json();
        for _ in 0..a.count.min(VIOL_CALL_CAP) {
            run.violation(class, &a.what, w.clone());
        }
    }

    let bound = format!(
        "(a) {} values round-tripped through Display/FromStr and the serde string form: {}. \
         (b) all {} strings of length <= {} over the 15-char alphabet into all 17 parsers; {} single-char edits (deletion, substitution, insertion at every position; alphabet of {} chars) of {} displayed forms \
         (5 ISD, 10 AS, 35 ISD-AS, 29 hosts, 35x29 addrs, 35x29x4 socket addrs, 700+16+8 TXT records); {} bracket-mismatch, {} numeric-overflow/sign/leading-zero, {} TXT-variant strings; every string into every parser",
        n_values,
        values_desc,
        n_exh,
        lmax,
        n_edits,
        alpha.len(),
        bases.len(),
        n_br,
        n_num,
        n_txt
    );
    run.finish(
        "exploration",
        json!({
            "evaluations": all.evals,
            "distinct_nontrivial": distinct_accepted + rt_values,
            "rule": "distinct strings accepted by at least one real parser (fnv64 of the string) + distinct (type,value) pairs whose displayed form parsed back to the same value",
            "distinct_strings_accepted_by_some_parser": distinct_accepted,
            "values_roundtripped": rt_values,
            "value_and_serde_roundtrips_ok": rt_pairs,
            "strings_evaluated": all.strings,
            "exhaustive": true,
            "bound": bound,
            "per_parser": per_parser,
            "witnesses_per_class": witnesses_per_class,
            "phase_wall_s": {"values": t_values, "exhaustive_strings": t_exh, "edits": t_edits, "special_forms": t_special},
        }),
        &[
            "grammar = displayed forms + documented alternatives: ISD \\d+ (schema pattern), decimal AS < 2^32, hex groups 1*HEXDIG of value <= 0xffff (TXT ABNF; leading zeros allowed, either case), CS/DS/Wildcard with optional _A/_M, whitespace around ',' BETWEEN TXT entries (documented by test parse_txt_payload_allows_whitespace_between_entries)",
            "host syntax is std's Ipv4Addr/Ipv6Addr FromStr (documentation silent); alternative IPv6 spellings are not alarms",
            "port: 1*DIGIT <= 65535 (leading zeros tolerated like the other decimal fields); '+' signs are violations everywhere",
            "a string rejected by the real parser although in the documented grammar is counted (rejected-though-in-grammar), not a violation: the property only bounds acceptance; displayed forms are covered by the value round-trip",
            "TXT records have no Display in the subject; records are composed per the documented ABNF from the real Display of IsdAsn and IpAddr",
            "TXT parsing is driven through additive hooks verif_parse_txt_payload / verif_resolve_txt_records (feature verif-hooks) that forward to the private functions",
            "release profile (as configured in /verif/check): slicing panics are observable, arithmetic-overflow checks are off",
        ],
    )
}

fn serde_json_map() -> vpc::serde_json::Map<String, Value> {
    vpc::serde_json::Map::new()
}
