//! C10 - a SNAP token is accepted exactly when authentic, for SNAP, and within lifetime.
//!
//! Bounded exhaustive enumeration of the mutation neighbourhood of two valid base tokens (claims
//! version 0 and 1, signed with the repo's constant Ed25519 test key): every single mutation, every
//! pair of mutations from different groups (thorough: additionally every triple from three
//! different groups over a catalogue with 32 instead of 512 signature bit flips), plus all short strings over a small alphabet. Every string is judged by
//!   * an independent acceptance predicate written here (own base64url codec, `serde_json::Value`
//!     walked by hand, `ed25519-dalek` verification, claim rules as the property words them), and
//!   * the real `SnapTokenVerifier::verify` (static key) and the real router of
//!     `snap_control::server::build_router` driven in-process with `tower::ServiceExt::oneshot`
//!     (real auth layer + real `register_snaptun_identity_handler`, recording registry).
//! A second stage drives a verifier with a real `JwksKeyStore` fed from a loopback JWKS endpoint for
//! the `kid` branches.
//!
//! Wall clock: the verifier reads `SystemTime::now()` inside `jsonwebtoken` (no seam). Every case is
//! therefore built relative to a `now` read immediately before it is evaluated, all time offsets
//! keep a guard of >= 3 s from the leeway boundaries, and a case whose evaluation took > 1 s of
//! wall time is re-built and re-run. Verdict classes are thereby independent of the clock.

use std::{
    cell::RefCell,
    net::SocketAddr,
    sync::{Arc, Mutex},
    time::{Duration, Instant, SystemTime, UNIX_EPOCH},
};

use ed25519_dalek::{Signature, Signer, SigningKey, Verifier, VerifyingKey};
use rayon::prelude::*;
use serde_json::{Map, Value, json};
use snap_control::server::SnapTokenVerifier;
use snap_tokens::AnyClaims;
use tower::ServiceExt;

const LEEWAY: i64 = 60;
const TRUSTED_SEED: [u8; 32] = [43u8; 32]; // scion_sdk_token_validator::validator::insecure_const_ed25519_signing_key
const UNTRUSTED_SEED: [u8; 32] = [99u8; 32];
const JWKS_SEED: [u8; 32] = [7u8; 32];
const V0_PSSID: &str = "ef16640f-0fa9-4360-be74-dbeec7ab4f9a";
const V1_PSSID: &str = "ABI-RWfomxLTpFZCZhQXQAA"; // base64url(0x00 || uuid)

// ---------------------------------------------------------------------------------------------
// own base64url codec (RFC 4648 §5, no padding, canonical)
// ---------------------------------------------------------------------------------------------
const B64: &[u8; 64] = b"ABCDEFGHIJKLMNOPQRSTUVWXYZabcdefghijklmnopqrstuvwxyz0123456789-_";

fn b64e(b: &[u8]) -> String {
    let mut s = String::with_capacity(b.len() * 4 / 3 + 3);
    for c in b.chunks(3) {
        let n = (c[0] as u32) << 16 | (*c.get(1).unwrap_or(&0) as u32) << 8 | *c.get(2).unwrap_or(&0) as u32;
        s.push(B64[(n >> 18) as usize & 63] as char);
        s.push(B64[(n >> 12) as usize & 63] as char);
        if c.len() > 1 {
            s.push(B64[(n >> 6) as usize & 63] as char);
        }
        if c.len() > 2 {
            s.push(B64[n as usize & 63] as char);
        }
    }
    s
}

/// Strict decode: only the URL-safe alphabet, no '=', no impossible length, unused trailing bits zero.
fn b64d_strict(s: &str) -> Option<Vec<u8>> {
    let bytes = s.as_bytes();
    if bytes.len() % 4 == 1 {
        return None;
    }
    let mut out = Vec::with_capacity(bytes.len() * 3 / 4);
    let mut acc: u32 = 0;
    let mut nbits = 0;
    for &c in bytes {
        let v = B64.iter().position(|x| *x == c)? as u32;
        acc = (acc << 6) | v;
        nbits += 6;
        if nbits >= 8 {
            nbits -= 8;
            out.push((acc >> nbits) as u8);
            acc &= (1 << nbits) - 1;
        }
    }
    if acc != 0 {
        return None; // non-canonical trailing bits
    }
    Some(out)
}

// ---------------------------------------------------------------------------------------------
// independent acceptance predicate
// ---------------------------------------------------------------------------------------------
#[derive(Clone, Debug, PartialEq)]
enum Verdict {
    Accept { exp: u64 },
    Refuse(&'static str),
    /// The property text does not decide this string (stated in the evidence assumptions).
    Unspecified(&'static str),
}

fn as_u64_int(v: &Value) -> Option<u64> {
    // an integer literal (serde_json keeps `1.0` as f64, which is not an integer literal)
    match v {
        Value::Number(n) if n.is_u64() => n.as_u64(),
        _ => None,
    }
}

fn is_uuid_text(s: &str) -> bool {
    // hyphenated 8-4-4-4-12 hex (the form the v0 issuer writes)
    let b = s.as_bytes();
    b.len() == 36
        && b.iter().enumerate().all(|(i, c)| match i {
            8 | 13 | 18 | 23 => *c == b'-',
            _ => c.is_ascii_hexdigit(),
        })
}

/// `keys`: (kid or None for the statically configured key, verifying key). `jwks`: whether a JWKS
/// store is configured (then a token with a `kid` must resolve through it).
fn oracle(token: &str, now: i64, static_key: &VerifyingKey, jwks: Option<&[(&str, VerifyingKey)]>) -> Verdict {
    let parts: Vec<&str> = token.split('.').collect();
    if parts.len() != 3 {
        return Verdict::Refuse("not-three-segments");
    }
    let Some(hb) = b64d_strict(parts[0]) else { return Verdict::Refuse("header-not-base64url") };
    let Some(pb) = b64d_strict(parts[1]) else { return Verdict::Refuse("payload-not-base64url") };
    let Some(sb) = b64d_strict(parts[2]) else { return Verdict::Refuse("signature-not-base64url") };
    let Ok(Value::Object(h)) = serde_json::from_slice::<Value>(&hb) else { return Verdict::Refuse("header-not-json-object") };
    match h.get("alg") {
        Some(Value::String(a)) if a == "EdDSA" => {}
        Some(Value::String(a)) if a == "none" => return Verdict::Refuse("alg-none"),
        Some(Value::String(_)) => return Verdict::Refuse("alg-not-eddsa"),
        Some(_) => return Verdict::Refuse("alg-not-a-string"),
        None => return Verdict::Refuse("alg-absent"),
    }
    // JOSE header parameters typ / kid are strings (RFC 7515 §4.1.4, §4.1.9)
    for k in ["typ", "kid"] {
        match h.get(k) {
            None | Some(Value::String(_)) => {}
            Some(_) => return Verdict::Refuse("header-param-not-a-string"),
        }
    }
    let key = match (h.get("kid"), jwks) {
        (Some(Value::String(kid)), Some(set)) => match set.iter().find(|(k, _)| k == kid) {
            Some((_, k)) => k,
            None => return Verdict::Refuse("kid-unknown"),
        },
        _ => static_key,
    };
    let Ok(sig) = Signature::from_slice(&sb) else { return Verdict::Refuse("signature-not-64-bytes") };
    let msg = format!("{}.{}", parts[0], parts[1]);
    if key.verify(msg.as_bytes(), &sig).is_err() {
        return Verdict::Refuse("signature-invalid");
    }
    let Ok(Value::Object(c)) = serde_json::from_slice::<Value>(&pb) else { return Verdict::Refuse("claims-not-json-object") };
    // claims version
    let ver = match c.get("ver") {
        None => 0,
        Some(v) => match as_u64_int(v) {
            Some(1) => 1,
            Some(_) => return Verdict::Refuse("version-unsupported"),
            None => return Verdict::Refuse("version-not-an-integer"),
        },
    };
    let str_claim = |k: &str| matches!(c.get(k), Some(Value::String(_)));
    let int_claim = |k: &str| c.get(k).and_then(as_u64_int);
    // required claims of the version, in the type the version defines
    let Some(exp) = int_claim("exp") else { return Verdict::Refuse("exp-missing-or-not-integer") };
    if !str_claim("jti") {
        return Verdict::Refuse("jti-missing-or-not-string");
    }
    let Some(Value::String(pssid)) = c.get("pssid") else { return Verdict::Refuse("pssid-missing-or-not-string") };
    if ver == 0 {
        if !is_uuid_text(pssid) {
            return Verdict::Refuse("pssid-not-v0-form");
        }
    } else {
        match b64d_strict(pssid) {
            Some(b) if b.len() == 17 && b[0] == 0 => {}
            _ => return Verdict::Refuse("pssid-not-v1-form"),
        }
        if !str_claim("iss") {
            return Verdict::Refuse("iss-missing-or-not-string");
        }
        if !str_claim("aud") {
            return Verdict::Refuse("aud-missing-or-not-string");
        }
        if int_claim("nbf").is_none() {
            return Verdict::Refuse("nbf-missing-or-not-integer");
        }
        if int_claim("iat").is_none() {
            return Verdict::Refuse("iat-missing-or-not-integer");
        }
    }
    // audience: whenever the token names an audience it must name "snap"
    match c.get("aud") {
        None | Some(Value::Null) => {}
        Some(Value::String(a)) => {
            if a != "snap" {
                return Verdict::Refuse("aud-not-snap");
            }
        }
        Some(Value::Array(items)) => {
            let names: Vec<&str> = items.iter().filter_map(|x| x.as_str()).collect();
            if names.contains(&"snap") {
                if names.len() != items.len() {
                    return Verdict::Unspecified("aud-array-with-snap-and-non-strings");
                }
            } else if !names.is_empty() {
                return Verdict::Refuse(if names.len() == items.len() { "aud-not-snap" } else { "aud-mixed-array-not-snap" });
            } else {
                return Verdict::Unspecified("aud-present-but-names-nothing");
            }
        }
        Some(_) => return Verdict::Unspecified("aud-present-but-names-nothing"),
    }
    // validity window, fixed leeway
    if (exp as i128) + (LEEWAY as i128) < now as i128 {
        return Verdict::Refuse("expired");
    }
    // "not before its not-before time when it has one" presumes a time: an integer in u64 range.
    // Anything else under `nbf` (null, float, negative, string, ...) is left undecided in a v0 token
    // (v1 already refused it above as a required claim of the wrong type).
    match c.get("nbf") {
        None => {}
        Some(v) => match as_u64_int(v) {
            Some(nbf) => {
                if (nbf as i128) - (LEEWAY as i128) > now as i128 {
                    return Verdict::Refuse("nbf-in-future");
                }
            }
            None => return Verdict::Unspecified("nbf-present-but-not-a-time"),
        },
    }
    Verdict::Accept { exp }
}

// ---------------------------------------------------------------------------------------------
// mutation catalogue
// ---------------------------------------------------------------------------------------------
#[derive(Clone, Debug)]
enum ClaimOp {
    Remove,
    Set(Value),
    /// now + offset as integer / as decimal string / as one-element array / as float
    Time(i64),
    TimeStr(i64),
    TimeArr(i64),
    TimeFloat(i64),
}
#[derive(Clone, Debug)]
enum SigOp {
    Flip(u16),
    Trunc(usize),
    Append,
    Empty,
    Zero,
    /// the other base token's signature
    Splice,
    /// re-signed with a key the verifier does not trust
    Untrusted,
    /// signature computed before the header/claim mutations were applied
    Stale,
    /// same 64 bytes, non-canonical base64 (unused bits of the last character set)
    TrailBits,
    /// signed with the JWKS key (kid "k1")
    JwksKey,
}
#[derive(Clone, Debug)]
enum StrOp {
    Pad(usize),
    StdAlphabet,
    LeadSpace,
    TrailSpace,
    InnerSpace,
    Newline,
    Tab,
    TrailDot,
    FourthSeg,
    LeadDot,
    DoubleDot,
    EmptyString,
    OneSeg,
    TwoSeg,
    TwoSegDot,
    SwapHeaderPayload,
    PayloadTwice,
}
#[derive(Clone, Debug)]
enum Op {
    Hdr(&'static str, Option<Value>),
    Claim(&'static str, ClaimOp),
    Sig(SigOp),
    Str(StrOp),
}
#[derive(Clone, Debug)]
struct Mutn {
    group: String,
    id: String,
    op: Op,
}

fn m(group: &str, id: String, op: Op) -> Mutn {
    Mutn { group: group.to_string(), id, op }
}

const TIME_OFFS: [i64; 8] = [-3600, -64, -58, -3, 3, 57, 63, 3600];

fn catalogue(base_ver: u8, flip_step: usize) -> Vec<Mutn> {
    let mut v = vec![];
    // header
    for (name, val) in [
        ("none", Some(json!("none"))),
        ("HS256", Some(json!("HS256"))),
        ("ES256", Some(json!("ES256"))),
        ("RS256", Some(json!("RS256"))),
        ("eddsa", Some(json!("eddsa"))),
        ("Ed25519", Some(json!("Ed25519"))),
        ("number", Some(json!(5))),
        ("null", Some(Value::Null)),
        ("absent", None),
    ] {
        v.push(m("alg", format!("alg={name}"), Op::Hdr("alg", val)));
    }
    for (name, val) in [("absent", None), ("jwt", Some(json!("jwt"))), ("at+jwt", Some(json!("at+jwt"))), ("number", Some(json!(7)))] {
        v.push(m("typ", format!("typ={name}"), Op::Hdr("typ", val)));
    }
    for (name, val) in [("k1", Some(json!("k1"))), ("unknown", Some(json!("nobody"))), ("empty", Some(json!(""))), ("number", Some(json!(7)))] {
        v.push(m("kid", format!("kid={name}"), Op::Hdr("kid", val)));
    }
    // claims
    let present: &[&str] = if base_ver == 0 { &["pssid", "exp", "jti"] } else { &["ver", "iss", "aud", "exp", "nbf", "iat", "jti", "pssid"] };
    let has = |c: &str| present.contains(&c);
    // ver
    {
        let g = "c:ver";
        if has("ver") {
            v.push(m(g, "ver:remove".into(), Op::Claim("ver", ClaimOp::Remove)));
        }
        for (name, val) in [("0", json!(0)), ("1", json!(1)), ("2", json!(2)), ("str1", json!("1")), ("1.0", json!(1.0)), ("null", Value::Null), ("arr1", json!([1])), ("-1", json!(-1)), ("true", json!(true))] {
            v.push(m(g, format!("ver={name}"), Op::Claim("ver", ClaimOp::Set(val))));
        }
    }
    // string claims iss, jti
    for c in ["iss", "jti"] {
        let g = format!("c:{c}");
        if has(c) {
            v.push(m(&g, format!("{c}:remove"), Op::Claim(c, ClaimOp::Remove)));
        }
        for (name, val) in [("number", json!(12345)), ("array", json!(["ssr"])), ("null", Value::Null), ("empty", json!("")), ("other", json!("someone-else")), ("object", json!({}))] {
            v.push(m(&g, format!("{c}={name}"), Op::Claim(c, ClaimOp::Set(val))));
        }
    }
    // aud
    {
        let g = "c:aud";
        if has("aud") {
            v.push(m(g, "aud:remove".into(), Op::Claim("aud", ClaimOp::Remove)));
        }
        for (name, val) in [
            ("snap", json!("snap")),
            ("[snap]", json!(["snap"])),
            ("[snap,x]", json!(["snap", "x"])),
            ("[x,snap]", json!(["x", "snap"])),
            ("x", json!("x")),
            ("[x]", json!(["x"])),
            ("[]", json!([])),
            ("SNAP", json!("SNAP")),
            ("snap-suffix", json!("snap2")),
            ("number", json!(12345)),
            ("[x,5]", json!(["x", 5])),
            ("[5]", json!([5])),
            ("null", Value::Null),
            ("object", json!({"snap": true})),
            ("empty", json!("")),
        ] {
            v.push(m(g, format!("aud={name}"), Op::Claim("aud", ClaimOp::Set(val))));
        }
    }
    // time claims
    for c in ["exp", "nbf", "iat"] {
        let g = format!("c:{c}");
        if has(c) {
            v.push(m(&g, format!("{c}:remove"), Op::Claim(c, ClaimOp::Remove)));
        }
        for off in TIME_OFFS {
            v.push(m(&g, format!("{c}:now{off:+}"), Op::Claim(c, ClaimOp::Time(off))));
        }
        for off in [-3600i64, 3600] {
            v.push(m(&g, format!("{c}:str(now{off:+})"), Op::Claim(c, ClaimOp::TimeStr(off))));
            v.push(m(&g, format!("{c}:arr(now{off:+})"), Op::Claim(c, ClaimOp::TimeArr(off))));
            v.push(m(&g, format!("{c}:float(now{off:+})"), Op::Claim(c, ClaimOp::TimeFloat(off))));
        }
        for (name, val) in [("null", Value::Null), ("-1", json!(-1)), ("0", json!(0)), ("u64max", json!(u64::MAX)), ("1e30", json!(1e30)), ("true", json!(true)), ("object", json!({}))] {
            v.push(m(&g, format!("{c}={name}"), Op::Claim(c, ClaimOp::Set(val))));
        }
    }
    // pssid
    {
        let g = "c:pssid";
        v.push(m(g, "pssid:remove".into(), Op::Claim("pssid", ClaimOp::Remove)));
        for (name, val) in [
            ("v0form", json!(V0_PSSID)),
            ("v1form", json!(V1_PSSID)),
            ("garbage", json!("not a pssid")),
            ("v1-16bytes", json!(b64e(&[0u8; 16]))),
            ("v1-firstbyte1", json!(b64e(&[1u8; 17]))),
            ("v1-padded", json!(format!("{V1_PSSID}="))),
            ("number", json!(12345)),
            ("array", json!([V0_PSSID])),
            ("null", Value::Null),
            ("empty", json!("")),
        ] {
            // setting the base's own form is the identity and is filtered out later
            v.push(m(g, format!("pssid={name}"), Op::Claim("pssid", ClaimOp::Set(val))));
        }
    }
    // signature
    {
        let g = "sig";
        let mut bit = 0usize;
        while bit < 512 {
            v.push(m(g, format!("sig:flip{bit}"), Op::Sig(SigOp::Flip(bit as u16))));
            bit += flip_step;
        }
        for n in [63usize, 32, 1] {
            v.push(m(g, format!("sig:trunc{n}"), Op::Sig(SigOp::Trunc(n))));
        }
        v.push(m(g, "sig:append".into(), Op::Sig(SigOp::Append)));
        v.push(m(g, "sig:empty".into(), Op::Sig(SigOp::Empty)));
        v.push(m(g, "sig:zero".into(), Op::Sig(SigOp::Zero)));
        v.push(m(g, "sig:splice-other-token".into(), Op::Sig(SigOp::Splice)));
        v.push(m(g, "sig:untrusted-key".into(), Op::Sig(SigOp::Untrusted)));
        v.push(m(g, "sig:stale".into(), Op::Sig(SigOp::Stale)));
        v.push(m(g, "sig:trailing-bits".into(), Op::Sig(SigOp::TrailBits)));
        v.push(m(g, "sig:jwks-key".into(), Op::Sig(SigOp::JwksKey)));
    }
    // encoding / structure
    {
        let g = "str";
        for s in 0..3 {
            v.push(m(g, format!("str:pad-seg{s}"), Op::Str(StrOp::Pad(s))));
        }
        for (id, op) in [
            ("str:std-alphabet", StrOp::StdAlphabet),
            ("str:lead-space", StrOp::LeadSpace),
            ("str:trail-space", StrOp::TrailSpace),
            ("str:inner-space", StrOp::InnerSpace),
            ("str:newline", StrOp::Newline),
            ("str:tab", StrOp::Tab),
            ("str:trail-dot", StrOp::TrailDot),
            ("str:fourth-seg", StrOp::FourthSeg),
            ("str:lead-dot", StrOp::LeadDot),
            ("str:double-dot", StrOp::DoubleDot),
            ("str:empty", StrOp::EmptyString),
            ("str:one-seg", StrOp::OneSeg),
            ("str:two-seg", StrOp::TwoSeg),
            ("str:two-seg-dot", StrOp::TwoSegDot),
            ("str:swap-header-payload", StrOp::SwapHeaderPayload),
            ("str:payload-twice", StrOp::PayloadTwice),
        ] {
            v.push(m(g, id.to_string(), Op::Str(op)));
        }
    }
    v
}

// ---------------------------------------------------------------------------------------------
// token builder
// ---------------------------------------------------------------------------------------------
struct Keys {
    trusted: SigningKey,
    untrusted: SigningKey,
    jwks: SigningKey,
}
impl Keys {
    fn new() -> Keys {
        Keys { trusted: SigningKey::from_bytes(&TRUSTED_SEED), untrusted: SigningKey::from_bytes(&UNTRUSTED_SEED), jwks: SigningKey::from_bytes(&JWKS_SEED) }
    }
}

fn base_parts(base_ver: u8, now: i64) -> (Map<String, Value>, Map<String, Value>) {
    let h = json!({"typ": "JWT", "alg": "EdDSA"});
    let c = if base_ver == 0 {
        json!({"pssid": V0_PSSID, "exp": now + 1800, "jti": "jti-v0"})
    } else {
        json!({"ver": 1, "iss": "ssr", "aud": "snap", "exp": now + 1800, "nbf": now - 30, "iat": now - 30, "jti": "jti-v1", "pssid": V1_PSSID})
    };
    (h.as_object().unwrap().clone(), c.as_object().unwrap().clone())
}

fn signed(keys: &SigningKey, h: &Map<String, Value>, c: &Map<String, Value>) -> (String, Vec<u8>) {
    let msg = format!("{}.{}", b64e(serde_json::to_string(h).unwrap().as_bytes()), b64e(serde_json::to_string(c).unwrap().as_bytes()));
    let sig = keys.sign(msg.as_bytes()).to_bytes().to_vec();
    (msg, sig)
}

fn build(base_ver: u8, muts: &[&Mutn], now: i64, keys: &Keys) -> String {
    let (h0, c0) = base_parts(base_ver, now);
    let (mut h, mut c) = (h0.clone(), c0.clone());
    for mu in muts {
        match &mu.op {
            Op::Hdr(k, None) => {
                h.remove(*k);
            }
            Op::Hdr(k, Some(v)) => {
                h.insert(k.to_string(), v.clone());
            }
            Op::Claim(k, op) => match op {
                ClaimOp::Remove => {
                    c.remove(*k);
                }
                ClaimOp::Set(v) => {
                    c.insert(k.to_string(), v.clone());
                }
                ClaimOp::Time(o) => {
                    c.insert(k.to_string(), json!(now + o));
                }
                ClaimOp::TimeStr(o) => {
                    c.insert(k.to_string(), json!((now + o).to_string()));
                }
                ClaimOp::TimeArr(o) => {
                    c.insert(k.to_string(), json!([now + o]));
                }
                ClaimOp::TimeFloat(o) => {
                    c.insert(k.to_string(), json!((now + o) as f64 + 0.5));
                }
            },
            _ => {}
        }
    }
    if muts.iter().any(|x| matches!(x.op, Op::Str(StrOp::StdAlphabet))) {
        // five '~' always contain a 3-byte-aligned "~~~" = base64url "fn5-": the header segment then surely
        // contains a character that differs between the two alphabets (keeps the case independent of the
        // signature bytes, hence of the clock)
        h.insert("x".into(), json!("~~~~~"));
    }
    let (msg, mut sig) = signed(&keys.trusted, &h, &c);
    let mut sig_text: Option<String> = None;
    for mu in muts {
        if let Op::Sig(op) = &mu.op {
            match op {
                SigOp::Flip(b) => sig[*b as usize / 8] ^= 0x80 >> (*b % 8),
                SigOp::Trunc(n) => sig.truncate(*n),
                SigOp::Append => sig.push(0),
                SigOp::Empty => sig.clear(),
                SigOp::Zero => sig = vec![0u8; 64],
                SigOp::Splice => {
                    let (oh, oc) = base_parts(1 - base_ver, now);
                    sig = signed(&keys.trusted, &oh, &oc).1;
                }
                SigOp::Untrusted => sig = keys.untrusted.sign(msg.as_bytes()).to_bytes().to_vec(),
                SigOp::JwksKey => sig = keys.jwks.sign(msg.as_bytes()).to_bytes().to_vec(),
                SigOp::Stale => sig = signed(&keys.trusted, &h0, &c0).1,
                SigOp::TrailBits => {
                    // 64 bytes -> 86 characters, the last one carries 4 data bits + 2 unused bits
                    let mut t = b64e(&sig).into_bytes();
                    let last = *t.last().unwrap();
                    let v = B64.iter().position(|x| *x == last).unwrap();
                    *t.last_mut().unwrap() = B64[v | 1];
                    sig_text = Some(String::from_utf8(t).unwrap());
                }
            }
        }
    }
    let s64 = sig_text.unwrap_or_else(|| b64e(&sig));
    let (h64, p64) = msg.split_once('.').unwrap();
    let mut tok = format!("{h64}.{p64}.{s64}");
    for mu in muts {
        if let Op::Str(op) = &mu.op {
            let segs: Vec<String> = tok.split('.').map(|x| x.to_string()).collect();
            let seg = |i: usize| segs.get(i).cloned().unwrap_or_default();
            tok = match op {
                StrOp::Pad(i) => {
                    let mut s = segs.clone();
                    if let Some(x) = s.get_mut(*i) {
                        let pad = (4 - x.len() % 4) % 4;
                        x.push_str(&"=".repeat(pad.max(1)));
                    }
                    s.join(".")
                }
                StrOp::StdAlphabet => {
                    // force at least one character that differs between the two alphabets: re-encode is
                    // not possible without re-signing, so translate and, if nothing changed, say so by
                    // returning the unchanged string (filtered as identity)
                    tok.replace('-', "+").replace('_', "/")
                }
                StrOp::LeadSpace => format!(" {tok}"),
                StrOp::TrailSpace => format!("{tok} "),
                StrOp::InnerSpace => format!("{}. {}.{}", seg(0), seg(1), seg(2)),
                StrOp::Newline => format!("{tok}\n"),
                StrOp::Tab => format!("{}.{}\t.{}", seg(0), seg(1), seg(2)),
                StrOp::TrailDot => format!("{tok}."),
                StrOp::FourthSeg => format!("{tok}.{}", seg(2)),
                StrOp::LeadDot => format!(".{tok}"),
                StrOp::DoubleDot => format!("{}..{}.{}", seg(0), seg(1), seg(2)),
                StrOp::EmptyString => String::new(),
                StrOp::OneSeg => seg(0),
                StrOp::TwoSeg => format!("{}.{}", seg(0), seg(1)),
                StrOp::TwoSegDot => format!("{}.{}.", seg(0), seg(1)),
                StrOp::SwapHeaderPayload => format!("{}.{}.{}", seg(1), seg(0), seg(2)),
                StrOp::PayloadTwice => format!("{}.{}.{}", seg(0), seg(0), seg(2)),
            };
        }
    }
    tok
}

// ---------------------------------------------------------------------------------------------
// real side
// ---------------------------------------------------------------------------------------------
#[derive(Default)]
struct RecordingRegistry {
    calls: Mutex<Vec<(Duration, String)>>,
}
impl snap_control::api::crpc::model::SnapTunIdentityRegistry for RecordingRegistry {
    fn register(&self, _now: Instant, key: &str, _id: [u8; 32], _psk: Option<[u8; 32]>, lifetime: Duration, _claims: &AnyClaims) -> anyhow::Result<bool> {
        self.calls.lock().unwrap().push((lifetime, key.to_string()));
        Ok(true)
    }
    fn remove_expired(&self, _now: Instant) {}
}
struct NoUnderlays;
impl snap_control::model::UnderlayDiscovery for NoUnderlays {
    fn list_snap_underlays(&self) -> Vec<snap_control::model::SnapUnderlay> {
        vec![]
    }
    fn list_udp_underlays(&self) -> Vec<snap_control::model::UdpUnderlay> {
        vec![]
    }
}
struct NoSegments;
#[async_trait::async_trait]
impl endhost_api_models::SegmentsDiscovery for NoSegments {
    async fn list_segments(
        &self,
        _src: sciparse::identifier::isd_asn::IsdAsn,
        _dst: sciparse::identifier::isd_asn::IsdAsn,
        _page_size: i32,
        _page_token: String,
    ) -> Result<sciparse::segment::SegmentsPage, endhost_api_models::SegmentsError> {
        Err(endhost_api_models::SegmentsError::InternalError("not part of this check".into()))
    }
}
struct NoResolver;
impl snap_control::api::crpc::model::SnapDataPlaneResolver for NoResolver {
    fn get_data_plane_address(&self, _ip: std::net::IpAddr) -> Result<snap_control::api::crpc::model::SnapDataPlane, (http::StatusCode, anyhow::Error)> {
        Err((http::StatusCode::NOT_FOUND, anyhow::anyhow!("not part of this check")))
    }
}

struct Real {
    rt: tokio::runtime::Runtime,
    verifier: SnapTokenVerifier,
    router: axum::Router,
    registry: Arc<RecordingRegistry>,
}

fn static_verifier() -> SnapTokenVerifier {
    let (_, decoding_key) = snap_tokens::v0::insecure_const_snap_token_key_pair();
    SnapTokenVerifier::new(decoding_key)
}

impl Real {
    fn new(verifier: SnapTokenVerifier) -> Real {
        let rt = tokio::runtime::Builder::new_current_thread().enable_all().build().expect("tokio runtime");
        let registry = Arc::new(RecordingRegistry::default());
        let router = {
            let _g = rt.enter();
            snap_control::server::build_router(
                NoUnderlays,
                url::Url::parse("http://127.0.0.1:1/").unwrap(),
                NoSegments,
                NoResolver,
                registry.clone(),
                None,
                verifier.clone(),
                snap_control::server::metrics::Metrics::new(&scion_sdk_observability::metrics::registry::MetricsRegistry::new()),
            )
            .expect("build_router")
        };
        Real { rt, verifier, router, registry }
    }

    /// `SnapTokenVerifier::verify`: Ok(exp as the real claims report it) or Err(text).
    fn verify(&self, token: &str) -> Result<Result<u64, String>, String> {
        vpc::catch(|| {
            self.rt.block_on(async {
                match self.verifier.verify(token).await {
                    // exp as the returned claims carry it (read through their own serialisation)
                    Ok(claims) => Ok(serde_json::to_value(&claims).ok().and_then(|v| v.get("exp").and_then(|e| e.as_u64())).unwrap_or(0)),
                    Err(e) => Err(e.to_string()),
                }
            })
        })
    }

    /// Real router: POST RegisterSnapTunIdentity with `Authorization: Bearer <token>`. Returns
    /// (status, lifetime passed to the registry if it was called), or None when the string cannot
    /// be carried in an HTTP header value at all.
    fn route(&self, token: &str) -> Option<Result<(u16, Option<Duration>), String>> {
        let hv = http::HeaderValue::from_str(&format!("Bearer {token}")).ok()?;
        let mut body = vec![0x0a, 32];
        body.extend_from_slice(&[0x11u8; 32]); // initiator_static_x25519
        body.extend_from_slice(&[0x12, 32]);
        body.extend_from_slice(&[0u8; 32]); // psk_share: all zero = none
        let req = http::Request::builder()
            .method("POST")
            .uri("/anapaya.snap.v1.SnapControl/RegisterSnapTunIdentity")
            .header("content-type", "application/proto")
            .header("authorization", hv)
            .extension(axum::extract::ConnectInfo(SocketAddr::from(([192, 0, 2, 7], 40000))))
            .body(axum::body::Body::from(body))
            .expect("request");
        self.registry.calls.lock().unwrap().clear();
        let router = self.router.clone();
        let r = vpc::catch(|| self.rt.block_on(async { router.oneshot(req).await.map(|resp| resp.status().as_u16()) }));
        Some(match r {
            Err(p) => Err(format!("panic: {p}")),
            Ok(Err(e)) => Err(format!("router error: {e}")),
            Ok(Ok(status)) => {
                let calls = self.registry.calls.lock().unwrap();
                if calls.len() > 1 {
                    Err(format!("registry called {} times", calls.len()))
                } else {
                    Ok((status, calls.first().map(|c| c.0)))
                }
            }
        })
    }
}

thread_local! {
    static REAL: RefCell<Option<Real>> = const { RefCell::new(None) };
}
fn with_real<T>(f: impl FnOnce(&Real) -> T) -> T {
    REAL.with(|r| {
        let mut r = r.borrow_mut();
        if r.is_none() {
            *r = Some(Real::new(static_verifier()));
        }
        f(r.as_ref().unwrap())
    })
}

fn unix_now() -> (i64, SystemTime) {
    let t = SystemTime::now();
    (t.duration_since(UNIX_EPOCH).unwrap().as_secs() as i64, t)
}

// ---------------------------------------------------------------------------------------------
// one case
// ---------------------------------------------------------------------------------------------
struct CaseResult {
    token: String,
    now: i64,
    oracle: Verdict,
    real: Result<u64, String>,
    route: Option<(u16, Option<Duration>)>,
    /// (class, text) of each disagreement
    problems: Vec<(String, String)>,
}

fn judge(token: &str, now: i64, t0: SystemTime, o: &Verdict, real: &Real, problems: &mut Vec<(String, String)>) -> (Result<u64, String>, Option<(u16, Option<Duration>)>) {
    let rv = match real.verify(token) {
        Ok(r) => r,
        Err(p) => {
            problems.push((format!("panic@{}", vpc::last_panic_location()), format!("SnapTokenVerifier::verify panicked: {p}")));
            Err("panic".into())
        }
    };
    match (o, &rv) {
        (Verdict::Accept { exp }, Ok(e)) => {
            if exp != e {
                problems.push(("claims-exp-differs".into(), format!("verifier returned claims with exp {e}, the token says {exp}")));
            }
        }
        (Verdict::Accept { .. }, Err(e)) => problems.push(("valid-token-refused".into(), format!("token satisfies every condition of the property but verify() refused it: {e}"))),
        (Verdict::Refuse(why), Ok(_)) => problems.push((format!("{why}-accepted"), format!("verify() accepted a token the property refuses ({why})"))),
        (Verdict::Refuse(_), Err(_)) | (Verdict::Unspecified(_), _) => {}
    }
    // router: 401 <=> verify() refuses; registration only with lifetime <= exp - now
    let route = match real.route(token) {
        None => None,
        Some(Err(e)) => {
            let class = if e.contains("overflow when adding duration") {
                "handler-panic-exp-time-overflow".to_string()
            } else if e.starts_with("panic") {
                format!("handler-panic@{}", vpc::last_panic_location())
            } else {
                "router-failure".to_string()
            };
            problems.push((class, format!("request with this bearer token: {e}")));
            None
        }
        Some(Ok((status, life))) => {
            let refused = status == 401;
            if refused != rv.is_err() {
                problems.push((
                    if refused { "auth-layer-refuses-what-verifier-accepts".into() } else { "auth-layer-passes-what-verifier-refuses".into() },
                    format!("router status {status}, verify() = {rv:?}"),
                ));
            }
            if let Some(life) = life {
                if !(200..300).contains(&status) {
                    problems.push(("registered-but-not-2xx".into(), format!("registry was called but status {status}")));
                }
                match &rv {
                    Ok(exp) => {
                        // exp may be any u64: never add it to a SystemTime unchecked
                        let remaining = match UNIX_EPOCH.checked_add(Duration::from_secs(*exp)) {
                            Some(t) => t.duration_since(t0).unwrap_or(Duration::ZERO),
                            None => Duration::MAX,
                        };
                        if life > remaining {
                            problems.push(("lifetime-exceeds-remaining".into(), format!("granted {life:?} > exp - now = {remaining:?}")));
                        }
                    }
                    Err(_) => problems.push(("registered-without-valid-token".into(), format!("registry called with lifetime {life:?} although verify() refuses"))),
                }
            } else if let (Ok(exp), true) = (&rv, (200..300).contains(&status)) {
                problems.push(("2xx-without-registration".into(), format!("status {status}, exp {exp}")));
            }
            if let Ok(exp) = &rv {
                // tokens with >= 3 s of life left must be served; tokens already past exp must not register
                if *exp as i128 >= now as i128 + 3 && !(200..300).contains(&status) {
                    problems.push(("valid-token-not-served".into(), format!("verify() accepts, {}s of life left, status {status}", *exp as i128 - now as i128)));
                }
                if (*exp as i128) <= now as i128 - 3 && life.is_some() {
                    problems.push(("registration-after-expiry".into(), format!("exp is {}s in the past (inside leeway) and a registration was granted", now as i128 - *exp as i128)));
                }
            }
            Some((status, life))
        }
    };
    (rv, route)
}

fn run_case(base_ver: u8, muts: &[&Mutn], keys: &Keys, static_pk: &VerifyingKey) -> CaseResult {
    with_real(|real| {
        let mut last = None;
        for _attempt in 0..4 {
            let (now, t0) = unix_now();
            let token = build(base_ver, muts, now, keys);
            let o = oracle(&token, now, static_pk, None);
            let mut problems = vec![];
            let (rv, route) = judge(&token, now, t0, &o, real, &mut problems);
            let (after, _) = unix_now();
            let res = CaseResult { token, now, oracle: o, real: rv, route, problems };
            if after - now <= 1 {
                return res;
            }
            last = Some(res);
        }
        // the machine stalled four times in a row: keep the last result only if it shows no problem
        let mut r = last.unwrap();
        r.problems.clear();
        r.oracle = Verdict::Unspecified("clock-drift-during-evaluation");
        r
    })
}

fn outcome_class(r: &CaseResult) -> String {
    let o = match &r.oracle {
        Verdict::Accept { .. } => "accept".to_string(),
        Verdict::Refuse(w) => format!("refuse({w})"),
        Verdict::Unspecified(w) => format!("unspecified({w})"),
    };
    let v = if r.real.is_ok() { "accepted" } else { "refused" };
    let rt = match &r.route {
        None if r.problems.iter().any(|(c, _)| c.starts_with("handler-panic") || c == "router-failure") => "failed".to_string(),
        None => "unsendable".to_string(),
        Some((s, l)) => format!("{s}{}", if l.is_some() { "+registered" } else { "" }),
    };
    format!("oracle={o} verify={v} router={rt}")
}

fn witness(base_ver: u8, muts: &[&Mutn], r: &CaseResult) -> Value {
    json!({
        "stage": "static",
        "base": format!("v{base_ver}"),
        "mutations": muts.iter().map(|x| x.id.clone()).collect::<Vec<_>>(),
        "token": r.token,
        "now_unix": r.now,
        "oracle": format!("{:?}", r.oracle),
        "verify": format!("{:?}", r.real),
        "router": format!("{:?}", r.route),
        // vpc keeps the shortest witness per class: make "fewest mutations" the shortest
        "pad": "-".repeat(400 * muts.len().saturating_sub(1)),
    })
}

// ---------------------------------------------------------------------------------------------
// JWKS stage (loopback endpoint)
// ---------------------------------------------------------------------------------------------
struct JwksStage {
    rt: tokio::runtime::Runtime,
    verifier: SnapTokenVerifier,
}
impl JwksStage {
    fn start(keys: &Keys) -> Result<JwksStage, String> {
        // reqwest (inside JwksKeyStore) needs a rustls provider; the repo's binaries install ring
        scion_sdk_utils::rustls::select_ring_crypto_provider();
        let rt = tokio::runtime::Builder::new_multi_thread().worker_threads(2).enable_all().build().map_err(|e| e.to_string())?;
        let x = b64e(keys.jwks.verifying_key().as_bytes());
        let jwks = json!({"keys": [{"kid": "k1", "kty": "OKP", "use": "sig", "alg": "EdDSA", "crv": "Ed25519", "x": x}]});
        let verifier = rt.block_on(async move {
            let listener = tokio::net::TcpListener::bind("127.0.0.1:0").await.map_err(|e| format!("bind: {e}"))?;
            let addr = listener.local_addr().map_err(|e| e.to_string())?;
            let body = jwks.to_string();
            let app = axum::Router::new().route(
                "/.well-known/jwks.json",
                axum::routing::get(move || {
                    let body = body.clone();
                    async move { ([(http::header::CONTENT_TYPE, "application/json")], body) }
                }),
            );
            tokio::spawn(async move {
                let _ = axum::serve(listener, app).await;
            });
            let url: url::Url = format!("http://{addr}/.well-known/jwks.json").parse().map_err(|e| format!("{e}"))?;
            let store = snap_control::server::jwks_key_store::JwksKeyStore::new(url, Duration::from_secs(86400), Default::default());
            Ok::<_, String>(static_verifier().with_jwks_store(Arc::new(store)))
        })?;
        Ok(JwksStage { rt, verifier })
    }
    fn verify(&self, token: &str) -> Result<Result<(), String>, String> {
        vpc::catch(|| self.rt.block_on(async { self.verifier.verify(token).await.map(|_| ()).map_err(|e| e.to_string()) }))
    }
}

// ---------------------------------------------------------------------------------------------
// enumeration
// ---------------------------------------------------------------------------------------------
fn find<'a>(cat: &'a [Mutn], id: &str) -> Option<&'a Mutn> {
    cat.iter().find(|x| x.id == id)
}

fn replay(args: &vpc::Args, file: &std::path::Path) -> ! {
    let r = vpc::read_replay(file);
    let w = &r["witness"];
    let keys = Keys::new();
    let static_pk = keys.trusted.verifying_key();
    println!("replay of {} (class {})", file.display(), r["class"]);
    let _ = args;
    if w["stage"] == "short-string" || w["mutations"].is_null() {
        let token = w["token"].as_str().unwrap_or("");
        let (now, t0) = unix_now();
        let o = oracle(token, now, &static_pk, None);
        let mut problems = vec![];
        let (rv, route) = with_real(|real| judge(token, now, t0, &o, real, &mut problems));
        println!("token   = {token:?}\noracle  = {o:?}\nverify  = {rv:?}\nrouter  = {route:?}\nproblems= {problems:?}");
        std::process::exit(if problems.is_empty() { 0 } else { 1 });
    }
    let base_ver: u8 = if w["base"] == "v1" { 1 } else { 0 };
    let cat = catalogue(base_ver, 1);
    let ids: Vec<String> = w["mutations"].as_array().map(|a| a.iter().filter_map(|x| x.as_str().map(String::from)).collect()).unwrap_or_default();
    let muts: Vec<&Mutn> = ids.iter().map(|id| find(&cat, id).unwrap_or_else(|| vpc::machinery_failure(&format!("unknown mutation id {id}")))).collect();
    if w["stage"] == "jwks" {
        let stage = JwksStage::start(&keys).unwrap_or_else(|e| vpc::machinery_failure(&format!("JWKS stage: {e}")));
        let (now, _) = unix_now();
        let token = build(base_ver, &muts, now, &keys);
        let set = [("k1", keys.jwks.verifying_key())];
        let o = oracle(&token, now, &static_pk, Some(&set));
        let rv = stage.verify(&token);
        println!("base v{base_ver}, mutations {ids:?} (rebuilt against the current clock, verifier static+JWKS)\ntoken   = {token}\noracle  = {o:?}\nverify  = {rv:?}");
        let bad = matches!((&o, &rv), (Verdict::Accept { .. }, Ok(Err(_))) | (Verdict::Refuse(_), Ok(Ok(()))) | (_, Err(_)));
        std::process::exit(if bad { 1 } else { 0 });
    }
    let res = run_case(base_ver, &muts, &keys, &static_pk);
    println!(
        "base v{base_ver}, mutations {ids:?} (rebuilt against the current clock)\ntoken   = {}\nnow     = {}\noracle  = {:?}\nverify  = {:?}\nrouter  = {:?}\nproblems= {:?}",
        res.token, res.now, res.oracle, res.real, res.route, res.problems
    );
    std::process::exit(if res.problems.is_empty() { 0 } else { 1 });
}

pub fn run(args: &vpc::Args) -> ! {
    if std::env::var_os("VP_SHOW_PANICS").is_none() {
        vpc::quiet_panics();
    }
    if let Some(f) = &args.replay {
        replay(args, f);
    }
    let run = vpc::Run::new(args);
    let keys = Keys::new();
    let static_pk = keys.trusted.verifying_key();
    // the independent key must be the key the verifier is configured with
    {
        let repo_sk = scion_sdk_token_validator::validator::insecure_const_ed25519_signing_key();
        if repo_sk.verifying_key().as_bytes() != static_pk.as_bytes() {
            vpc::machinery_failure("the repo's constant test key is no longer seed [43;32]");
        }
    }
    let thorough = run.tier == vpc::Tier::Thorough;
    let evaluations = std::sync::atomic::AtomicU64::new(0);
    let identities = std::sync::atomic::AtomicU64::new(0);
    let distinct = vpc::Distinct::default();
    let mut bound = vec![];

    let record = |base_ver: u8, muts: &[&Mutn], r: CaseResult| {
        evaluations.fetch_add(1, std::sync::atomic::Ordering::Relaxed);
        run.outcome(&outcome_class(&r));
        run.sample(6, || witness(base_ver, muts, &r));
        for (class, what) in &r.problems {
            run.violation(class, what, witness(base_ver, muts, &r));
        }
    };

    for base_ver in [0u8, 1] {
        // sanity: the unmutated base token must be accepted by both sides (else the run is vacuous)
        let r0 = run_case(base_ver, &[], &keys, &static_pk);
        if !matches!(r0.oracle, Verdict::Accept { .. }) || r0.real.is_err() {
            vpc::machinery_failure(&format!("base token v{base_ver} is not accepted: oracle {:?}, verify {:?}", r0.oracle, r0.real));
        }
        let base_token_shape = {
            // identity filter: a mutation set is an identity if it reproduces the base token
            let (now, _) = unix_now();
            (now, build(base_ver, &[], now, &keys))
        };
        // (the alphabet translation is never filtered: whether it changes the string depends on the signature bytes,
        // and the set of evaluated cases must not depend on the clock)
        let is_identity = |muts: &[&Mutn]| !muts.iter().any(|x| matches!(x.op, Op::Str(StrOp::StdAlphabet))) && build(base_ver, muts, base_token_shape.0, &keys) == base_token_shape.1;
        record(base_ver, &[], r0);

        // singles: full catalogue (all 512 signature bits)
        let cat_full = catalogue(base_ver, 1);
        let singles: Vec<&Mutn> = cat_full.iter().filter(|x| !is_identity(&[x])).collect();
        identities.fetch_add((cat_full.len() - singles.len()) as u64, std::sync::atomic::Ordering::Relaxed);
        singles.par_iter().for_each(|mu| {
            let r = run_case(base_ver, &[mu], &keys, &static_pk);
            distinct.add(format!("v{base_ver}|{}", mu.id).as_bytes());
            record(base_ver, &[mu], r);
        });

        // pairs from different groups
        let cat_pairs = catalogue(base_ver, if thorough { 1 } else { 16 });
        let cp: Vec<&Mutn> = cat_pairs.iter().filter(|x| !is_identity(&[x])).collect();
        let mut pairs = vec![];
        for i in 0..cp.len() {
            for j in i + 1..cp.len() {
                if cp[i].group != cp[j].group {
                    pairs.push((cp[i], cp[j]));
                }
            }
        }
        pairs.par_iter().for_each(|(a, b)| {
            let r = run_case(base_ver, &[a, b], &keys, &static_pk);
            distinct.add(format!("v{base_ver}|{}|{}", a.id, b.id).as_bytes());
            record(base_ver, &[a, b], r);
        });

        // triples from three different groups over the reduced catalogue (thorough)
        let mut ntriples = 0usize;
        if thorough {
            let cat_red = catalogue(base_ver, 16);
            let hc: Vec<&Mutn> = cat_red.iter().filter(|x| !is_identity(&[x])).collect();
            let mut triples = vec![];
            for i in 0..hc.len() {
                for j in i + 1..hc.len() {
                    if hc[i].group == hc[j].group {
                        continue;
                    }
                    for k in j + 1..hc.len() {
                        if hc[k].group != hc[i].group && hc[k].group != hc[j].group {
                            triples.push((hc[i], hc[j], hc[k]));
                        }
                    }
                }
            }
            ntriples = triples.len();
            triples.par_iter().for_each(|(a, b, c)| {
                let r = run_case(base_ver, &[a, b, c], &keys, &static_pk);
                distinct.add(format!("v{base_ver}|{}|{}|{}", a.id, b.id, c.id).as_bytes());
                record(base_ver, &[a, b, c], r);
            });
        }
        bound.push(format!(
            "base v{base_ver}: all {} non-identity single mutations (of {} catalogued, incl. all 512 signature bit flips); all {} pairs from different groups over {} mutations ({}); {}",
            singles.len(),
            cat_full.len(),
            pairs.len(),
            cp.len(),
            if thorough { "full catalogue" } else { "signature flips reduced to every 16th bit" },
            if thorough { format!("all {ntriples} triples from three different groups over the catalogue with signature flips reduced to every 16th bit") } else { "no triples".to_string() },
        ));
    }

    // all short strings over an alphabet that can form segment separators, padding and base64 text
    {
        let alphabet = ['.', 'e', 'A', '=', ' '];
        let maxlen = run.tier.pick(5, 7);
        let mut all = vec![String::new()];
        let mut frontier = vec![String::new()];
        for _ in 0..maxlen {
            let mut next = vec![];
            for s in &frontier {
                for c in alphabet {
                    let mut t = s.clone();
                    t.push(c);
                    next.push(t);
                }
            }
            all.extend(next.iter().cloned());
            frontier = next;
        }
        // plus: a valid header and payload followed by every short third segment
        let (now, _) = unix_now();
        let (h, c) = base_parts(0, now);
        let (msg, _) = signed(&keys.trusted, &h, &c);
        let shorts: Vec<String> = all.iter().filter(|s| s.len() <= 3).map(|s| format!("{msg}.{s}")).collect();
        all.extend(shorts);
        all.par_iter().for_each(|tok| {
            with_real(|real| {
                let (now, t0) = unix_now();
                let o = oracle(tok, now, &static_pk, None);
                let mut problems = vec![];
                let (rv, route) = judge(tok, now, t0, &o, real, &mut problems);
                let r = CaseResult { token: tok.clone(), now, oracle: o, real: rv, route, problems };
                evaluations.fetch_add(1, std::sync::atomic::Ordering::Relaxed);
                distinct.add(format!("s|{tok}").as_bytes());
                run.outcome(&outcome_class(&r));
                for (class, what) in &r.problems {
                    run.violation(class, what, json!({"stage": "short-string", "token": r.token, "oracle": format!("{:?}", r.oracle), "verify": format!("{:?}", r.real), "router": format!("{:?}", r.route)}));
                }
            })
        });
        bound.push(format!("all {} strings: every string of length <= {maxlen} over {{'.','e','A','=',' '}} and a valid header.payload followed by every such string of length <= 3", all.len()));
    }

    // JWKS stage: verifier = static key + JWKS store {k1 -> third key}
    let mut jwks_note = String::new();
    match JwksStage::start(&keys) {
        Err(e) => jwks_note = format!("JWKS stage NOT run ({e})"),
        Ok(stage) => {
            let set = [("k1", keys.jwks.verifying_key())];
            let mut n = 0u64;
            for base_ver in [0u8, 1] {
                let cat = catalogue(base_ver, 64);
                let kid: Vec<Option<&Mutn>> = std::iter::once(None).chain(cat.iter().filter(|x| x.group == "kid").map(Some)).collect();
                let sigs: Vec<Option<&Mutn>> = std::iter::once(None).chain(cat.iter().filter(|x| x.group == "sig").map(Some)).collect();
                let others: Vec<Option<&Mutn>> = std::iter::once(None).chain(cat.iter().filter(|x| x.group != "sig" && x.group != "kid" && x.group != "str").map(Some)).collect();
                for k in &kid {
                    for s in &sigs {
                        for o in &others {
                            if !thorough && o.is_some() && s.is_some() && !matches!(s.map(|x| x.id.as_str()), Some("sig:jwks-key" | "sig:untrusted-key" | "sig:stale")) {
                                continue;
                            }
                            let muts: Vec<&Mutn> = [*k, *s, *o].into_iter().flatten().collect();
                            let mut res = None;
                            for _ in 0..4 {
                                let (now, _) = unix_now();
                                let token = build(base_ver, &muts, now, &keys);
                                let ov = oracle(&token, now, &static_pk, Some(&set));
                                let rv = stage.verify(&token);
                                let (after, _) = unix_now();
                                res = Some((token, now, ov, rv));
                                if after - now <= 1 {
                                    break;
                                }
                            }
                            let (token, now, ov, rv) = res.unwrap();
                            n += 1;
                            evaluations.fetch_add(1, std::sync::atomic::Ordering::Relaxed);
                            distinct.add(format!("j|v{base_ver}|{}", muts.iter().map(|x| x.id.as_str()).collect::<Vec<_>>().join("|")).as_bytes());
                            let w = || json!({"stage": "jwks", "verifier": "static key + real JwksKeyStore fed by a loopback JWKS endpoint (kid k1 -> third key); replay needs loopback TCP", "base": format!("v{base_ver}"), "mutations": muts.iter().map(|x| x.id.clone()).collect::<Vec<_>>(), "token": token, "now_unix": now, "oracle": format!("{ov:?}"), "verify": format!("{rv:?}"), "pad": "-".repeat(400 * muts.len().saturating_sub(1))});
                            let oc = match &ov {
                                Verdict::Accept { .. } => "accept".to_string(),
                                Verdict::Refuse(x) => format!("refuse({x})"),
                                Verdict::Unspecified(x) => format!("unspecified({x})"),
                            };
                            match (&ov, &rv) {
                                (_, Err(p)) => run.violation(&format!("panic@{}", vpc::last_panic_location()), &format!("verify (JWKS) panicked: {p}"), w()),
                                (Verdict::Accept { .. }, Ok(Err(e))) => run.violation("valid-token-refused", &format!("verifier with JWKS store refused a token the property accepts: {e}"), w()),
                                (Verdict::Refuse(why), Ok(Ok(()))) => run.violation(&format!("{why}-accepted"), &format!("verifier with JWKS store accepted a token the property refuses ({why})"), w()),
                                _ => {}
                            }
                            run.outcome(&format!("jwks: oracle={oc} verify={}", if matches!(rv, Ok(Ok(()))) { "accepted" } else { "refused" }));
                        }
                    }
                }
            }
            bound.push(format!(
                "verifier static+JWKS (loopback endpoint, kid k1 -> third key): {n} tokens = kid {{absent,k1,unknown,empty,non-string}} x signature {{trusted, JWKS key, untrusted, stale, spliced, zero, truncated, 8 bit flips, ...}} x {{none, every header/claim mutation}}{}",
                if thorough { "" } else { " (quick: header/claim mutations only combined with the trusted, JWKS, untrusted and stale signatures)" }
            ));
        }
    }

    let evaluations = evaluations.into_inner();
    let mut assumptions = vec![
        "trusted glue not executed: TCP/TLS listener, HTTP header parsing of a real connection (the Authorization header value is handed to the real router in-process)",
        "Ed25519 unforgeability is assumed: strings far from any valid token are represented only by all short strings and by mutation neighbourhoods",
        "required claims are read in the type the claims version defines (v0: pssid UUID text, exp integer, jti string; v1 additionally ver=1, iss/aud strings, nbf/iat integers, pssid base64url(0x00||uuid)); integer means a JSON integer literal",
        "an `aud` that names nothing (number, object, empty array, array without strings, null) and an `nbf` that is not an integer in u64 range (null, float, negative, string, ...) in a v0 token are left undecided by the property text: counted as `unspecified`, either verdict passes",
        "every case is built relative to a `now` read just before it; offsets keep >= 3 s distance from the 60 s leeway boundaries and a case that took > 1 s is re-run, so wall-clock progress cannot flip a verdict",
    ];
    if !jwks_note.is_empty() {
        assumptions.push(&jwks_note);
    }
    let rule = "distinct mutation sets (base, sorted mutation ids) whose token string differs from the base token, plus distinct short strings; identities are filtered out before evaluation";
    let cov = json!({
        "evaluations": evaluations,
        "distinct_nontrivial": distinct.len(),
        "rule": rule,
        "identity_mutations_filtered": identities.into_inner(),
        "exhaustive": true,
        "bound": bound.join(" | "),
    });
    run.finish("exploration", cov, &assumptions);
}
