mod c08;
mod c10;

fn main() {
    let args = vpc::Args::parse();
    // A panic of harness code is never a verdict: surface it as MACHINERY-FAILURE (exit 2) with its
    // message and location. (Panics of the subject are caught per case inside the checks.)
    let r = vpc::catch(|| match args.prop.as_str() {
        "C08" => c08::run(&args),
        "C10" => c10::run(&args),
        p => vpc::machinery_failure(&format!("property {p} is not served by this binary")),
    });
    if let Err(msg) = r {
        vpc::machinery_failure(&format!("harness panic at {}: {msg}", vpc::last_panic_location()));
    }
}
