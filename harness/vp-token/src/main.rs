mod c08;
mod c10;

fn main() {
    let args = vpc::Args::parse();
    match args.prop.as_str() {
        "C08" => c08::run(&args),
        "C10" => c10::run(&args),
        p => vpc::machinery_failure(&format!("property {p} is not served by this binary")),
    }
}
