//! C08 - SNAP ingress filter: no spoofed source and no unsupported path type enters SCION.
//!
//! Bounded exhaustive enumeration of datagrams generated from the size- and decision-determining
//! fields with the independent writer `vpc::refwire` (never with sciparse):
//!   source type/length nibble (all 16) x destination nibble x path variant (types 0,1,2,3,4,5,255, with
//!   right and wrong sizes) x tunnel peer address x source host byte pattern (equal to the peer,
//!   differing in one bit (low / high) of each single byte, v4-mapped / v4-compatible / NAT64 / zero-padded / truncated forms;
//!   the type/length aliasing cases arise because every pattern is sent under every nibble of its
//!   length) x header deviation (truthful HdrLen, -1, +1, 0, 255, version 1) x payload (size and
//!   PayloadLen field) x truncation at every structural boundary and +-1.
//! Oracle: an independent decision procedure on `refwire::RHeader::parse`. Real side: the gateway's
//! `inbound_datagram_check` and, on rejection, its private `create_scmp_error` into a buffer from a
//! pool of the gateway's size (hook `snap_dataplane::tunnel_gateway::verif::ingress`).

use std::{
    collections::{BTreeMap, BTreeSet},
    net::{IpAddr, Ipv4Addr, Ipv6Addr},
    sync::atomic::{AtomicU64, Ordering},
};

use rayon::prelude::*;
use sciparse::address::host_addr::ScionHostAddr;
use serde_json::{Value, json};
use snap_dataplane::tunnel_gateway::verif::{IngressVerdict, PACKET_BUF_SIZE, ingress};
use vpc::refwire::{self, RHeader, RPath};

const SCMP_MAX: usize = 1232;
const JUMBO: usize = 9216;

fn peers() -> Vec<(&'static str, IpAddr)> {
    let a = Ipv4Addr::new(10, 1, 2, 3);
    vec![
        ("v4-A", IpAddr::V4(a)),
        ("v4-B", IpAddr::V4(Ipv4Addr::new(192, 0, 2, 77))),
        ("v6-A", IpAddr::V6("2001:db8:11:22:33:44:55:66".parse().unwrap())),
        ("v4-mapped-A", IpAddr::V6(a.to_ipv6_mapped())),
        ("v6-unspecified", IpAddr::V6(Ipv6Addr::UNSPECIFIED)),
        ("v4-unspecified", IpAddr::V4(Ipv4Addr::UNSPECIFIED)),
    ]
}

fn ip_bytes(ip: &IpAddr) -> Vec<u8> {
    match ip {
        IpAddr::V4(a) => a.octets().to_vec(),
        IpAddr::V6(a) => a.octets().to_vec(),
    }
}

/// Source host byte patterns of length `l` for a peer (name, bytes); duplicates by bytes removed.
fn src_patterns(peer: &IpAddr, l: usize) -> Vec<(String, Vec<u8>)> {
    let nat = ip_bytes(peer);
    let mut v: Vec<(String, Vec<u8>)> = vec![];
    if nat.len() == l {
        v.push(("equal-to-peer".into(), nat.clone()));
        for i in 0..l {
            for (bit, name) in [(0x01u8, "low"), (0x80, "high")] {
                let mut b = nat.clone();
                b[i] ^= bit;
                v.push((format!("differs-in-byte-{i}-{name}-bit"), b));
            }
        }
    } else if nat.len() < l {
        let mut a = nat.clone();
        a.resize(l, 0);
        v.push(("peer-then-zeros".into(), a));
        let mut b = vec![0u8; l - nat.len()];
        b.extend_from_slice(&nat);
        v.push(("zeros-then-peer".into(), b)); // for l = 16 this is the v4-compatible form ::a.b.c.d
        if l == 16 {
            let v4 = Ipv4Addr::new(nat[0], nat[1], nat[2], nat[3]);
            v.push(("v4-mapped-form-of-peer".into(), v4.to_ipv6_mapped().octets().to_vec()));
            let mut n = vec![0x00, 0x64, 0xff, 0x9b, 0, 0, 0, 0, 0, 0, 0, 0];
            n.extend_from_slice(&nat);
            v.push(("nat64-form-of-peer".into(), n));
        }
    } else {
        v.push((format!("first-{l}-bytes-of-peer"), nat[..l].to_vec()));
        v.push((format!("last-{l}-bytes-of-peer"), nat[nat.len() - l..].to_vec())); // embedded v4 of a v4-mapped peer when l = 4
    }
    v.push(("zeros".into(), vec![0u8; l]));
    v.push(("ones".into(), vec![0xffu8; l]));
    let mut seen = BTreeSet::new();
    v.retain(|(_, b)| seen.insert(b.clone()));
    v
}

/// Path variants: (name, path type byte, path bytes).
fn path_variants() -> Vec<(&'static str, u8, Vec<u8>)> {
    let info = |seg: u16| refwire::RInfo { flags: 1, rsv: 0, seg_id: seg, timestamp: 0x6000_0000 }.to_bytes().to_vec();
    let hop = |i: u16, e: u16| refwire::RHop { flags: 0, exp_time: 63, cons_ingress: i, cons_egress: e, mac: [1, 2, 3, 4, 5, 6] }.to_bytes().to_vec();
    let std = |segs: [u8; 3], hops_present: usize| {
        let p = refwire::RStdPath { curr_inf: 0, curr_hf: 0, rsv: 0, seg_len: segs, infos: vec![], hops: vec![] };
        let mut b = p.to_bytes(); // meta only
        for s in 0..segs.iter().filter(|x| **x > 0).count() {
            b.extend(info(s as u16 + 1));
        }
        for h in 0..hops_present {
            b.extend(hop(h as u16, h as u16 + 1));
        }
        b
    };
    let mut onehop = info(7);
    onehop.extend(hop(0, 1));
    onehop.extend(hop(0, 0));
    let mut onehop_long = onehop.clone();
    onehop_long.extend([0u8; 4]);
    vec![
        ("empty", 0, vec![]),
        ("empty-with-4-bytes", 0, vec![0u8; 4]),
        ("standard-1seg-2hops", 1, std([2, 0, 0], 2)),
        ("standard-3seg-6hops", 1, std([2, 2, 2], 6)),
        ("standard-meta-says-3-hops-2-present", 1, std([3, 0, 0], 2)),
        ("standard-meta-only", 1, std([2, 0, 0], 0)[..4].to_vec()),
        ("onehop", 2, onehop.clone()),
        ("onehop-36-bytes", 2, onehop_long),
        ("onehop-28-bytes", 2, onehop[..28].to_vec()),
        ("type3-empty", 3, vec![]),
        ("type3-16-bytes", 3, vec![0xA5; 16]),
        ("type4-empty", 4, vec![]),
        ("type4-as-standard", 4, std([2, 0, 0], 2)),
        ("type5-empty", 5, vec![]),
        ("type5-16-bytes", 5, vec![0x5A; 16]),
        ("type255-empty", 255, vec![]),
        ("type255-as-standard", 255, std([2, 0, 0], 2)),
    ]
}

#[derive(Clone, Copy, Debug, PartialEq)]
enum HdrMode {
    Truthful,
    HdrLenMinus1,
    HdrLenPlus1,
    HdrLenZero,
    HdrLen255,
    Version1,
}
const HDR_MODES: [HdrMode; 6] = [HdrMode::Truthful, HdrMode::HdrLenMinus1, HdrMode::HdrLenPlus1, HdrMode::HdrLenZero, HdrMode::HdrLen255, HdrMode::Version1];

/// (name, payload bytes present; usize::MAX = fill the jumbo buffer, PayloadLen field: None = truthful)
fn payload_variants(quick: bool) -> Vec<(&'static str, usize, Option<u16>)> {
    let mut v = vec![("0", 0usize, None), ("8", 8, None), ("8-field+1", 8, Some(9)), ("1232", 1232, None)];
    if !quick {
        v.extend([("8-field-0", 8, Some(0)), ("1200", 1200, None), ("1232-field-ffff", 1232, Some(0xffff)), ("jumbo-9216-total", usize::MAX, None)]);
    }
    v
}

struct Shape<'a> {
    dst_tl: u8,
    src_tl: u8,
    path: &'a (&'static str, u8, Vec<u8>),
    src_host: &'a [u8],
    mode: HdrMode,
    payload: &'a (&'static str, usize, Option<u16>),
}

/// Writes the untruncated datagram into `out`; returns the structural boundaries.
fn build(s: &Shape, out: &mut Vec<u8>) -> Vec<usize> {
    let dl = refwire::host_len(s.dst_tl);
    let dst_host: Vec<u8> = (0..dl).map(|i| 0xC0 + i as u8).collect();
    let mut h = RHeader {
        version: if s.mode == HdrMode::Version1 { 1 } else { 0 },
        traffic_class: 0,
        flow_id: 0x12345,
        next_hdr: refwire::PROTO_UDP,
        hdr_len: 0,
        payload_len: 0,
        path_type: s.path.1,
        dst_tl: s.dst_tl,
        src_tl: s.src_tl,
        rsv: 0,
        dst_ia: refwire::ia(1, 0xff00_0000_0110),
        src_ia: refwire::ia(1, 0xff00_0000_0111),
        dst_host,
        src_host: s.src_host.to_vec(),
        path: RPath::Other(s.path.1, s.path.2.clone()),
    };
    let natural = h.natural_len();
    let words = (natural / 4) as i64;
    h.hdr_len = match s.mode {
        HdrMode::Truthful | HdrMode::Version1 => words,
        HdrMode::HdrLenMinus1 => words - 1,
        HdrMode::HdrLenPlus1 => words + 1,
        HdrMode::HdrLenZero => 0,
        HdrMode::HdrLen255 => 255,
    } as u8;
    let plen = if s.payload.1 == usize::MAX { JUMBO - natural } else { s.payload.1 };
    h.payload_len = s.payload.2.unwrap_or(plen as u16);
    out.clear();
    out.extend_from_slice(&h.to_bytes_raw());
    debug_assert_eq!(out.len(), natural);
    out.extend((0..plen).map(|i| (i as u8).wrapping_mul(7).wrapping_add(1)));
    let mut b = vec![12, 28, 28 + dl, 28 + dl + s.src_host.len()];
    if s.path.2.len() >= 4 {
        b.push(28 + dl + s.src_host.len() + 4);
    }
    b.push(natural);
    b.push(natural + plen);
    b
}

fn truncations(boundaries: &[usize], total: usize, quick: bool) -> Vec<usize> {
    let mut t = BTreeSet::new();
    t.insert(total);
    t.insert(0);
    for b in boundaries {
        for d in [-1i64, 0, 1] {
            if quick && d != 0 && *b != boundaries[boundaries.len() - 2] {
                // quick: +-1 only around the end of the header, exact cut elsewhere
                continue;
            }
            let n = *b as i64 + d;
            if n >= 0 && (n as usize) <= total {
                t.insert(n as usize);
            }
        }
    }
    t.into_iter().collect()
}

// ---------------------------------------------------------------------------------------------
// independent decision procedure
// ---------------------------------------------------------------------------------------------
#[derive(Debug, Clone, PartialEq)]
enum Expect {
    Dispatch,
    Reject(&'static str),
}

fn oracle(datagram: &[u8], peer: &IpAddr) -> Expect {
    let (h, _hl) = match RHeader::parse(datagram) {
        Ok(x) => x,
        Err(e) => {
            return Expect::Reject(match e {
                "short-common" => "malformed:shorter-than-common-header",
                "hdrlen-too-small" => "malformed:hdrlen-below-address-header",
                "short-header" => "malformed:shorter-than-hdrlen",
                "empty-path-with-bytes" => "malformed:empty-path-with-bytes",
                "onehop-length" => "malformed:onehop-length",
                "short-meta" => "malformed:standard-path-short",
                "length-mismatch" => "malformed:standard-path-length",
                "seglen-after-zero" => "malformed:standard-path-seglen",
                _ => "malformed:other",
            });
        }
    };
    if h.version != 0 {
        // SCION has a single version (0); a parser refusing other versions is within the format rules
        return Expect::Reject("malformed:version-not-0");
    }
    let same = match (h.src_tl, peer) {
        (0b0000, IpAddr::V4(a)) => h.src_host.len() == 4 && h.src_host[..] == a.octets(),
        (0b0011, IpAddr::V6(a)) => h.src_host.len() == 16 && h.src_host[..] == a.octets(),
        (0b0000, _) | (0b0011, _) => return Expect::Reject("source-ip-of-other-family"),
        _ => return Expect::Reject("source-not-an-ip-type"),
    };
    if !same {
        return Expect::Reject("source-ip-differs-from-peer");
    }
    match h.path_type {
        0 | 1 => Expect::Dispatch,
        2 => Expect::Reject("path-type-onehop"),
        _ => Expect::Reject("path-type-unknown"),
    }
}

/// Checks the real verdict against the expectation; returns (outcome label, problems).
fn judge(datagram: &[u8], peer: &IpAddr, local: ScionHostAddr) -> (String, Expect, Vec<(String, String)>) {
    let exp = oracle(datagram, peer);
    let mut problems = vec![];
    let real = vpc::catch(|| ingress(datagram, *peer, local));
    let label = match real {
        Err(p) => {
            problems.push((format!("panic@{}", vpc::last_panic_location()), format!("gateway ingress panicked: {p}")));
            "panic".to_string()
        }
        Ok(IngressVerdict::Dispatch) => {
            if let Expect::Reject(why) = &exp {
                let class = match *why {
                    "source-ip-differs-from-peer" | "source-ip-of-other-family" => "spoofed-source-dispatched",
                    "source-not-an-ip-type" => "non-ip-source-dispatched",
                    "path-type-onehop" => "onehop-path-dispatched",
                    "path-type-unknown" => "unknown-path-type-dispatched",
                    _ => "malformed-datagram-dispatched",
                };
                problems.push((class.to_string(), format!("dispatched although the reference decides reject ({why})")));
            }
            "dispatch".to_string()
        }
        Ok(IngressVerdict::ReplyEncodeError(e)) => {
            if exp == Expect::Dispatch {
                problems.push(("conforming-packet-not-dispatched".into(), format!("rejected (and the SCMP reply failed to encode: {e})")));
            }
            "reject+encode-error".to_string()
        }
        Ok(IngressVerdict::ScmpReply(reply)) => {
            if exp == Expect::Dispatch {
                problems.push(("conforming-packet-not-dispatched".into(), "answered with SCMP although source = peer, path type standard/empty and the header parses".into()));
            }
            let mut code = None;
            if reply.len() > PACKET_BUF_SIZE {
                problems.push(("scmp-reply-exceeds-send-buffer".into(), format!("{} bytes > {PACKET_BUF_SIZE}", reply.len())));
            }
            if reply.len() > SCMP_MAX {
                problems.push(("scmp-reply-exceeds-1232".into(), format!("{} bytes", reply.len())));
            }
            match RHeader::parse(&reply) {
                Err(e) => problems.push(("scmp-reply-unparseable".into(), format!("reference parser: {e}"))),
                Ok((h, hl)) => {
                    let l4 = &reply[hl..];
                    if h.version != 0 || h.next_hdr != refwire::PROTO_SCMP || l4.len() < 8 {
                        problems.push(("scmp-reply-not-scmp".into(), format!("version {} next header {} l4 length {}", h.version, h.next_hdr, l4.len())));
                    } else {
                        if h.payload_len as usize != l4.len() {
                            problems.push(("scmp-reply-payload-len-wrong".into(), format!("PayloadLen {} but {} bytes follow the header", h.payload_len, l4.len())));
                        }
                        if l4[0] != 4 {
                            problems.push(("scmp-reply-not-parameter-problem".into(), format!("SCMP type {}", l4[0])));
                        }
                        code = Some(l4[1]);
                        let quote = &l4[8..];
                        if quote.len() > datagram.len() || quote != &datagram[..quote.len()] {
                            problems.push(("scmp-quote-not-a-prefix".into(), format!("{} quoted bytes are not a prefix of the {}-byte datagram", quote.len(), datagram.len())));
                        }
                    }
                }
            }
            match code {
                Some(c) => format!("scmp-parameter-problem(code {c})"),
                None => "scmp-broken".to_string(),
            }
        }
    };
    (label, exp, problems)
}

fn local_addr(v6: bool) -> ScionHostAddr {
    if v6 { ScionHostAddr::V6("fd00::5a".parse().unwrap()) } else { ScionHostAddr::V4(Ipv4Addr::new(10, 9, 8, 7)) }
}

fn replay(file: &std::path::Path) -> ! {
    let r = vpc::read_replay(file);
    let w = &r["witness"];
    let datagram = vpc::unhex(w["datagram_hex"].as_str().unwrap_or(""));
    let peer: IpAddr = w["peer"].as_str().unwrap_or("").parse().unwrap_or_else(|_| vpc::machinery_failure("replay: bad peer"));
    let local = local_addr(w["local_v6"].as_bool().unwrap_or(false));
    println!("replay of {} (class {})\ncase     = {}", file.display(), r["class"], w["case"]);
    let (label, exp, problems) = judge(&datagram, &peer, local);
    println!("datagram = {} bytes, peer {peer}\nreference= {exp:?} (refwire parse: {:?})\nreal     = {label}\nproblems = {problems:?}", datagram.len(), RHeader::parse(&datagram).map(|(h, hl)| (h.src_tl, vpc::hex(&h.src_host), h.path_type, hl)));
    std::process::exit(if problems.is_empty() { 0 } else { 1 });
}

pub fn run(args: &vpc::Args) -> ! {
    vpc::quiet_panics();
    if let Some(f) = &args.replay {
        replay(f);
    }
    let run = vpc::Run::new(args);
    let quick = run.tier == vpc::Tier::Quick;
    let peers = peers();
    let paths = path_variants();
    let payloads = payload_variants(quick);
    let dst_nibbles: Vec<u8> = if quick { vec![0b0000, 0b0011, 0b0100, 0b1001] } else { (0..16).collect() };
    let evaluations = AtomicU64::new(0);
    let distinct = vpc::Distinct::default();

    // work items: (src nibble, dst nibble, path variant, peer)
    let mut items = vec![];
    for src_tl in 0..16u8 {
        for &dst_tl in &dst_nibbles {
            for pi in 0..paths.len() {
                for qi in 0..peers.len() {
                    items.push((src_tl, dst_tl, pi, qi));
                }
            }
        }
    }
    items.par_iter().for_each(|&(src_tl, dst_tl, pi, qi)| {
        let (peer_name, peer) = &peers[qi];
        let path = &paths[pi];
        let local_v6 = (pi + qi) % 2 == 0;
        let local = local_addr(local_v6);
        let pats = src_patterns(peer, refwire::host_len(src_tl));
        let mut buf: Vec<u8> = Vec::with_capacity(JUMBO + 64);
        let mut outcomes: BTreeMap<String, u64> = BTreeMap::new();
        let mut sigs: BTreeSet<u64> = BTreeSet::new();
        let mut n = 0u64;
        for (pat_name, src_host) in &pats {
            for mode in HDR_MODES {
                for payload in &payloads {
                    let shape = Shape { dst_tl, src_tl, path, src_host, mode, payload };
                    let boundaries = build(&shape, &mut buf);
                    for cut in truncations(&boundaries, buf.len(), quick) {
                        let datagram = &buf[..cut];
                        let (label, exp, problems) = judge(datagram, peer, local);
                        n += 1;
                        let o = format!("reference={} real={label}", match &exp {
                            Expect::Dispatch => "dispatch".to_string(),
                            Expect::Reject(w) => format!("reject({w})"),
                        });
                        // decision signature: everything the verdict may depend on, without the bulk bytes
                        if cut >= 12 {
                            sigs.insert(vpc::fnv64(format!("{o}|{src_tl}|{dst_tl}|{}|{qi}|{pat_name}|{mode:?}", path.0).as_bytes()));
                        }
                        *outcomes.entry(o).or_default() += 1;
                        let case = || {
                            json!({
                                "src_type_len_nibble": format!("{src_tl:04b}"), "dst_type_len_nibble": format!("{dst_tl:04b}"),
                                "path_variant": path.0, "path_type": path.1, "peer_name": peer_name,
                                "src_host_pattern": pat_name, "src_host": vpc::hex(src_host),
                                "header_mode": format!("{mode:?}"), "payload_variant": payload.0, "cut_at": cut, "untruncated_len": buf.len(),
                            })
                        };
                        if !problems.is_empty() {
                            let w: Value = json!({"case": case(), "peer": peer.to_string(), "local_v6": local_v6, "datagram_hex": vpc::hex(datagram)});
                            for (class, what) in &problems {
                                run.violation(class, what, w.clone());
                            }
                        } else if n % 4099 == 1 {
                            run.sample(6, || json!({"case": case(), "peer": peer.to_string(), "reference": format!("{exp:?}"), "real": label, "datagram_hex_first_64": vpc::hex(&datagram[..datagram.len().min(64)])}));
                        }
                    }
                }
            }
        }
        evaluations.fetch_add(n, Ordering::Relaxed);
        for (k, v) in outcomes {
            run.outcome_n(&k, v);
        }
        distinct.extend(sigs);
    });

    let evaluations = evaluations.into_inner();
    let bound = format!(
        "complete product: 16 source type/length nibbles x {} destination nibbles x {} path variants (types 0,1,2,3,4,5,255; right and wrong sizes) x {} peers x all source-host patterns of the nibble's length (equal, one-bit differences in every byte position, mapped/compatible/NAT64/padded/truncated forms, zeros, ones) x 6 header modes (truthful, HdrLen -1/+1/0/255, version 1) x {} payload variants (up to the 9216-byte jumbo buffer) x {}",
        dst_nibbles.len(),
        paths.len(),
        peers.len(),
        payloads.len(),
        if quick { "truncation at every structural boundary (+-1 around the end of the header), empty datagram, full length" } else { "truncation at every structural boundary and +-1, empty datagram, full length" }
    );
    let cov = json!({
        "evaluations": evaluations,
        "distinct_nontrivial": distinct.len(),
        "rule": "distinct decision signatures (reference verdict+reason, real verdict, source nibble, destination nibble, path variant, peer, source-host pattern, header mode) among datagrams of at least 12 bytes; payload size and cut position are not part of the signature",
        "exhaustive": true,
        "bound": bound,
    });
    run.finish(
        "exploration",
        cov,
        &[
            "trusted glue not executed: the match in TunnelGateway::start_server mapping Ok to Dispatcher::try_dispatch and Err to create_scmp_error (inside the async UDP loop); the hook forwards to the same two functions",
            "'parses as a SCION packet' = the common, address and path headers parse by the format rules (refwire) and version = 0; a PayloadLen field that disagrees with the bytes present is not a header parse error (both sides agree; counted in the payload variants)",
            "SCMP checksum of the reply is NOT checked here (properties C03/C14)",
            "standard paths are generated with valid segment-length fields only; path content rules belong to C02/C03/C11",
        ],
    );
}
