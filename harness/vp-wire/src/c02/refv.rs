//! What the independent readers (`vpc::refwire`, `vpc::refl4`) say about a buffer: is the
//! structure a view type claims really contained in it, and how many bytes does it occupy.
use vpc::{refl4, refwire};

#[derive(Clone, Copy, Debug, PartialEq, Eq)]
pub enum V {
    /// contained; the view must own exactly this many bytes
    Accept(usize),
    /// contained only under the crate's lenient counting (a zero segment length before a non-zero
    /// one): the specification rejects it, accepting it is not a memory-safety matter
    Lenient(usize),
    Reject(&'static str),
}

pub fn std_path_need(b: &[u8]) -> Option<(usize, bool)> {
    if b.len() < 4 {
        return None;
    }
    let meta = u32::from_be_bytes([b[0], b[1], b[2], b[3]]);
    let s = [(meta >> 12) & 63, (meta >> 6) & 63, meta & 63];
    let nz = s.iter().filter(|x| **x > 0).count();
    let sum: u32 = s.iter().sum();
    let gap = (s[0] == 0 && (s[1] > 0 || s[2] > 0)) || (s[1] == 0 && s[2] > 0);
    Some((4 + 8 * nz + 12 * sum as usize, gap))
}

pub fn header(b: &[u8]) -> V {
    if b.len() < 12 {
        return V::Reject("short-common");
    }
    if b[0] >> 4 != 0 {
        return V::Reject("version");
    }
    match refwire::RHeader::parse(b) {
        Ok((_, hl)) => V::Accept(hl),
        Err("seglen-after-zero") => {
            let hl = b[5] as usize * 4;
            let p0 = 28 + refwire::host_len(b[9] >> 4) + refwire::host_len(b[9] & 0xf);
            match std_path_need(&b[p0.min(b.len())..hl.min(b.len())]) {
                Some((need, _)) if p0 + need == hl && b.len() >= hl => V::Lenient(hl),
                _ => V::Reject("length-mismatch"),
            }
        }
        Err(e) => V::Reject(e),
    }
}
/// (verdict, header length, payload range end) of a raw packet
pub fn raw(b: &[u8]) -> (V, usize, usize) {
    match header(b) {
        V::Accept(hl) | V::Lenient(hl) => {
            let pl = u16::from_be_bytes([b[6], b[7]]) as usize;
            let end = (hl + pl).min(b.len());
            (if matches!(header(b), V::Lenient(_)) { V::Lenient(end) } else { V::Accept(end) }, hl, end)
        }
        r => (r, 0, 0),
    }
}
pub fn udp_datagram(b: &[u8]) -> V {
    if b.len() < 8 {
        return V::Reject("short-udp");
    }
    let l = u16::from_be_bytes([b[4], b[5]]) as usize;
    if l < 8 {
        return V::Reject("udp-length-below-8");
    }
    V::Accept(l.min(b.len()))
}
pub fn scmp(b: &[u8]) -> V {
    if b.len() < 4 {
        return V::Reject("short-scmp-common");
    }
    let fixed = refl4::scmp_fixed_len(b[0]);
    if b.len() < fixed {
        return V::Reject("short-scmp-info-block");
    }
    V::Accept(if refl4::scmp_has_tail(b[0]) { b.len() } else { fixed })
}
fn wrap(outer: V, inner: V) -> V {
    match (outer, inner) {
        (V::Reject(r), _) => V::Reject(r),
        (_, V::Reject(r)) => V::Reject(r),
        (o, _) => o,
    }
}
pub fn udp_packet(b: &[u8]) -> V {
    let (v, hl, end) = raw(b);
    if matches!(v, V::Reject(_)) {
        return v;
    }
    wrap(v, udp_datagram(&b[hl..end]))
}
pub fn scmp_packet(b: &[u8]) -> V {
    let (v, hl, end) = raw(b);
    if matches!(v, V::Reject(_)) {
        return v;
    }
    wrap(v, scmp(&b[hl..end]))
}
pub fn std_path(b: &[u8]) -> V {
    match std_path_need(b) {
        None => V::Reject("short-meta"),
        Some((need, gap)) => {
            if b.len() < need {
                V::Reject("short-path")
            } else if gap {
                V::Lenient(need)
            } else {
                V::Accept(need)
            }
        }
    }
}
pub fn fixed(b: &[u8], n: usize) -> V {
    if b.len() < n { V::Reject("short") } else { V::Accept(n) }
}
/// a message view of SCMP type `ty` constructed directly (the type byte of the buffer is not looked at)
pub fn scmp_msg_of(b: &[u8], ty: u8) -> V {
    let fixed = refl4::scmp_fixed_len(ty);
    if b.len() < fixed {
        return V::Reject("short-scmp-info-block");
    }
    V::Accept(if refl4::scmp_has_tail(ty) { b.len() } else { fixed })
}
