//! The enumerated spaces of C02. Every buffer is GENERATED from its size-determining fields with
//! the reference writers; case numbers are stable so a witness is (space, case, sub).
use vpc::{
    refl4,
    refwire::{RHeader, RHop, RInfo, RPath, RStdPath, host_len},
};

use super::runner::{self as r, Env, Kind, Mode, Mut1, exercise};

#[derive(Clone, Copy, PartialEq, Eq, Debug)]
pub enum Fill {
    Zero,
    Pattern,
}
pub const FILLS: [Fill; 2] = [Fill::Zero, Fill::Pattern];

fn info(k: usize, f: Fill) -> RInfo {
    match f {
        Fill::Zero => RInfo { flags: 0, rsv: 0, seg_id: 0, timestamp: 0 },
        Fill::Pattern => RInfo { flags: 0xC3, rsv: 0xD4, seg_id: 0xE5E6, timestamp: 0xFFFF_FF00 | k as u32 },
    }
}
fn hop(k: usize, f: Fill) -> RHop {
    match f {
        Fill::Zero => RHop { flags: 0, exp_time: 0, cons_ingress: 0, cons_egress: 0, mac: [0; 6] },
        Fill::Pattern => RHop { flags: 0xF3, exp_time: 0xFF, cons_ingress: 0xA7A8, cons_egress: 0xA900 | (k as u16 & 0xff), mac: [0xC1, 0xC2, 0xC3, 0xC4, 0xC5, 0xC6] },
    }
}
pub fn gen_std(seg: [u8; 3], ci: u8, ch: u8, f: Fill) -> Vec<u8> {
    let nz = seg.iter().filter(|x| **x > 0).count();
    let sum: usize = seg.iter().map(|x| *x as usize).sum();
    RStdPath { curr_inf: ci, curr_hf: ch, rsv: if f == Fill::Pattern { 0x2A } else { 0 }, seg_len: seg, infos: (0..nz).map(|k| info(k, f)).collect(), hops: (0..sum).map(|k| hop(k, f)).collect() }.to_bytes()
}
pub fn gen_onehop(f: Fill) -> Vec<u8> {
    RPath::OneHop { info: info(0, f), hop1: hop(0, f), hop2: hop(1, f) }.to_bytes()
}
fn pat(n: usize, base: u8, f: Fill) -> Vec<u8> {
    match f {
        Fill::Zero => vec![0; n],
        Fill::Pattern => (0..n).map(|i| base.wrapping_add(i as u8) | 0x80).collect(),
    }
}
/// header bytes exactly as the fields say
pub fn gen_header(pt: u8, dtl: u8, stl: u8, path: &[u8], hdr_len: u8, next: u8, payload_len: u16, f: Fill) -> Vec<u8> {
    let p = f == Fill::Pattern;
    RHeader {
        version: 0,
        traffic_class: if p { 0xA5 } else { 0 },
        flow_id: if p { 0x5A5A5 } else { 0 },
        next_hdr: next,
        hdr_len,
        payload_len,
        path_type: pt,
        dst_tl: dtl,
        src_tl: stl,
        rsv: if p { 0xBEEF } else { 0 },
        dst_ia: if p { 0xA1A2_A3A4_A5A6_A7A8 } else { 0 },
        src_ia: if p { 0xB1B2_B3B4_B5B6_B7B8 } else { 0 },
        dst_host: pat(host_len(dtl), 0x10, f),
        src_host: pat(host_len(stl), 0x30, f),
        path: RPath::Other(pt, path.to_vec()),
    }
    .to_bytes_raw()
}

pub const REDUCED: [u8; 6] = [0, 1, 2, 3, 62, 63];
pub fn reduced_cube() -> Vec<[u8; 3]> {
    let mut v = vec![];
    for a in REDUCED {
        for b in REDUCED {
            for c in REDUCED {
                v.push([a, b, c]);
            }
        }
    }
    v
}
fn in_reduced(s: [u8; 3]) -> bool {
    s.iter().all(|x| REDUCED.contains(x))
}
fn std_size(s: [u8; 3]) -> usize {
    4 + 8 * s.iter().filter(|x| **x > 0).count() + 12 * s.iter().map(|x| *x as usize).sum::<usize>()
}
fn triple_of(i: u64) -> [u8; 3] {
    [(i >> 12) as u8 & 63, (i >> 6) as u8 & 63, i as u8 & 63]
}
fn pm1(v: &mut Vec<usize>, b: usize) {
    v.push(b.saturating_sub(1));
    v.push(b);
    v.push(b + 1);
}

#[derive(Clone, Copy, PartialEq, Eq, Debug)]
pub enum Space {
    StdPath,
    Header,
    L4,
    Seq,
}
pub const SPACES: [Space; 4] = [Space::StdPath, Space::Header, Space::L4, Space::Seq];
impl Space {
    pub fn name(self) -> &'static str {
        match self {
            Space::StdPath => "stdpath",
            Space::Header => "header",
            Space::L4 => "l4",
            Space::Seq => "seq",
        }
    }
    pub fn from_name(s: &str) -> Option<Space> {
        SPACES.iter().copied().find(|x| x.name() == s)
    }
}

pub struct Tables {
    pub thorough: bool,
    /// path cases of the header space: (path type, segment triple or explicit length)
    pub pathcases: Vec<(u8, [u8; 3], usize)>,
    pub reps: Vec<Rep>,
}
pub struct Rep {
    pub what: String,
    pub kind: &'static str,
    pub buf: Vec<u8>,
}

impl Tables {
    pub fn new(thorough: bool) -> Tables {
        let mut pathcases = vec![(0u8, [0u8; 3], 0usize), (2, [0; 3], 32)];
        for pt in [3u8, 4, 5, 255] {
            for len in [0usize, 4, 8, 64, 960] {
                pathcases.push((pt, [0; 3], len));
            }
        }
        // path types 0 and 2 with a path of the wrong size, type 1 with less than a meta header
        pathcases.push((0, [0; 3], 4));
        pathcases.push((2, [0; 3], 28));
        pathcases.push((2, [0; 3], 36));
        if thorough {
            for i in 0..(1u64 << 18) {
                pathcases.push((1, triple_of(i), 0));
            }
        } else {
            for t in reduced_cube() {
                pathcases.push((1, t, 0));
            }
        }
        Tables { thorough, pathcases, reps: reps(thorough) }
    }
    pub fn total(&self, s: Space) -> u64 {
        match s {
            Space::StdPath => {
                if self.thorough {
                    1 << 18
                } else {
                    216
                }
            }
            Space::Header => self.pathcases.len() as u64 * 256,
            Space::L4 => 16 * 4 * 16 * 3,
            Space::Seq => self.reps.len() as u64,
        }
    }
    pub fn describe(&self, s: Space, case: u64) -> String {
        match s {
            Space::StdPath => format!("segment lengths {:?}", if self.thorough { triple_of(case) } else { reduced_cube()[case as usize] }),
            Space::Header => {
                let (pt, t, l) = self.pathcases[(case / 256) as usize];
                format!("path type {pt} seg {t:?} explicit-path-len {l} DT/DL nibble {:#x} ST/SL nibble {:#x}", (case / 16) % 16, case % 16)
            }
            Space::L4 => {
                let (h, n, k, b) = l4_decode(case);
                format!("header shape {h} next-hdr-choice {n} l4-kind {k} body {b}")
            }
            Space::Seq => self.reps[case as usize].what.clone(),
        }
    }

    pub fn run_case(&self, s: Space, env: &mut Env, case: u64) {
        env.case = case;
        match s {
            Space::StdPath => self.case_stdpath(env, case),
            Space::Header => self.case_header(env, case),
            Space::L4 => self.case_l4(env, case),
            Space::Seq => self.case_seq(env, case),
        }
    }

    // ------------------------------------------------------------------------------------ S1
    fn case_stdpath(&self, env: &mut Env, case: u64) {
        let seg = if self.thorough { triple_of(case) } else { reduced_cube()[case as usize] };
        let n = std_size(seg);
        let nz = seg.iter().filter(|x| **x > 0).count();
        let all_prefixes = in_reduced(seg);
        let truncs: Vec<usize> = if all_prefixes {
            (0..=n + 1).collect()
        } else {
            let mut v = vec![0];
            pm1(&mut v, 4);
            for k in 1..=nz {
                pm1(&mut v, 4 + 8 * k);
            }
            pm1(&mut v, 4 + 8 * nz + 12);
            pm1(&mut v, n.saturating_sub(12));
            pm1(&mut v, n);
            v.sort();
            v.dedup();
            v.retain(|t| *t <= n + 1);
            v
        };
        for (fi, f) in FILLS.iter().enumerate() {
            let full = {
                let mut b = gen_std(seg, if fi == 0 { 0 } else { 3 }, if fi == 0 { 0 } else { 63 }, *f);
                b.push(0x77); // one trailing byte that is not part of the path
                b
            };
            for t in &truncs {
                env.sub = (*t as u64) << 8 | fi as u64;
                let mode = if *t >= n { Mode { sweep: true, full: true, mut1: Mut1::Light, seq: 0, boxed: true, deep: all_prefixes } } else { r::CTOR_ONLY };
                exercise::<r::KStd>(env, &full[..*t], mode);
                env.acc.count("buffers", 1);
            }
        }
        // every (CurrINF, CurrHF) on the exact-size buffer
        let total: usize = seg.iter().map(|x| *x as usize).sum();
        for ci in 0..4u8 {
            for ch in 0..64u8 {
                let b = gen_std(seg, ci, ch, Fill::Pattern);
                env.sub = 1 << 40 | (ci as u64) << 8 | ch as u64;
                let mut1 = if all_prefixes || ch == 0 || ch == 63 || ch as usize + 1 == total { Mut1::Light } else { Mut1::None };
                exercise::<r::KStd>(env, &b, Mode { sweep: true, full: false, mut1, seq: 0, boxed: false, deep: false });
                env.acc.count("buffers", 1);
            }
        }
    }

    // ------------------------------------------------------------------------------------ S2
    fn case_header(&self, env: &mut Env, case: u64) {
        let (pt, seg, plen) = self.pathcases[(case / 256) as usize];
        let dtl = ((case / 16) % 16) as u8;
        let stl = (case % 16) as u8;
        let p0 = 28 + host_len(dtl) + host_len(stl);
        // the full cube is crossed with the 16 address LENGTH pairs (DT = ST = 0); all 256 type/length
        // nibble pairs are crossed with the reduced cube and with the other path types
        if pt == 1 && (36 + std_size(seg) > 1032 || !in_reduced(seg)) && (dtl >> 2 != 0 || stl >> 2 != 0) {
            env.acc.count("header_cases_not_crossed_with_address_type_bits", 1);
            return;
        }
        let l4: Vec<u8> = {
            let mut v = vec![0x9c, 0x41, 0x00, 0x35, 0x00, 12, 0x12, 0x34];
            v.extend_from_slice(&[0xde, 0xad, 0xbe, 0xef]);
            v
        };
        for (fi, f) in FILLS.iter().enumerate() {
            let path: Vec<u8> = match pt {
                1 => gen_std(seg, if fi == 0 { 0 } else { 3 }, if fi == 0 { 0 } else { 63 }, *f),
                2 if plen == 32 => gen_onehop(*f),
                _ => super::spaces::pat(plen, 0x50, *f),
            };
            let natural = p0 + path.len();
            let nz = seg.iter().filter(|x| **x > 0).count();
            let variants: Vec<(usize, u8)> = if natural <= 1020 {
                let c = (natural / 4) as u8;
                vec![(0, c), (1, c.wrapping_add(1)), (2, c.wrapping_sub(1)), (3, 0), (4, 9), (5, 255)]
            } else {
                vec![(5, 255), (6, (natural / 4) as u8)]
            };
            for (vi, hl_units) in variants {
                let mut full = gen_header(pt, dtl, stl, &path, hl_units, 17, l4.len() as u16, *f);
                full.extend_from_slice(&l4);
                let claimed = hl_units as usize * 4;
                let mut truncs: Vec<usize> = vec![];
                if vi == 0 {
                    truncs.push(0);
                    for b in [12, 28, 28 + host_len(dtl), p0] {
                        pm1(&mut truncs, b);
                    }
                    if pt == 1 {
                        pm1(&mut truncs, p0 + 4);
                        for k in 1..=nz {
                            pm1(&mut truncs, p0 + 4 + 8 * k);
                        }
                        pm1(&mut truncs, p0 + 4 + 8 * nz + 12);
                        pm1(&mut truncs, natural.saturating_sub(12));
                    }
                    pm1(&mut truncs, natural);
                    pm1(&mut truncs, natural + 8);
                    truncs.push(full.len());
                } else {
                    truncs.extend_from_slice(&[claimed, claimed + 12, natural, full.len()]);
                }
                truncs.sort();
                truncs.dedup();
                truncs.retain(|t| *t <= full.len() && *t <= super::infra::Guard::CAP);
                for t in truncs {
                    env.sub = (vi as u64) << 32 | (t as u64) << 8 | fi as u64;
                    let b = &full[..t];
                    let is_full = t == full.len();
                    // every accessor on the exact-size and on the complete buffer; the allocating /
                    // formatting ones (Debug, to_model ...) where the path is short or in the reduced cube
                    let deep = path.len() <= 128 || (pt == 1 && in_reduced(seg));
                    let hm = Mode { sweep: true, full: t == natural || is_full, mut1: if is_full { Mut1::Light } else { Mut1::None }, seq: 0, boxed: true, deep };
                    let pm = Mode { sweep: true, full: false, mut1: Mut1::None, seq: 0, boxed: true, deep: false };
                    exercise::<r::KHdr>(env, b, hm);
                    exercise::<r::KRaw>(env, b, pm);
                    exercise::<r::KUdpPkt>(env, b, pm);
                    exercise::<r::KScmpPkt>(env, b, pm);
                    env.acc.count("buffers", 1);
                }
            }
        }
    }

    // ------------------------------------------------------------------------------------ S3
    fn case_l4(&self, env: &mut Env, case: u64) {
        let (hs, nx, kind, body) = l4_decode(case);
        let next = [17u8, 202, 0, 255][nx];
        let (pt, path_seg): (u8, Option<[u8; 3]>) = [(0, None), (1, Some([2, 0, 0])), (2, None), (3, None)][hs / 4];
        // host address lengths 4/4, 8/16, 12/4, 16/12 (DT = ST = 0)
        let dtl = (hs % 4) as u8;
        let stl = [0u8, 3, 0, 2][hs % 4];
        for (fi, f) in FILLS.iter().enumerate() {
            let path = match (pt, path_seg) {
                (1, Some(s)) => gen_std(s, 0, 1, *f),
                (2, _) => gen_onehop(*f),
                (3, _) => pat(8, 0x50, *f),
                _ => vec![],
            };
            // the upper-layer bytes
            let l4: Vec<u8> = if kind < 5 {
                let data = [0usize, 1, 32][body];
                let real = 8 + data;
                let lenf = [0usize, 7, 8, real, 65535][kind] as u16;
                refl4::RUdp { src_port: 0xD1D2, dst_port: 0xD3D4, length: lenf, checksum: 0xD5D6, data: pat(data, 0x60, *f) }.to_bytes_raw()
            } else {
                let ty = [1u8, 2, 4, 5, 6, 128, 129, 130, 131, 0, 255][kind - 5];
                let fixed = refl4::scmp_fixed_len(ty);
                let n = [fixed, fixed + 1, fixed + 36][body];
                let mut v = pat(n, 0x70, *f);
                v[0] = ty;
                v
            };
            let natural = 28 + host_len(dtl) + host_len(stl) + path.len();
            let real = l4.len();
            for (pi, pl) in [0usize, 7, 8, real, real + 1, 65535].iter().enumerate() {
                let mut full = gen_header(pt, dtl, stl, &path, (natural / 4) as u8, next, *pl as u16, *f);
                full.extend_from_slice(&l4);
                full.push(0x77); // a byte behind the packet
                let mut truncs = vec![];
                if pi == 3 {
                    pm1(&mut truncs, natural);
                    pm1(&mut truncs, natural + 4);
                    pm1(&mut truncs, natural + 8);
                    if kind >= 5 {
                        pm1(&mut truncs, natural + refl4::scmp_fixed_len(l4[0]));
                    }
                } else {
                    truncs.push(natural + *pl.min(&real));
                    truncs.push(natural + 8);
                }
                pm1(&mut truncs, natural + real);
                truncs.sort();
                truncs.dedup();
                truncs.retain(|t| *t <= full.len());
                for t in truncs {
                    env.sub = (pi as u64) << 32 | (t as u64) << 8 | fi as u64;
                    let b = &full[..t];
                    let m = Mode { sweep: true, full: true, mut1: if t >= natural + real { Mut1::Light } else { Mut1::None }, seq: 0, boxed: true, deep: body == 0 };
                    exercise::<r::KRaw>(env, b, m);
                    exercise::<r::KUdpPkt>(env, b, m);
                    exercise::<r::KScmpPkt>(env, b, m);
                    env.acc.count("buffers", 1);
                }
            }
            // the upper-layer bytes on their own, every prefix, every payload view type
            if hs == 0 && nx == 0 {
                let mut with_tail = l4.clone();
                with_tail.push(0x77);
                for t in 0..=with_tail.len() {
                    env.sub = 1 << 40 | (t as u64) << 8 | fi as u64;
                    let b = &with_tail[..t];
                    let m = Mode { sweep: true, full: true, mut1: Mut1::Full, seq: 0, boxed: true, deep: true };
                    exercise::<r::KUdp>(env, b, m);
                    exercise::<r::KScmp>(env, b, m);
                    exercise::<r::KMsgDu>(env, b, m);
                    exercise::<r::KMsgPtb>(env, b, m);
                    exercise::<r::KMsgPp>(env, b, m);
                    exercise::<r::KMsgEid>(env, b, m);
                    exercise::<r::KMsgIcd>(env, b, m);
                    exercise::<r::KMsgEreq>(env, b, m);
                    exercise::<r::KMsgErep>(env, b, m);
                    exercise::<r::KMsgTreq>(env, b, m);
                    exercise::<r::KMsgTrep>(env, b, m);
                    exercise::<r::KMsgUnk>(env, b, m);
                    exercise::<r::KOneHop>(env, b, m);
                    exercise::<r::KInfo>(env, b, m);
                    exercise::<r::KHop>(env, b, m);
                    env.acc.count("buffers", 1);
                }
            }
        }
    }

    // ------------------------------------------------------------------------------------ S4
    fn case_seq(&self, env: &mut Env, case: u64) {
        let rep = &self.reps[case as usize];
        env.sub = 0;
        let m = Mode { sweep: true, full: true, mut1: Mut1::Full, seq: if self.thorough { 3 } else { 2 }, boxed: true, deep: true };
        // depth 3 only where the mutator list is short enough to finish
        let m2 = Mode { seq: 2, ..m };
        match rep.kind {
            "raw" => exercise::<r::KRaw>(env, &rep.buf, m2),
            "udppkt" => exercise::<r::KUdpPkt>(env, &rep.buf, m2),
            "scmppkt" => exercise::<r::KScmpPkt>(env, &rep.buf, m2),
            "hdr" => exercise::<r::KHdr>(env, &rep.buf, m2),
            "std" => exercise::<r::KStd>(env, &rep.buf, m),
            "onehop" => exercise::<r::KOneHop>(env, &rep.buf, m),
            "udp" => exercise::<r::KUdp>(env, &rep.buf, m),
            "scmp" => exercise::<r::KScmp>(env, &rep.buf, m),
            _ => false,
        };
        env.acc.count("buffers", 1);
    }
}

fn l4_decode(case: u64) -> (usize, usize, usize, usize) {
    let body = (case % 3) as usize;
    let kind = ((case / 3) % 16) as usize;
    let nx = ((case / 48) % 4) as usize;
    let hs = (case / 192) as usize;
    (hs, nx, kind, body)
}

/// representative accepted buffers for the mutator-sequence space
fn reps(thorough: bool) -> Vec<Rep> {
    let mut v = vec![];
    let f = Fill::Pattern;
    let paths: Vec<(u8, Vec<u8>, &str)> = vec![
        (0, vec![], "empty"),
        (1, gen_std([1, 0, 0], 0, 0, f), "std(1)"),
        (1, gen_std([2, 3, 0], 1, 2, f), "std(2,3)"),
        (1, gen_std([2, 2, 2], 2, 5, f), "std(2,2,2)"),
        (1, gen_std([0, 3, 0], 0, 0, f), "std(0,3,0)"),
        (1, gen_std([2, 0, 2], 0, 3, f), "std(2,0,2)"),
        (1, gen_std([63, 0, 0], 0, 62, f), "std(63)"),
        (2, gen_onehop(f), "onehop"),
        (3, pat(8, 0x50, f), "unsupported(3,8B)"),
    ];
    let mut paths = paths;
    if !thorough {
        paths.retain(|p| ["empty", "std(2,3)", "std(2,0,2)", "onehop", "unsupported(3,8B)"].contains(&p.2));
    }
    let hosts: Vec<(u8, u8, &str)> = if thorough { vec![(0u8, 0u8, "v4/v4"), (0b0011, 0b0100, "v6/svc"), (0b1111, 0b1001, "unk3x16/unk2x8")] } else { vec![(0u8, 0u8, "v4/v4"), (0b0011, 0b0100, "v6/svc")] };
    let mut l4s: Vec<(u8, Vec<u8>, String)> = vec![(17, refl4::RUdp { src_port: 1, dst_port: 2, length: 12, checksum: 0, data: vec![1, 2, 3, 4] }.to_bytes_raw(), "udp".into()), (253, vec![9; 5], "raw".into())];
    for ty in [1u8, 2, 4, 5, 6, 128, 129, 130, 131, 0, 255] {
        let mut b = pat(refl4::scmp_fixed_len(ty).max(8) + 36, 0x70, f);
        b[0] = ty;
        l4s.push((202, b, format!("scmp{ty}")));
    }
    // a quoted packet inside an SCMP error so that dst_port() parses a nested packet
    {
        let mut inner = gen_header(0, 0, 0, &[], 9, 17, 8, Fill::Zero);
        inner.extend_from_slice(&[0, 80, 0, 81, 0, 8, 0, 0]);
        let mut b = vec![1, 0, 0, 0, 0, 0, 0, 0];
        b.extend_from_slice(&inner);
        l4s.push((202, b, "scmp1+quoted-udp".into()));
    }
    for (pt, path, pn) in &paths {
        for (dtl, stl, hn) in &hosts {
            let natural = 28 + host_len(*dtl) + host_len(*stl) + path.len();
            for (next, l4, ln) in &l4s {
                let (dtl, stl, hn) = (*dtl, *stl, *hn);
                let mut b = gen_header(*pt, dtl, stl, path, (natural / 4) as u8, *next, l4.len() as u16, f);
                b.extend_from_slice(l4);
                let kinds: &[&'static str] = match *next {
                    17 => &["raw", "udppkt"],
                    202 => &["raw", "scmppkt"],
                    _ => &["raw", "hdr"],
                };
                for k in kinds {
                    v.push(Rep { what: format!("{k} over {pn} {hn} {ln}"), kind: k, buf: b.clone() });
                }
            }
        }
    }
    for (pt, path, pn) in &paths {
        if *pt == 1 {
            v.push(Rep { what: format!("std view {pn}"), kind: "std", buf: path.clone() });
        }
    }
    v.push(Rep { what: "onehop view".into(), kind: "onehop", buf: gen_onehop(f) });
    for (next, l4, ln) in &l4s {
        v.push(Rep { what: format!("payload view {ln}"), kind: if *next == 202 { "scmp" } else { "udp" }, buf: l4.clone() });
    }
    for ty in [1u8, 2, 4, 5, 6, 128, 129, 130, 131, 0, 255] {
        let mut b = pat(refl4::scmp_fixed_len(ty).max(8), 0x70, f);
        b[0] = ty;
        v.push(Rep { what: format!("payload view scmp{ty} minimal"), kind: "scmp", buf: b });
    }
    v
}

pub fn kind_names() -> Vec<&'static str> {
    vec![r::KHdr::NAME, r::KRaw::NAME, r::KUdpPkt::NAME, r::KScmpPkt::NAME, r::KStd::NAME, r::KOneHop::NAME, r::KUdp::NAME, r::KScmp::NAME, r::KInfo::NAME, r::KHop::NAME, "msg-*"]
}
