//! Guard-page buffers, crash-progress slots and the per-sweep context of the C02 check.
use std::collections::BTreeMap;

pub const PAGE: usize = 4096;
/// data pages between the two PROT_NONE pages
pub const DATA_PAGES: usize = 2;

/// `[PROT_NONE page][DATA_PAGES read/write pages][PROT_NONE page]`
pub struct Guard {
    data: *mut u8,
}
unsafe impl Send for Guard {}
impl Guard {
    pub fn new() -> Guard {
        unsafe {
            let total = (DATA_PAGES + 2) * PAGE;
            let p = libc::mmap(std::ptr::null_mut(), total, libc::PROT_READ | libc::PROT_WRITE, libc::MAP_PRIVATE | libc::MAP_ANONYMOUS, -1, 0);
            if p == libc::MAP_FAILED {
                vpc::machinery_failure("mmap of guard region failed");
            }
            let p = p as *mut u8;
            if libc::mprotect(p as *mut _, PAGE, libc::PROT_NONE) != 0 || libc::mprotect(p.add((DATA_PAGES + 1) * PAGE) as *mut _, PAGE, libc::PROT_NONE) != 0 {
                vpc::machinery_failure("mprotect of guard pages failed");
            }
            Guard { data: p.add(PAGE) }
        }
    }
    pub const CAP: usize = DATA_PAGES * PAGE;
    /// Copy `b` so that its last byte is the last byte before the trailing PROT_NONE page.
    #[allow(clippy::mut_from_ref)]
    pub fn at_end(&self, b: &[u8]) -> &mut [u8] {
        assert!(b.len() <= Self::CAP);
        unsafe {
            let p = self.data.add(Self::CAP - b.len());
            std::ptr::copy_nonoverlapping(b.as_ptr(), p, b.len());
            std::slice::from_raw_parts_mut(p, b.len())
        }
    }
    /// Copy `b` so that its first byte is the first byte behind the leading PROT_NONE page.
    #[allow(clippy::mut_from_ref)]
    pub fn at_start(&self, b: &[u8]) -> &mut [u8] {
        assert!(b.len() <= Self::CAP);
        unsafe {
            std::ptr::copy_nonoverlapping(b.as_ptr(), self.data, b.len());
            std::slice::from_raw_parts_mut(self.data, b.len())
        }
    }
}
thread_local! {
    pub static GUARD: Guard = Guard::new();
    /// location of the last panic on this thread (the shared hook of `vpc` is racy across threads)
    pub static LAST_PANIC: std::cell::RefCell<String> = const { std::cell::RefCell::new(String::new()) };
}
pub fn install_panic_hook() {
    std::panic::set_hook(Box::new(|info| {
        if let Some(l) = info.location() {
            let s = format!("{}:{}", l.file(), l.line());
            LAST_PANIC.with(|p| *p.borrow_mut() = s);
        }
    }));
}

// ------------------------------------------------------------------------------------------------
// progress slots in a MAP_SHARED file: what every worker thread is doing right now, readable by the
// parent after the process died from a signal
// ------------------------------------------------------------------------------------------------
pub const SLOTS: usize = 64;
pub const SLOT_BYTES: usize = 256;
pub struct Progress {
    base: *mut u8,
}
unsafe impl Send for Progress {}
unsafe impl Sync for Progress {}
impl Progress {
    pub fn open(path: &std::path::Path, create: bool) -> Progress {
        use std::os::fd::AsRawFd;
        let f = std::fs::OpenOptions::new().read(true).write(true).create(create).truncate(false).open(path).unwrap_or_else(|e| vpc::machinery_failure(&format!("progress file {}: {e}", path.display())));
        f.set_len((SLOTS * SLOT_BYTES) as u64).ok();
        let p = unsafe { libc::mmap(std::ptr::null_mut(), SLOTS * SLOT_BYTES, libc::PROT_READ | libc::PROT_WRITE, libc::MAP_SHARED, f.as_raw_fd(), 0) };
        if p == libc::MAP_FAILED {
            vpc::machinery_failure("mmap of progress file failed");
        }
        Progress { base: p as *mut u8 }
    }
    pub fn clear(&self) {
        unsafe { std::ptr::write_bytes(self.base, 0, SLOTS * SLOT_BYTES) }
    }
    fn slot(&self, i: usize) -> *mut u8 {
        unsafe { self.base.add((i % SLOTS) * SLOT_BYTES) }
    }
    /// slot layout: busy u64, case u64, sub u64, taglen u64, tag bytes
    pub fn set_case(&self, i: usize, case: u64, sub: u64) {
        unsafe {
            let p = self.slot(i) as *mut u64;
            p.write_volatile(1);
            p.add(1).write_volatile(case);
            p.add(2).write_volatile(sub);
        }
    }
    pub fn set_tag(&self, i: usize, parts: &[&str]) {
        unsafe {
            let p = self.slot(i);
            let mut n = 0usize;
            for (k, s) in parts.iter().enumerate() {
                if k > 0 && n < SLOT_BYTES - 33 {
                    *p.add(32 + n) = b'|';
                    n += 1;
                }
                let l = s.len().min(SLOT_BYTES - 32 - n);
                std::ptr::copy_nonoverlapping(s.as_ptr(), p.add(32 + n), l);
                n += l;
            }
            (p as *mut u64).add(3).write_volatile(n as u64);
        }
    }
    pub fn done(&self, i: usize) {
        unsafe { (self.slot(i) as *mut u64).write_volatile(0) }
    }
    /// (case, sub, tag) of every slot that was busy
    pub fn in_flight(&self) -> Vec<(u64, u64, String)> {
        let mut v = vec![];
        for i in 0..SLOTS {
            unsafe {
                let p = self.slot(i) as *const u64;
                if p.read_volatile() == 1 {
                    let n = (p.add(3).read_volatile() as usize).min(SLOT_BYTES - 32);
                    let tag = std::slice::from_raw_parts(self.slot(i).add(32), n);
                    v.push((p.add(1).read_volatile(), p.add(2).read_volatile(), String::from_utf8_lossy(tag).to_string()));
                }
            }
        }
        v
    }
}

// ------------------------------------------------------------------------------------------------
// per-sweep context
// ------------------------------------------------------------------------------------------------
#[derive(Clone, Debug)]
pub struct Fail {
    pub class: String,
    pub what: String,
    /// "view|ctor|mseq|acc"
    pub sig: String,
}

/// Results a worker accumulates (merged by the child, serialised to the parent).
#[derive(Default)]
pub struct Acc {
    pub outcomes: BTreeMap<String, u64>,
    pub counters: BTreeMap<&'static str, u64>,
    /// class -> (count, smallest (case,sub), what, sig, buffer hex)
    pub fails: BTreeMap<String, (u64, (u64, u64), String, String, String)>,
    pub distinct: Vec<u64>,
    pub skipped: BTreeMap<String, u64>,
}
impl Acc {
    pub fn outcome(&mut self, k: &str) {
        if let Some(n) = self.outcomes.get_mut(k) {
            *n += 1;
        } else {
            self.outcomes.insert(k.to_string(), 1);
        }
    }
    pub fn count(&mut self, k: &'static str, n: u64) {
        *self.counters.entry(k).or_default() += n;
    }
    pub fn merge(&mut self, o: Acc) {
        for (k, n) in o.outcomes {
            *self.outcomes.entry(k).or_default() += n;
        }
        for (k, n) in o.counters {
            *self.counters.entry(k).or_default() += n;
        }
        for (k, n) in o.skipped {
            *self.skipped.entry(k).or_default() += n;
        }
        for (k, v) in o.fails {
            match self.fails.get_mut(&k) {
                None => {
                    self.fails.insert(k, v);
                }
                Some(e) => {
                    e.0 += v.0;
                    if v.1 < e.1 {
                        e.1 = v.1;
                        e.2 = v.2;
                        e.3 = v.3;
                        e.4 = v.4;
                    }
                }
            }
        }
        self.distinct.extend(o.distinct);
    }
}

pub struct Ctx<'a> {
    /// address range of the bytes handed to the constructor
    pub lo: usize,
    pub hi: usize,
    pub view: &'static str,
    pub ctor: &'static str,
    pub mseq: String,
    pub case: u64,
    pub sub: u64,
    /// copy of the bytes handed to the constructor (for witnesses)
    pub input: Vec<u8>,
    pub acc: &'a mut Acc,
    pub progress: Option<(&'a Progress, usize)>,
    pub trace: bool,
    pub skip: &'a std::collections::BTreeSet<String>,
    pub ops: u64,
    /// also call the O(size) conversions (Debug/Display, to_model, to_boxed, ...)
    pub deep: bool,
}
impl Ctx<'_> {
    /// Announce the next operation. false = operation is on the skip list (a crash class already
    /// reported for it).
    #[inline]
    pub fn at(&mut self, name: &'static str) -> bool {
        self.ops += 1;
        if !self.trace && self.skip.is_empty() {
            return true;
        }
        self.at_slow(name)
    }
    #[cold]
    fn at_slow(&mut self, name: &'static str) -> bool {
        if !self.skip.is_empty() {
            // a crash class is keyed by (view, family of the LAST mutator applied) - or, without any
            // mutator, by (view, accessor); everything behind such a mutator is skipped once recorded
            let sig = skip_key(self.view, &self.mseq, name);
            let mut hit = self.skip.contains(&sig);
            if !hit && self.mseq.contains('>') {
                // a sequence containing a mutator that already crashes on its own
                hit = self.mseq.split('>').any(|m| !m.starts_with('#') && self.skip.contains(&format!("{}:after:{}", self.view, family(m))));
            }
            if hit {
                *self.acc.skipped.entry(sig).or_default() += 1;
                return false;
            }
        }
        if self.trace {
            if let Some((p, i)) = self.progress {
                p.set_tag(i, &[self.view, self.ctor, &self.mseq, name]);
            }
        }
        true
    }
    pub fn begin(&mut self, view: &'static str, ctor: &'static str, mseq: &str, lo: usize, hi: usize) {
        self.view = view;
        self.ctor = ctor;
        self.mseq.clear();
        self.mseq.push_str(mseq);
        self.lo = lo;
        self.hi = hi;
        if let Some((p, i)) = self.progress {
            p.set_case(i, self.case, self.sub);
            p.set_tag(i, &[view, ctor, mseq, ""]);
        }
    }
    pub fn fail(&mut self, class: String, what: String, acc_name: &str) {
        let sig = format!("{}|{}|{}|{}", self.view, self.ctor, self.mseq, acc_name);
        let key = (self.case, self.sub);
        match self.acc.fails.get_mut(&class) {
            Some(e) => {
                e.0 += 1;
                if key < e.1 {
                    *e = (e.0, key, what, sig, vpc::hex(&self.input[..self.input.len().min(3000)]));
                }
            }
            None => {
                self.acc.fails.insert(class, (1, key, what, sig, vpc::hex(&self.input[..self.input.len().min(3000)])));
            }
        }
    }
    #[cold]
    pub fn panicked(&mut self, name: &'static str, msg: String) {
        let loc = LAST_PANIC.with(|l| l.borrow().clone());
        let loc = loc.rsplit_once("/repo/").map(|x| x.1.to_string()).unwrap_or(loc);
        // worktree copies of the subject live elsewhere; keep the path from "crates/"
        let loc = loc.find("crates/").map(|i| loc[i..].to_string()).unwrap_or(loc);
        self.fail(format!("panic@{loc}"), format!("{} panicked: {}", name, msg.chars().take(160).collect::<String>()), name);
    }
    /// A returned sub-slice must lie inside the input.
    #[inline]
    pub fn range(&mut self, name: &'static str, p: usize, l: usize) {
        if l == 0 {
            return; // empty slices may carry any (dangling) address
        }
        if p < self.lo || p + l > self.hi {
            self.fail(format!("slice-outside-input@{}.{}", self.view, name), format!("{} returned [{:+}..{:+}) relative to an input of {} bytes", name, p as i64 - self.lo as i64, (p + l) as i64 - self.lo as i64, self.hi - self.lo), name);
        }
    }
}

/// name of a mutator without its argument: `unk.set_message_type(5)` -> `unk.set_message_type`
pub fn family(m: &str) -> &str {
    m.split(['(', '[']).next().unwrap_or(m)
}
/// canonical key of an operation for crash classes / the skip list
pub fn skip_key(view: &str, mseq: &str, acc: &str) -> String {
    if mseq.is_empty() || mseq.starts_with('#') {
        // no mutator applied yet: the operation itself (a mutator that is being applied, or an accessor)
        format!("{view}:{}", family(acc))
    } else {
        format!("{view}:after:{}", mseq.split('>').filter(|m| !m.starts_with('#')).map(family).collect::<Vec<_>>().join(">"))
    }
}
/// call an accessor returning a plain value
#[macro_export]
macro_rules! acc {
    ($c:expr, $n:literal, $e:expr) => {
        if $c.at($n) {
            if let Err(p) = vpc::catch(|| {
                let _ = std::hint::black_box($e);
            }) {
                $c.panicked($n, p);
            }
        }
    };
}
/// an accessor that allocates / formats (only in deep sweeps)
#[macro_export]
macro_rules! accd {
    ($c:expr, $n:literal, $e:expr) => {
        if $c.deep {
            $crate::acc!($c, $n, $e);
        }
    };
}
/// call an accessor returning `&[u8]`: range check + read first and last byte
#[macro_export]
macro_rules! accs {
    ($c:expr, $n:literal, $e:expr) => {
        if $c.at($n) {
            match vpc::catch(|| {
                let s: &[u8] = $e;
                if let (Some(a), Some(b)) = (s.first(), s.last()) {
                    unsafe {
                        std::hint::black_box(std::ptr::read_volatile(a));
                        std::hint::black_box(std::ptr::read_volatile(b));
                    }
                }
                (s.as_ptr() as usize, s.len())
            }) {
                Ok((p, l)) => $c.range($n, p, l),
                Err(p) => $c.panicked($n, p),
            }
        }
    };
}
/// call an accessor returning `&mut [u8]`: range check + rewrite first and last byte
#[macro_export]
macro_rules! accm {
    ($c:expr, $n:literal, $e:expr) => {
        if $c.at($n) {
            match vpc::catch(|| {
                let s: &mut [u8] = $e;
                let l = s.len();
                if l > 0 {
                    unsafe {
                        let a = std::ptr::read_volatile(&s[0]);
                        std::ptr::write_volatile(&mut s[0], a);
                        let b = std::ptr::read_volatile(&s[l - 1]);
                        std::ptr::write_volatile(&mut s[l - 1], b);
                    }
                }
                (s.as_ptr() as usize, l)
            }) {
                Ok((p, l)) => $c.range($n, p, l),
                Err(p) => $c.panicked($n, p),
            }
        }
    };
}
/// apply a mutator (any expression); panics are recorded
#[macro_export]
macro_rules! mutx {
    ($c:expr, $n:literal, $e:expr) => {{
        if $c.at($n) {
            if let Err(p) = vpc::catch(|| {
                let _ = $e;
            }) {
                $c.panicked($n, p);
            }
        }
        Some($n)
    }};
}
