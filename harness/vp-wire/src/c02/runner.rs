//! Runs one buffer through one view type: every constructor at every guard placement, the
//! accept/size oracle against the reference, accessor sweeps, single mutators, mutator sequences.
use sciparse::{
    core::view::{View, ViewConversionError},
    dataplane_path::{
        onehop::view::OneHopPathView,
        standard::view::{HopFieldView, InfoFieldView, StandardPathView},
    },
    header::view::ScionHeaderView,
    packet::view::{ScionRawPacketView, ScionScmpPacketView, ScionUdpPacketView},
    payload::{
        scmp::view::{
            ScmpDestinationUnreachableMessageView, ScmpEchoReplyMessageView, ScmpEchoRequestMessageView, ScmpExternalInterfaceDownMessageView,
            ScmpInternalConnectivityDownMessageView, ScmpPacketTooBigMessageView, ScmpParameterProblemMessageView, ScmpPayloadView,
            ScmpTracerouteReplyMessageView, ScmpTracerouteRequestMessageView, ScmpUnknownMessageView,
        },
        udp::view::UdpDatagramView,
    },
};

use super::{
    cat,
    infra::{Acc, Ctx, GUARD, Progress},
    refv::{self, V},
};

pub trait Kind {
    type V: View + ?Sized;
    const NAME: &'static str;
    fn refv(b: &[u8]) -> V;
    fn acc(c: &mut Ctx, v: &Self::V, full: bool);
    fn accm(_c: &mut Ctx, _v: &mut Self::V) {}
    fn mutate(_c: &mut Ctx, _v: &mut Self::V, _k: usize) -> Option<&'static str> {
        None
    }
}
macro_rules! kind {
    ($k:ident, $v:ty, $name:literal, $refv:expr, $acc:expr $(, accm = $accm:expr)? $(, mutate = $mutate:expr)?) => {
        pub struct $k;
        impl Kind for $k {
            type V = $v;
            const NAME: &'static str = $name;
            fn refv(b: &[u8]) -> V {
                ($refv)(b)
            }
            fn acc(c: &mut Ctx, v: &Self::V, full: bool) {
                ($acc)(c, v, full)
            }
            $(fn accm(c: &mut Ctx, v: &mut Self::V) { ($accm)(c, v) })?
            $(fn mutate(c: &mut Ctx, v: &mut Self::V, k: usize) -> Option<&'static str> { ($mutate)(c, v, k) })?
        }
    };
}
kind!(KHdr, ScionHeaderView, "hdr", refv::header, |c: &mut Ctx, v: &ScionHeaderView, full: bool| if full { cat::acc_header(c, v) } else { cat::acc_header_light(c, v) }, accm = cat::accm_header, mutate = cat::mut_header);
kind!(KRaw, ScionRawPacketView, "raw", |b| refv::raw(b).0, cat::acc_raw, accm = cat::accm_raw, mutate = cat::mut_raw);
kind!(KUdpPkt, ScionUdpPacketView, "udppkt", refv::udp_packet, cat::acc_udppkt, mutate = cat::mut_udppkt);
kind!(KScmpPkt, ScionScmpPacketView, "scmppkt", refv::scmp_packet, cat::acc_scmppkt, mutate = cat::mut_scmppkt);
kind!(KStd, StandardPathView, "std", refv::std_path, |c: &mut Ctx, v: &StandardPathView, full: bool| if full { cat::acc_std(c, v) } else { cat::acc_std_light(c, v) }, accm = cat::accm_std, mutate = cat::mut_std);
kind!(KOneHop, OneHopPathView, "onehop", |b| refv::fixed(b, 32), |c: &mut Ctx, v: &OneHopPathView, _f: bool| cat::acc_onehop(c, v), accm = cat::accm_onehop, mutate = cat::mut_onehop);
kind!(KUdp, UdpDatagramView, "udp", refv::udp_datagram, |c: &mut Ctx, v: &UdpDatagramView, _f: bool| cat::acc_udp(c, v), mutate = cat::mut_udp);
kind!(KScmp, ScmpPayloadView, "scmp", refv::scmp, |c: &mut Ctx, v: &ScmpPayloadView, _f: bool| cat::acc_scmp(c, v), mutate = cat::mut_scmp);
kind!(KInfo, InfoFieldView, "info", |b| refv::fixed(b, 8), |c: &mut Ctx, v: &InfoFieldView, _f: bool| cat::acc_info(c, v), mutate = cat::mut_info);
kind!(KHop, HopFieldView, "hop", |b| refv::fixed(b, 12), |c: &mut Ctx, v: &HopFieldView, _f: bool| {
    static I: [u8; 8] = [1, 0, 0, 0, 0xff, 0xff, 0xff, 0xf0];
    let (i, _) = InfoFieldView::try_from_slice(&I).unwrap();
    cat::acc_hop(c, v, i)
}, mutate = cat::mut_hop);
macro_rules! msgkind {
    ($k:ident, $v:ty, $name:literal, $ty:expr) => {
        kind!($k, $v, $name, |b| refv::scmp_msg_of(b, $ty), |c: &mut Ctx, v: &$v, _f: bool| {
            crate::accs!(c, "msg.as_slice", v.as_slice());
            cat::acc_scmp_msg(c, v.into())
        });
    };
}
msgkind!(KMsgDu, ScmpDestinationUnreachableMessageView, "msg-du", 1);
msgkind!(KMsgPtb, ScmpPacketTooBigMessageView, "msg-ptb", 2);
msgkind!(KMsgPp, ScmpParameterProblemMessageView, "msg-pp", 4);
msgkind!(KMsgEid, ScmpExternalInterfaceDownMessageView, "msg-eid", 5);
msgkind!(KMsgIcd, ScmpInternalConnectivityDownMessageView, "msg-icd", 6);
msgkind!(KMsgEreq, ScmpEchoRequestMessageView, "msg-ereq", 128);
msgkind!(KMsgErep, ScmpEchoReplyMessageView, "msg-erep", 129);
msgkind!(KMsgTreq, ScmpTracerouteRequestMessageView, "msg-treq", 130);
msgkind!(KMsgTrep, ScmpTracerouteReplyMessageView, "msg-trep", 131);
msgkind!(KMsgUnk, ScmpUnknownMessageView, "msg-unk", 0);

#[derive(Clone, Copy, PartialEq, Eq, Debug)]
pub enum Mut1 {
    None,
    /// every single mutator, followed by the light accessor sweep
    Light,
    /// every single mutator, followed by every accessor
    Full,
}
#[derive(Clone, Copy, Debug)]
pub struct Mode {
    pub sweep: bool,
    pub full: bool,
    pub mut1: Mut1,
    /// mutator sequences of exactly 2..=seq mutators, each followed by every accessor
    pub seq: usize,
    pub boxed: bool,
    pub deep: bool,
}
pub const CTOR_ONLY: Mode = Mode { sweep: false, full: false, mut1: Mut1::None, seq: 0, boxed: true, deep: false };

pub struct Env<'a> {
    pub acc: &'a mut Acc,
    pub progress: Option<(&'a Progress, usize)>,
    pub trace: bool,
    pub skip: &'a std::collections::BTreeSet<String>,
    pub case: u64,
    pub sub: u64,
}

fn errkind(e: &ViewConversionError) -> String {
    match e {
        ViewConversionError::BufferTooSmall { at, .. } => format!("too-small@{at}"),
        ViewConversionError::Other(s) => s.replace(' ', "-"),
    }
}

/// returns true when the (immutable slice, end placement) constructor accepted
pub fn exercise<K: Kind>(env: &mut Env, buf: &[u8], mode: Mode) -> bool {
    let rv = K::refv(buf);
    let mut c = Ctx { lo: 0, hi: 0, view: K::NAME, ctor: "", mseq: String::new(), case: env.case, sub: env.sub, input: buf.to_vec(), acc: env.acc, progress: env.progress, trace: env.trace, skip: env.skip, ops: 0, deep: mode.deep };
    let mut verdicts: [Option<Result<usize, String>>; 4] = [None, None, None, None];
    GUARD.with(|g| {
        // ---- constructors at both placements
        for (pi, place) in ["end", "start"].iter().enumerate() {
            for (ci, ctor) in ["slice", "mut"].iter().enumerate() {
                let b: &mut [u8] = if pi == 0 { g.at_end(buf) } else { g.at_start(buf) };
                let (lo, len) = (b.as_ptr() as usize, b.len());
                c.begin(K::NAME, if pi == 0 { if ci == 0 { "slice@end" } else { "mut@end" } } else if ci == 0 { "slice@start" } else { "mut@start" }, "", lo, lo + len);
                let _ = (place, ctor);
                if !c.at("ctor") {
                    continue;
                }
                let r = vpc::catch(|| {
                    if ci == 0 {
                        K::V::try_from_slice(&*b).map(|(v, rest)| (v.as_slice().as_ptr() as usize, v.as_slice().len(), rest.as_ptr() as usize, rest.len()))
                    } else {
                        K::V::try_from_mut_slice(b).map(|(v, rest)| (v.as_slice().as_ptr() as usize, v.as_slice().len(), rest.as_ptr() as usize, rest.len()))
                    }
                });
                match r {
                    Err(p) => {
                        c.panicked("ctor", p);
                        verdicts[pi * 2 + ci] = Some(Err("panic".into()));
                    }
                    Ok(Err(e)) => verdicts[pi * 2 + ci] = Some(Err(errkind(&e))),
                    Ok(Ok((vp, vl, rp, rl))) => {
                        // (3) the view owns a prefix of the input, as long as the constructor reported
                        if vp != lo || vl + rl != len || (rl > 0 && rp != lo + vl) || vl > len {
                            c.fail(format!("view-not-a-prefix-of-input@{}", K::NAME), format!("constructor returned view [{:+},{}) rest [{:+},{}) for an input of {} bytes", vp as i64 - lo as i64, vl, rp as i64 - lo as i64, rl, len), "ctor");
                        }
                        verdicts[pi * 2 + ci] = Some(Ok(vl));
                    }
                }
            }
        }
        let v0 = verdicts[0].clone().unwrap_or(Err("skipped".into()));
        for v in verdicts.iter().flatten() {
            if v.is_ok() != v0.is_ok() || (v.is_ok() && v != &v0) {
                c.fail(format!("constructors-disagree@{}", K::NAME), format!("placements/constructors disagree: {verdicts:?}"), "ctor");
                break;
            }
        }
        // ---- accept / reject and size against the reference
        match (&v0, rv) {
            (Ok(n), V::Accept(m)) | (Ok(n), V::Lenient(m)) => {
                if *n != m {
                    c.fail(format!("view-size-differs-from-reference@{}", K::NAME), format!("view owns {n} bytes, the reference says the structure occupies {m}"), "ctor");
                }
                c.acc.outcome(if matches!(rv, V::Lenient(_)) { concat_name(K::NAME, ":accept-lenient-seglen-gap") } else { concat_name(K::NAME, ":accept") });
                c.acc.count("accepted_view_constructions_distinct", 1);
            }
            (Ok(n), V::Reject(why)) => {
                c.fail(format!("accepts-what-reference-rejects@{}:{why}", K::NAME), format!("constructor accepted ({n} bytes) a buffer that does not contain the structure: {why}"), "ctor");
                c.acc.outcome(concat_name(K::NAME, ":accept-BAD"));
            }
            (Err(e), V::Accept(_)) => {
                let k = format!("{}:reject-of-wellformed:{e}", K::NAME);
                c.acc.outcome(&k);
            }
            (Err(e), _) => {
                let k = format!("{}:reject:{e}", K::NAME);
                c.acc.outcome(&k);
            }
        }
        c.acc.count("constructor_calls", 4);
        let accepted = v0.is_ok();
        // ---- boxed constructor (heap: no guard page, UB checks and range oracle only)
        if mode.boxed {
            c.begin(K::NAME, "boxed", "", 0, 0);
            if c.at("ctor") {
                let bx: Box<[u8]> = buf.to_vec().into_boxed_slice();
                let (lo, len) = (bx.as_ptr() as usize, bx.len());
                c.lo = lo;
                c.hi = lo + len;
                c.acc.count("constructor_calls", 1);
                match vpc::catch(|| K::V::try_from_boxed(bx)) {
                    Err(p) => c.panicked("ctor", p),
                    Ok(Err(_)) => {
                        if let (Ok(n), true) = (&v0, true) {
                            if *n == len {
                                c.fail(format!("boxed-ctor-rejects-exact-buffer@{}", K::NAME), "try_from_boxed rejects a buffer try_from_slice consumes completely".into(), "ctor");
                            }
                        }
                    }
                    Ok(Ok(v)) => {
                        if v.as_slice().as_ptr() as usize != lo || v.as_slice().len() != len || !matches!(v0, Ok(n) if n == len) {
                            c.fail(format!("boxed-ctor-inconsistent@{}", K::NAME), format!("try_from_boxed accepted {len} bytes, try_from_slice said {v0:?}"), "ctor");
                        }
                        if mode.sweep {
                            K::acc(&mut c, &v, false);
                            crate::accs!(c, "as_slice_boxed", &v.as_slice_boxed());
                        }
                    }
                }
            }
        }
        if !accepted || !mode.sweep {
            return accepted;
        }
        // ---- accessor sweeps
        {
            let b = g.at_end(buf);
            let (lo, len) = (b.as_ptr() as usize, b.len());
            c.begin(K::NAME, "slice@end", "", lo, lo + len);
            if let Ok(Ok((v, _))) = vpc::catch(|| K::V::try_from_slice(&*b)) {
                K::acc(&mut c, v, mode.full);
            }
            let b = g.at_start(buf);
            let (lo, len) = (b.as_ptr() as usize, b.len());
            c.begin(K::NAME, "slice@start", "", lo, lo + len);
            let deep = c.deep;
            c.deep = false;
            if let Ok(Ok((v, _))) = vpc::catch(|| K::V::try_from_slice(&*b)) {
                K::acc(&mut c, v, mode.full);
            }
            let b = g.at_end(buf);
            let (lo, len) = (b.as_ptr() as usize, b.len());
            c.begin(K::NAME, "mut@end", "", lo, lo + len);
            if let Ok(Ok((v, _))) = vpc::catch(|| K::V::try_from_mut_slice(b)) {
                K::accm(&mut c, v);
                K::acc(&mut c, v, false);
            }
            c.deep = deep;
        }
        // ---- single mutators
        if mode.mut1 != Mut1::None || mode.seq >= 1 {
            let full = mode.mut1 == Mut1::Full || mode.seq >= 1;
            let mut tag = String::new();
            for k in 0.. {
                let b = g.at_end(buf);
                let (lo, len) = (b.as_ptr() as usize, b.len());
                tag.clear();
                use std::fmt::Write;
                let _ = write!(tag, "#{k}");
                c.begin(K::NAME, "mut@end", &tag, lo, lo + len);
                let Ok(Ok((v, _))) = vpc::catch(|| K::V::try_from_mut_slice(b)) else { break };
                let Some(name) = K::mutate(&mut c, v, k) else { break };
                c.mseq.clear();
                c.mseq.push_str(name);
                K::acc(&mut c, v, full);
                if full {
                    K::accm(&mut c, v);
                }
                c.acc.count("mutator_applications", 1);
            }
        }
        // ---- mutator sequences of length 2 (and 3)
        if mode.seq >= 2 {
            let mut names: Vec<&'static str> = vec![];
            for k1 in 0.. {
                let mut any2 = false;
                for k2 in 0.. {
                    let mut any3 = false;
                    for k3 in 0..(if mode.seq >= 3 { usize::MAX } else { 1 }) {
                        let b = g.at_end(buf);
                        let (lo, len) = (b.as_ptr() as usize, b.len());
                        let tag = if mode.seq >= 3 { format!("#{k1}>#{k2}>#{k3}") } else { format!("#{k1}>#{k2}") };
                        c.begin(K::NAME, "mut@end", &tag, lo, lo + len);
                        let Ok(Ok((v, _))) = vpc::catch(|| K::V::try_from_mut_slice(b)) else { break };
                        names.clear();
                        let Some(n1) = K::mutate(&mut c, v, k1) else { break };
                        names.push(n1);
                        c.mseq = n1.to_string();
                        let Some(n2) = K::mutate(&mut c, v, k2) else { break };
                        names.push(n2);
                        any2 = true;
                        c.mseq = format!("{n1}>{n2}");
                        if mode.seq >= 3 {
                            let Some(n3) = K::mutate(&mut c, v, k3) else { break };
                            c.mseq = format!("{n1}>{n2}>{n3}");
                        }
                        any3 = true;
                        K::acc(&mut c, v, true);
                        K::accm(&mut c, v);
                        c.acc.count("mutator_sequences", 1);
                    }
                    if !any3 {
                        break;
                    }
                }
                if !any2 {
                    break;
                }
            }
        }
        accepted
    });
    let ops = c.ops;
    let accepted = matches!(verdicts[0], Some(Ok(_)));
    if let Some((p, i)) = env.progress {
        p.done(i);
    }
    env.acc.count("subject_calls", ops);
    accepted
}

/// interned concatenation (few distinct values)
fn concat_name(a: &'static str, b: &'static str) -> &'static str {
    use std::{collections::BTreeMap, sync::Mutex};
    static M: Mutex<BTreeMap<(&'static str, &'static str), &'static str>> = Mutex::new(BTreeMap::new());
    thread_local! { static L: std::cell::RefCell<BTreeMap<(&'static str, &'static str), &'static str>> = const { std::cell::RefCell::new(BTreeMap::new()) }; }
    L.with(|l| {
        if let Some(s) = l.borrow().get(&(a, b)) {
            return *s;
        }
        let mut m = M.lock().unwrap();
        let s = *m.entry((a, b)).or_insert_with(|| Box::leak(format!("{a}{b}").into_boxed_str()));
        l.borrow_mut().insert((a, b), s);
        s
    })
}
