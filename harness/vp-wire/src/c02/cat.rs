//! Catalogue of every safe `pub fn` of the view types: accessor sweeps (`acc_*`) and mutators
//! (`mut_*`, indexed 0.. until `None`). Cross-checked against sciparse's own
//! `util::fuzz::view_function_checks` (see `CROSSCHECK` at the end).
use sciparse::{
    core::view::View,
    dataplane_path::{
        onehop::view::OneHopPathView,
        standard::{
            types::{HopFieldFlags, HopFieldMac, InfoFieldFlags},
            view::{HopFieldView, InfoFieldView, StandardPathView},
        },
        view::{ScionDpPathViewExt, ScionDpPathViewRef, ScionDpPathViewRefMut},
    },
    header::view::ScionHeaderView,
    identifier::{asn::Asn, isd::Isd, isd_asn::IsdAsn},
    packet::view::{ScionRawPacketView, ScionScmpPacketView, ScionUdpPacketView},
    payload::{
        ProtocolNumber,
        scmp::view::{ScmpMessageExt, ScmpMessageView, ScmpMessageViewMut, ScmpPayloadView},
        udp::view::UdpDatagramView,
    },
};

use super::infra::Ctx;
use crate::{acc, accd, accm, accs, mutx};

fn infos_bytes(s: &[InfoFieldView]) -> &[u8] {
    unsafe { std::slice::from_raw_parts(s.as_ptr() as *const u8, s.len() * 8) }
}
fn hops_bytes(s: &[HopFieldView]) -> &[u8] {
    unsafe { std::slice::from_raw_parts(s.as_ptr() as *const u8, s.len() * 12) }
}
fn infos_bytes_mut(s: &mut [InfoFieldView]) -> &mut [u8] {
    unsafe { std::slice::from_raw_parts_mut(s.as_mut_ptr() as *mut u8, s.len() * 8) }
}
fn hops_bytes_mut(s: &mut [HopFieldView]) -> &mut [u8] {
    unsafe { std::slice::from_raw_parts_mut(s.as_mut_ptr() as *mut u8, s.len() * 12) }
}
fn osl<T: View + ?Sized>(o: Option<&T>) -> &[u8] {
    match o {
        Some(v) => v.as_slice(),
        None => &[],
    }
}
const IDX: [usize; 9] = [0, 1, 2, 3, 62, 63, 64, 255, usize::MAX];

// ---------------------------------------------------------------- info / hop field
pub fn acc_info(c: &mut Ctx, f: &InfoFieldView) {
    acc!(c, "info.flags", f.flags());
    acc!(c, "info.segment_id", f.segment_id());
    acc!(c, "info.timestamp", f.timestamp());
    accs!(c, "info.as_slice", f.as_slice());
    accd!(c, "info.debug", format!("{f:?}"));
}
pub fn acc_hop(c: &mut Ctx, h: &HopFieldView, i: &InfoFieldView) {
    acc!(c, "hop.flags", h.flags());
    acc!(c, "hop.exp_time", h.exp_time());
    acc!(c, "hop.cons_ingress", h.cons_ingress());
    acc!(c, "hop.cons_egress", h.cons_egress());
    acc!(c, "hop.mac", h.mac());
    acc!(c, "hop.ingress_interface", h.ingress_interface(i));
    acc!(c, "hop.egress_interface", h.egress_interface(i));
    acc!(c, "hop.ingress_scmp_alert", h.ingress_scmp_alert(i));
    acc!(c, "hop.egress_scmp_alert", h.egress_scmp_alert(i));
    acc!(c, "hop.expiry_timestamp", h.expiry_timestamp(i));
    accs!(c, "hop.as_slice", h.as_slice());
    accd!(c, "hop.debug", format!("{h:?}"));
}
pub fn mut_info(c: &mut Ctx, f: &mut InfoFieldView, k: usize) -> Option<&'static str> {
    match k {
        0 => mutx!(c, "info.set_flags(ff)", f.set_flags(InfoFieldFlags::from_bits_retain(0xff))),
        1 => mutx!(c, "info.set_flags(0)", f.set_flags(InfoFieldFlags::from_bits_retain(0))),
        2 => mutx!(c, "info.set_segment_id(ffff)", f.set_segment_id(0xffff)),
        3 => mutx!(c, "info.set_timestamp(ffffffff)", f.set_timestamp(0xffff_ffff)),
        4 => mutx!(c, "info.set_timestamp(0)", f.set_timestamp(0)),
        _ => None,
    }
}
pub fn mut_hop(c: &mut Ctx, h: &mut HopFieldView, k: usize) -> Option<&'static str> {
    match k {
        0 => mutx!(c, "hop.set_flags(ff)", h.set_flags(HopFieldFlags::from_bits_retain(0xff))),
        1 => mutx!(c, "hop.set_exp_time(ff)", h.set_exp_time(0xff)),
        2 => mutx!(c, "hop.set_cons_ingress(ffff)", h.set_cons_ingress(0xffff)),
        3 => mutx!(c, "hop.set_cons_ingress(0)", h.set_cons_ingress(0)),
        4 => mutx!(c, "hop.set_cons_egress(ffff)", h.set_cons_egress(0xffff)),
        5 => mutx!(c, "hop.set_mac(ff)", h.set_mac(HopFieldMac([0xff; 6]))),
        _ => None,
    }
}

// ---------------------------------------------------------------- standard path
/// accessors whose result depends on CurrINF / CurrHF and the segment lengths
pub fn acc_std_light(c: &mut Ctx, p: &StandardPathView) {
    acc!(c, "std.curr_info_field_idx", p.curr_info_field_idx());
    acc!(c, "std.curr_hop_field_idx", p.curr_hop_field_idx());
    accs!(c, "std.curr_info_field", osl(p.curr_info_field()));
    accs!(c, "std.curr_hop_field", osl(p.curr_hop_field()));
    acc!(c, "std.curr_egress_interface", p.curr_egress_interface());
    acc!(c, "std.calculate_segment_index(curr)", p.calculate_segment_index(p.curr_hop_field_idx() as usize));
    accs!(c, "std.as_slice", p.as_slice());
    accs!(c, "std.info_fields", infos_bytes(p.info_fields()));
    accs!(c, "std.hop_fields", hops_bytes(p.hop_fields()));
    acc!(c, "std.expiration", p.expiration());
    if c.at("std.segments") {
        if let Err(e) = vpc::catch(|| {
            let it = p.segments();
            std::hint::black_box((it.is_empty(), it.segment_count(), it.hop_field_count()));
            let mut n = 0usize;
            for (i, hs) in it {
                std::hint::black_box((i.timestamp(), hs.len(), hs.first().map(|h| h.exp_time()), hs.last().map(|h| h.mac())));
                n += 1;
                if n > 4 {
                    panic!("segment iterator yields more than 3 segments");
                }
            }
        }) {
            c.panicked("std.segments", e);
        }
    }
}
pub fn acc_std(c: &mut Ctx, p: &StandardPathView) {
    acc_std_light(c, p);
    acc!(c, "std.seg0_len", p.seg0_len());
    acc!(c, "std.seg1_len", p.seg1_len());
    acc!(c, "std.seg2_len", p.seg2_len());
    acc!(c, "std.info_field_count", p.info_field_count());
    acc!(c, "std.hop_field_count", p.hop_field_count());
    let ni = p.info_field_count() as usize;
    let nh = p.hop_field_count() as usize;
    for i in IDX.iter().copied().chain([ni.wrapping_sub(1), ni, nh.wrapping_sub(1), nh, nh + 1]) {
        accs!(c, "std.info_field(i)", osl(p.info_field(i)));
        accs!(c, "std.hop_field(i)", osl(p.hop_field(i)));
        acc!(c, "std.checked_hop_field_range(i)", p.checked_hop_field_range(i));
        acc!(c, "std.calculate_segment_index(i)", p.calculate_segment_index(i));
    }
    // first and last element of the field arrays, through every field reader
    let infos = p.info_fields();
    let hops = p.hop_fields();
    if let (Some(i0), Some(il)) = (infos.first(), infos.last()) {
        acc_info(c, i0);
        acc_info(c, il);
        if let (Some(h0), Some(hl)) = (hops.first(), hops.last()) {
            acc_hop(c, h0, i0);
            acc_hop(c, hl, il);
        }
    }
    accd!(c, "std.debug", format!("{p:?}").len());
    accd!(c, "std.display", format!("{p}").len());
    accd!(c, "std.to_boxed", p.to_boxed().as_slice().len());
    accd!(c, "std.eq", p == p);
    let r = ScionDpPathViewRef::Standard(p);
    acc_pathref(c, &r);
}
fn acc_pathref(c: &mut Ctx, r: &ScionDpPathViewRef) {
    accs!(c, "pathref.as_slice", r.as_slice());
    acc!(c, "pathref.expiration", r.expiration());
    acc!(c, "pathref.first_egress_interface", r.first_egress_interface());
    acc!(c, "pathref.current_egress_interface", r.current_egress_interface());
    acc!(c, "pathref.last_ingress_interface", r.last_ingress_interface());
    acc!(c, "pathref.current_ingress_interface", r.current_ingress_interface());
    accd!(c, "pathref.to_model", r.to_model());
    accd!(c, "pathref.to_owned_view", r.to_owned_view());
    accd!(c, "pathref.display", format!("{r}").len());
    accd!(c, "pathref.debug", format!("{r:?}").len());
}
/// the `&mut` accessors (return mutable sub-views): range + rewrite
pub fn accm_std(c: &mut Ctx, p: &mut StandardPathView) {
    accm!(c, "std.info_fields_mut", infos_bytes_mut(p.info_fields_mut()));
    accm!(c, "std.hop_fields_mut", hops_bytes_mut(p.hop_fields_mut()));
    let ni = p.info_field_count() as usize;
    let nh = p.hop_field_count() as usize;
    for i in IDX.iter().copied().chain([ni.wrapping_sub(1), ni, nh.wrapping_sub(1), nh]) {
        accs!(c, "std.info_field_mut(i)", osl(p.info_field_mut(i).map(|x| &*x)));
        accs!(c, "std.hop_field_mut(i)", osl(p.hop_field_mut(i).map(|x| &*x)));
    }
    accs!(c, "std.curr_info_field_mut", osl(p.curr_info_field_mut().map(|x| &*x)));
    accs!(c, "std.curr_hop_field_mut", osl(p.curr_hop_field_mut().map(|x| &*x)));
}
pub fn mut_std(c: &mut Ctx, p: &mut StandardPathView, k: usize) -> Option<&'static str> {
    match k {
        0 => mutx!(c, "std.set_curr_info_field(3)", p.set_curr_info_field(3)),
        1 => mutx!(c, "std.set_curr_info_field(0)", p.set_curr_info_field(0)),
        2 => mutx!(c, "std.set_curr_info_field(ff)", p.set_curr_info_field(0xff)),
        3 => mutx!(c, "std.set_curr_hop_field(63)", p.set_curr_hop_field(63)),
        4 => mutx!(c, "std.set_curr_hop_field(0)", p.set_curr_hop_field(0)),
        5 => mutx!(c, "std.set_curr_hop_field(last)", p.set_curr_hop_field(p.hop_field_count().wrapping_sub(1))),
        6 => mutx!(c, "std.try_reverse", p.try_reverse()),
        7 => mutx!(c, "std.info_fields_mut[last].set_timestamp", if let Some(f) = p.info_fields_mut().last_mut() { f.set_timestamp(0xffff_fff0) }),
        8 => mutx!(c, "std.hop_fields_mut[last].set_mac", if let Some(h) = p.hop_fields_mut().last_mut() { h.set_mac(HopFieldMac([0xee; 6])) }),
        9 => mutx!(c, "std.hop_fields_mut[0].set_exp_time", if let Some(h) = p.hop_fields_mut().first_mut() { h.set_exp_time(0xff) }),
        10 => mutx!(c, "std.info_field_mut(last).set_flags", { let n = (p.info_field_count() as usize).wrapping_sub(1); if let Some(f) = p.info_field_mut(n) { f.set_flags(InfoFieldFlags::from_bits_retain(0xff)) } }),
        11 => mutx!(c, "std.hop_field_mut(last).set_cons_egress", { let n = (p.hop_field_count() as usize).wrapping_sub(1); if let Some(h) = p.hop_field_mut(n) { h.set_cons_egress(0xffff) } }),
        12 => mutx!(c, "std.curr_info_field_mut.set_segment_id", if let Some(f) = p.curr_info_field_mut() { f.set_segment_id(0xffff) }),
        13 => mutx!(c, "std.curr_hop_field_mut.set_cons_ingress", if let Some(h) = p.curr_hop_field_mut() { h.set_cons_ingress(0xffff) }),
        _ => {
            // every field writer on the first info / hop field
            let k = k - 14;
            if k < 5 {
                let mut r = None;
                if let Some(f) = p.info_field_mut(0) {
                    r = mut_info(c, f, k);
                }
                r.or(Some("std.info_field_mut(0)=None"))
            } else if k < 11 {
                let mut r = None;
                if let Some(h) = p.hop_field_mut(0) {
                    r = mut_hop(c, h, k - 5);
                }
                r.or(Some("std.hop_field_mut(0)=None"))
            } else {
                None
            }
        }
    }
}

// ---------------------------------------------------------------- one-hop path
pub fn acc_onehop(c: &mut Ctx, p: &OneHopPathView) {
    accs!(c, "onehop.as_slice", p.as_slice());
    accs!(c, "onehop.info_field", p.info_field().as_slice());
    accs!(c, "onehop.hop_fields[0]", p.hop_fields()[0].as_slice());
    accs!(c, "onehop.hop_fields[1]", p.hop_fields()[1].as_slice());
    acc!(c, "onehop.expiration", p.expiration());
    accd!(c, "onehop.debug", format!("{p:?}").len());
    accd!(c, "onehop.display", format!("{p}").len());
    accd!(c, "onehop.clone_eq", p.clone() == *p);
    accd!(c, "onehop.to_boxed", p.to_boxed().as_slice().len());
    let i = p.info_field();
    acc_info(c, i);
    let [h1, h2] = p.hop_fields();
    acc_hop(c, h1, i);
    acc_hop(c, h2, i);
    let r = ScionDpPathViewRef::OneHop(p);
    acc_pathref(c, &r);
}
pub fn accm_onehop(c: &mut Ctx, p: &mut OneHopPathView) {
    accs!(c, "onehop.info_field_mut", p.info_field_mut().as_slice());
    accs!(c, "onehop.mut_hop_fields[0]", p.mut_hop_fields()[0].as_slice());
    accs!(c, "onehop.mut_hop_fields[1]", p.mut_hop_fields()[1].as_slice());
}
pub fn mut_onehop(c: &mut Ctx, p: &mut OneHopPathView, k: usize) -> Option<&'static str> {
    match k {
        0 => mutx!(c, "onehop.set_second_hop(ffff,false)", p.set_second_hop(0xffff, [7u8; 16], false)),
        1 => mutx!(c, "onehop.set_second_hop(0,true)", p.set_second_hop(0, [7u8; 16], true)),
        2 => mutx!(c, "onehop.try_reverse", p.try_reverse()),
        _ => {
            let k = k - 3;
            if k < 5 {
                mut_info(c, p.info_field_mut(), k)
            } else if k < 11 {
                mut_hop(c, p.mut_hop_fields()[0], k - 5)
            } else if k < 17 {
                mut_hop(c, p.mut_hop_fields()[1], k - 11)
            } else {
                None
            }
        }
    }
}

// ---------------------------------------------------------------- header
pub fn acc_path(c: &mut Ctx, r: ScionDpPathViewRef, light: bool) {
    match r {
        ScionDpPathViewRef::Standard(p) => {
            if light {
                acc_std_light(c, p)
            } else {
                acc_std(c, p)
            }
        }
        ScionDpPathViewRef::OneHop(p) => {
            if light {
                accs!(c, "onehop.as_slice", p.as_slice());
                acc!(c, "onehop.expiration", p.expiration());
            } else {
                acc_onehop(c, p)
            }
        }
        ScionDpPathViewRef::Unsupported { data, .. } => {
            accs!(c, "unsup.data", data);
            if !light {
                acc_pathref(c, &r);
            }
        }
        ScionDpPathViewRef::Empty => {
            if !light {
                acc_pathref(c, &r);
            }
        }
    }
}
pub fn acc_header_light(c: &mut Ctx, h: &ScionHeaderView) {
    accs!(c, "hdr.as_slice", h.as_slice());
    acc!(c, "hdr.header_len", h.header_len());
    acc!(c, "hdr.dst_host_addr", h.dst_host_addr());
    acc!(c, "hdr.src_host_addr", h.src_host_addr());
    if c.at("hdr.path") {
        match vpc::catch(|| h.path()) {
            Ok(r) => acc_path(c, r, true),
            Err(e) => c.panicked("hdr.path", e),
        }
    }
}
pub fn acc_header(c: &mut Ctx, h: &ScionHeaderView) {
    accs!(c, "hdr.as_slice", h.as_slice());
    acc!(c, "hdr.version", h.version());
    acc!(c, "hdr.traffic_class", h.traffic_class());
    acc!(c, "hdr.flow_id", h.flow_id());
    acc!(c, "hdr.next_header", h.next_header());
    acc!(c, "hdr.payload_len", h.payload_len());
    acc!(c, "hdr.header_len", h.header_len());
    acc!(c, "hdr.path_type", h.path_type());
    acc!(c, "hdr.path_type_range", h.path_type_range());
    acc!(c, "hdr.dst_addr_type", h.dst_addr_type());
    acc!(c, "hdr.src_addr_type", h.src_addr_type());
    acc!(c, "hdr.dst_ia", h.dst_ia());
    acc!(c, "hdr.dst_isd", h.dst_isd());
    acc!(c, "hdr.dst_as", h.dst_as());
    acc!(c, "hdr.src_ia", h.src_ia());
    acc!(c, "hdr.src_isd", h.src_isd());
    acc!(c, "hdr.src_as", h.src_as());
    acc!(c, "hdr.dst_host_addr", h.dst_host_addr());
    acc!(c, "hdr.src_host_addr", h.src_host_addr());
    acc!(c, "hdr.src_host_addr_range", h.src_host_addr_range());
    accd!(c, "hdr.debug", format!("{h:?}").len());
    accd!(c, "hdr.to_boxed", h.to_boxed().as_slice().len());
    if c.at("hdr.path") {
        match vpc::catch(|| h.path()) {
            Ok(r) => acc_path(c, r, false),
            Err(e) => c.panicked("hdr.path", e),
        }
    }
}
pub fn accm_header(c: &mut Ctx, h: &mut ScionHeaderView) {
    if c.at("hdr.path_mut") {
        match vpc::catch(|| match h.path_mut() {
            ScionDpPathViewRefMut::Standard(p) => (1u8, p.as_slice().as_ptr() as usize, p.as_slice().len()),
            ScionDpPathViewRefMut::OneHop(p) => (2, p.as_slice().as_ptr() as usize, 32),
            ScionDpPathViewRefMut::Unsupported { buf, .. } => (3, buf.as_ptr() as usize, buf.len()),
            ScionDpPathViewRefMut::Empty => (0, 0, 0),
        }) {
            Ok((_, p, l)) => c.range("hdr.path_mut", p, l),
            Err(e) => c.panicked("hdr.path_mut", e),
        }
    }
    match h.path_mut() {
        ScionDpPathViewRefMut::Standard(p) => accm_std(c, p),
        ScionDpPathViewRefMut::OneHop(p) => accm_onehop(c, p),
        ScionDpPathViewRefMut::Unsupported { buf, .. } => {
            accm!(c, "unsup.buf", &mut *buf);
        }
        ScionDpPathViewRefMut::Empty => {}
    }
}
pub const N_HDR_OWN: usize = 12;
pub fn mut_header(c: &mut Ctx, h: &mut ScionHeaderView, k: usize) -> Option<&'static str> {
    match k {
        0 => mutx!(c, "hdr.set_version(f)", h.set_version(0xf)),
        1 => mutx!(c, "hdr.set_version(0)", h.set_version(0)),
        2 => mutx!(c, "hdr.set_traffic_class(ff)", h.set_traffic_class(0xff)),
        3 => mutx!(c, "hdr.set_flow_id(ffffffff)", h.set_flow_id(0xffff_ffff)),
        4 => mutx!(c, "hdr.set_next_header(udp)", h.set_next_header(ProtocolNumber::Udp)),
        5 => mutx!(c, "hdr.set_next_header(scmp)", h.set_next_header(ProtocolNumber::Scmp)),
        6 => mutx!(c, "hdr.set_next_header(0)", h.set_next_header(ProtocolNumber::Other(0))),
        7 => mutx!(c, "hdr.set_src_isd(ffff)", h.set_src_isd(Isd(0xffff))),
        8 => mutx!(c, "hdr.set_src_as(max)", h.set_src_as(Asn(u64::MAX))),
        9 => mutx!(c, "hdr.set_dst_isd(ffff)", h.set_dst_isd(Isd(0xffff))),
        10 => mutx!(c, "hdr.set_dst_as(max)", h.set_dst_as(Asn(u64::MAX))),
        11 => mutx!(c, "hdr.path_mut.try_reverse(ext)", {
            use sciparse::dataplane_path::view::ScionDpPathViewExtMut;
            let mut pm = h.path_mut();
            let _ = pm.try_reverse();
        }),
        _ => {
            let k = k - N_HDR_OWN;
            match h.path_mut() {
                ScionDpPathViewRefMut::Standard(p) => mut_std(c, p, k),
                ScionDpPathViewRefMut::OneHop(p) => mut_onehop(c, p, k),
                ScionDpPathViewRefMut::Unsupported { buf, .. } => match k {
                    0 => mutx!(c, "unsup.fill(ff)", buf.fill(0xff)),
                    1 => mutx!(c, "unsup.fill(0)", buf.fill(0)),
                    _ => None,
                },
                ScionDpPathViewRefMut::Empty => None,
            }
        }
    }
}

// ---------------------------------------------------------------- UDP datagram
pub fn acc_udp(c: &mut Ctx, u: &UdpDatagramView) {
    accs!(c, "udp.as_slice", u.as_slice());
    acc!(c, "udp.src_port", u.src_port());
    acc!(c, "udp.dst_port", u.dst_port());
    acc!(c, "udp.length", u.length());
    acc!(c, "udp.checksum", u.checksum());
    accs!(c, "udp.payload", u.payload());
    accd!(c, "udp.debug", format!("{u:?}").len());
    accd!(c, "udp.to_boxed", u.to_boxed().as_slice().len());
}
pub fn mut_udp(c: &mut Ctx, u: &mut UdpDatagramView, k: usize) -> Option<&'static str> {
    match k {
        0 => mutx!(c, "udp.set_src_port(ffff)", u.set_src_port(0xffff)),
        1 => mutx!(c, "udp.set_dst_port(ffff)", u.set_dst_port(0xffff)),
        2 => mutx!(c, "udp.set_length(0)", u.set_length(0)),
        3 => mutx!(c, "udp.set_length(ffff)", u.set_length(0xffff)),
        4 => mutx!(c, "udp.set_length(8)", u.set_length(8)),
        5 => mutx!(c, "udp.set_checksum(ffff)", u.set_checksum(0xffff)),
        6 => mutx!(c, "udp.payload_mut.fill(ff)", u.payload_mut().fill(0xff)),
        _ => None,
    }
}

// ---------------------------------------------------------------- SCMP
pub fn acc_scmp_msg(c: &mut Ctx, m: ScmpMessageView) {
    acc!(c, "scmpmsg.is_error", m.is_error());
    acc!(c, "scmpmsg.is_informational", m.is_informational());
    accd!(c, "scmpmsg.to_model", m.to_model());
    accd!(c, "scmpmsg.debug", format!("{m:?}").len());
    match m {
        ScmpMessageView::DestinationUnreachable(v) => {
            acc!(c, "du.message_type", v.message_type());
            acc!(c, "du.code", v.code());
            acc!(c, "du.checksum", v.checksum());
            acc!(c, "du.reserved", v.reserved());
            accs!(c, "du.offending_packet", v.offending_packet());
            accs!(c, "du.as_slice", v.as_slice());
        }
        ScmpMessageView::PacketTooBig(v) => {
            acc!(c, "ptb.message_type", v.message_type());
            acc!(c, "ptb.code", v.code());
            acc!(c, "ptb.checksum", v.checksum());
            acc!(c, "ptb.reserved", v.reserved());
            acc!(c, "ptb.mtu", v.mtu());
            accs!(c, "ptb.offending_packet", v.offending_packet());
            accs!(c, "ptb.as_slice", v.as_slice());
        }
        ScmpMessageView::ParameterProblem(v) => {
            acc!(c, "pp.message_type", v.message_type());
            acc!(c, "pp.code", v.code());
            acc!(c, "pp.checksum", v.checksum());
            acc!(c, "pp.reserved", v.reserved());
            acc!(c, "pp.pointer", v.pointer());
            accs!(c, "pp.offending_packet", v.offending_packet());
            accs!(c, "pp.as_slice", v.as_slice());
        }
        ScmpMessageView::ExternalInterfaceDown(v) => {
            acc!(c, "eid.message_type", v.message_type());
            acc!(c, "eid.code", v.code());
            acc!(c, "eid.checksum", v.checksum());
            acc!(c, "eid.isd_asn", v.isd_asn());
            acc!(c, "eid.interface_id", v.interface_id());
            accs!(c, "eid.offending_packet", v.offending_packet());
            accs!(c, "eid.as_slice", v.as_slice());
        }
        ScmpMessageView::InternalConnectivityDown(v) => {
            acc!(c, "icd.message_type", v.message_type());
            acc!(c, "icd.code", v.code());
            acc!(c, "icd.checksum", v.checksum());
            acc!(c, "icd.isd_asn", v.isd_asn());
            acc!(c, "icd.ingress_interface_id", v.ingress_interface_id());
            acc!(c, "icd.egress_interface_id", v.egress_interface_id());
            accs!(c, "icd.offending_packet", v.offending_packet());
            accs!(c, "icd.as_slice", v.as_slice());
        }
        ScmpMessageView::EchoRequest(v) => {
            acc!(c, "ereq.message_type", v.message_type());
            acc!(c, "ereq.code", v.code());
            acc!(c, "ereq.checksum", v.checksum());
            acc!(c, "ereq.identifier", v.identifier());
            acc!(c, "ereq.sequence_number", v.sequence_number());
            accs!(c, "ereq.data", v.data());
            accs!(c, "ereq.as_slice", v.as_slice());
        }
        ScmpMessageView::EchoReply(v) => {
            acc!(c, "erep.message_type", v.message_type());
            acc!(c, "erep.code", v.code());
            acc!(c, "erep.checksum", v.checksum());
            acc!(c, "erep.identifier", v.identifier());
            acc!(c, "erep.sequence_number", v.sequence_number());
            accs!(c, "erep.data", v.data());
            accs!(c, "erep.as_slice", v.as_slice());
        }
        ScmpMessageView::TracerouteRequest(v) => {
            acc!(c, "treq.message_type", v.message_type());
            acc!(c, "treq.code", v.code());
            acc!(c, "treq.checksum", v.checksum());
            acc!(c, "treq.identifier", v.identifier());
            acc!(c, "treq.sequence_number", v.sequence_number());
            acc!(c, "treq.isd_asn", v.isd_asn());
            acc!(c, "treq.interface_id", v.interface_id());
            accs!(c, "treq.as_slice", v.as_slice());
        }
        ScmpMessageView::TracerouteReply(v) => {
            acc!(c, "trep.message_type", v.message_type());
            acc!(c, "trep.code", v.code());
            acc!(c, "trep.checksum", v.checksum());
            acc!(c, "trep.identifier", v.identifier());
            acc!(c, "trep.sequence_number", v.sequence_number());
            acc!(c, "trep.isd_asn", v.isd_asn());
            acc!(c, "trep.interface_id", v.interface_id());
            accs!(c, "trep.as_slice", v.as_slice());
        }
        ScmpMessageView::Unknown(v) => {
            acc!(c, "unk.message_type", v.message_type());
            acc!(c, "unk.code", v.code());
            acc!(c, "unk.checksum", v.checksum());
            accs!(c, "unk.message_specific_data", v.message_specific_data());
            accs!(c, "unk.as_slice", v.as_slice());
        }
    }
}
pub fn acc_scmp(c: &mut Ctx, s: &ScmpPayloadView) {
    accs!(c, "scmp.as_slice", s.as_slice());
    acc!(c, "scmp.message_type", s.message_type());
    acc!(c, "scmp.code", s.code());
    acc!(c, "scmp.checksum", s.checksum());
    acc!(c, "scmp.dst_port", s.dst_port());
    accd!(c, "scmp.debug", format!("{s:?}").len());
    accd!(c, "scmp.to_boxed", s.to_boxed().as_slice().len());
    if c.at("scmp.message") {
        match vpc::catch(|| s.message()) {
            Ok(m) => acc_scmp_msg(c, m),
            Err(e) => c.panicked("scmp.message", e),
        }
    }
}
pub fn mut_scmp(c: &mut Ctx, s: &mut ScmpPayloadView, k: usize) -> Option<&'static str> {
    match k {
        0 => mutx!(c, "scmp.set_code(ff)", s.set_code(0xff)),
        1 => mutx!(c, "scmp.set_checksum(ffff)", s.set_checksum(0xffff)),
        _ => {
            let k = k - 2;
            let ia = IsdAsn::from_u64(u64::MAX);
            match s.message_mut() {
                ScmpMessageViewMut::DestinationUnreachable(v) => match k {
                    0 => mutx!(c, "du.set_code(ff)", v.set_code(0xff.into())),
                    1 => mutx!(c, "du.set_checksum", v.set_checksum(0xffff)),
                    2 => mutx!(c, "du.set_reserved", v.set_reserved(0xffff_ffff)),
                    3 => mutx!(c, "du.offending_packet_mut.fill(0)", v.offending_packet_mut().fill(0)),
                    _ => None,
                },
                ScmpMessageViewMut::PacketTooBig(v) => match k {
                    0 => mutx!(c, "ptb.set_code(ff)", v.set_code(0xff)),
                    1 => mutx!(c, "ptb.set_checksum", v.set_checksum(0xffff)),
                    2 => mutx!(c, "ptb.set_reserved", v.set_reserved(0xffff)),
                    3 => mutx!(c, "ptb.set_mtu", v.set_mtu(0xffff)),
                    4 => mutx!(c, "ptb.offending_packet_mut.fill(0)", v.offending_packet_mut().fill(0)),
                    _ => None,
                },
                ScmpMessageViewMut::ParameterProblem(v) => match k {
                    0 => mutx!(c, "pp.set_code(ff)", v.set_code(0xff.into())),
                    1 => mutx!(c, "pp.set_checksum", v.set_checksum(0xffff)),
                    2 => mutx!(c, "pp.set_reserved", v.set_reserved(0xffff)),
                    3 => mutx!(c, "pp.set_pointer", v.set_pointer(0xffff)),
                    4 => mutx!(c, "pp.offending_packet_mut.fill(0)", v.offending_packet_mut().fill(0)),
                    _ => None,
                },
                ScmpMessageViewMut::ExternalInterfaceDown(v) => match k {
                    0 => mutx!(c, "eid.set_code(ff)", v.set_code(0xff)),
                    1 => mutx!(c, "eid.set_checksum", v.set_checksum(0xffff)),
                    2 => mutx!(c, "eid.set_isd_asn", v.set_isd_asn(ia)),
                    3 => mutx!(c, "eid.set_interface_id", v.set_interface_id(u64::MAX)),
                    4 => mutx!(c, "eid.offending_packet_mut.fill(0)", v.offending_packet_mut().fill(0)),
                    _ => None,
                },
                ScmpMessageViewMut::InternalConnectivityDown(v) => match k {
                    0 => mutx!(c, "icd.set_code(ff)", v.set_code(0xff)),
                    1 => mutx!(c, "icd.set_checksum", v.set_checksum(0xffff)),
                    2 => mutx!(c, "icd.set_isd_asn", v.set_isd_asn(ia)),
                    3 => mutx!(c, "icd.set_ingress_interface_id", v.set_ingress_interface_id(u64::MAX)),
                    4 => mutx!(c, "icd.set_egress_interface_id", v.set_egress_interface_id(u64::MAX)),
                    5 => mutx!(c, "icd.offending_packet_mut.fill(0)", v.offending_packet_mut().fill(0)),
                    _ => None,
                },
                ScmpMessageViewMut::EchoRequest(v) => match k {
                    0 => mutx!(c, "ereq.set_code(ff)", v.set_code(0xff)),
                    1 => mutx!(c, "ereq.set_checksum", v.set_checksum(0xffff)),
                    2 => mutx!(c, "ereq.set_identifier", v.set_identifier(0xffff)),
                    3 => mutx!(c, "ereq.set_sequence_number", v.set_sequence_number(0xffff)),
                    4 => mutx!(c, "ereq.data_mut.fill(0)", v.data_mut().fill(0)),
                    _ => None,
                },
                ScmpMessageViewMut::EchoReply(v) => match k {
                    0 => mutx!(c, "erep.set_code(ff)", v.set_code(0xff)),
                    1 => mutx!(c, "erep.set_checksum", v.set_checksum(0xffff)),
                    2 => mutx!(c, "erep.set_identifier", v.set_identifier(0xffff)),
                    3 => mutx!(c, "erep.set_sequence_number", v.set_sequence_number(0xffff)),
                    4 => mutx!(c, "erep.data_mut.fill(0)", v.data_mut().fill(0)),
                    _ => None,
                },
                ScmpMessageViewMut::TracerouteRequest(v) => match k {
                    0 => mutx!(c, "treq.set_code(ff)", v.set_code(0xff)),
                    1 => mutx!(c, "treq.set_checksum", v.set_checksum(0xffff)),
                    2 => mutx!(c, "treq.set_identifier", v.set_identifier(0xffff)),
                    3 => mutx!(c, "treq.set_sequence_number", v.set_sequence_number(0xffff)),
                    4 => mutx!(c, "treq.set_isd_asn", v.set_isd_asn(ia)),
                    5 => mutx!(c, "treq.set_interface_id", v.set_interface_id(u64::MAX)),
                    _ => None,
                },
                ScmpMessageViewMut::TracerouteReply(v) => match k {
                    0 => mutx!(c, "trep.set_code(ff)", v.set_code(0xff)),
                    1 => mutx!(c, "trep.set_checksum", v.set_checksum(0xffff)),
                    2 => mutx!(c, "trep.set_identifier", v.set_identifier(0xffff)),
                    3 => mutx!(c, "trep.set_sequence_number", v.set_sequence_number(0xffff)),
                    4 => mutx!(c, "trep.set_isd_asn", v.set_isd_asn(ia)),
                    5 => mutx!(c, "trep.set_interface_id", v.set_interface_id(u64::MAX)),
                    _ => None,
                },
                ScmpMessageViewMut::Unknown(v) => match k {
                    0 => mutx!(c, "unk.set_code(ff)", v.set_code(0xff)),
                    1 => mutx!(c, "unk.set_checksum", v.set_checksum(0xffff)),
                    2 => mutx!(c, "unk.message_specific_data_mut.fill(0)", v.message_specific_data_mut().fill(0)),
                    // `set_message_type` is an `unsafe fn` since /repo commit e298f7a (it was safe and
                    // let callers read/write out of bounds); unsafe fns are outside C02's scope.
                    _ => None,
                },
            }
        }
    }
}

// ---------------------------------------------------------------- packets
fn acc_pkt_common<T>(c: &mut Ctx, p: &sciparse::packet::view::ScionPacketView<T>, full: bool) {
    accs!(c, "pkt.header", p.header().as_slice());
    accs!(c, "pkt.payload", p.payload());
    acc!(c, "pkt.src_scion_addr", p.src_scion_addr());
    acc!(c, "pkt.dst_scion_addr", p.dst_scion_addr());
    if full {
        acc_header(c, p.header());
    } else {
        acc_header_light(c, p.header());
    }
}
pub fn acc_udppkt(c: &mut Ctx, p: &ScionUdpPacketView, full: bool) {
    accs!(c, "udppkt.as_slice", p.as_slice());
    acc_pkt_common(c, p, full);
    accs!(c, "udppkt.as_raw", p.as_raw().as_slice());
    if c.at("udppkt.udp") {
        match vpc::catch(|| p.udp()) {
            Ok(u) => {
                c.range("udppkt.udp", u.as_slice().as_ptr() as usize, u.as_slice().len());
                acc_udp(c, u)
            }
            Err(e) => c.panicked("udppkt.udp", e),
        }
    }
    acc!(c, "udppkt.src_socket_addr", p.src_socket_addr());
    acc!(c, "udppkt.dst_socket_addr", p.dst_socket_addr());
    accd!(c, "udppkt.debug", format!("{p:?}").len());
    if full {
        accd!(c, "udppkt.to_boxed.into_raw", p.to_boxed().into_raw().as_slice().len());
        accd!(c, "udppkt.try_to_model", { use sciparse::core::convert::TryToModel; p.try_to_model() });
    }
}
pub fn acc_scmppkt(c: &mut Ctx, p: &ScionScmpPacketView, full: bool) {
    accs!(c, "scmppkt.as_slice", p.as_slice());
    acc_pkt_common(c, p, full);
    accs!(c, "scmppkt.as_raw", p.as_raw().as_slice());
    if c.at("scmppkt.scmp") {
        match vpc::catch(|| p.scmp()) {
            Ok(s) => {
                c.range("scmppkt.scmp", s.as_slice().as_ptr() as usize, s.as_slice().len());
                acc_scmp(c, s)
            }
            Err(e) => c.panicked("scmppkt.scmp", e),
        }
    }
    accd!(c, "scmppkt.debug", format!("{p:?}").len());
    if full {
        accd!(c, "scmppkt.to_boxed.into_raw", p.to_boxed().into_raw().as_slice().len());
        accd!(c, "scmppkt.try_to_model", { use sciparse::core::convert::TryToModel; p.try_to_model() });
    }
}
pub fn acc_raw(c: &mut Ctx, p: &ScionRawPacketView, full: bool) {
    accs!(c, "raw.as_slice", p.as_slice());
    acc_pkt_common(c, p, full);
    accd!(c, "raw.debug", format!("{p:?}").len());
    if c.at("raw.try_classify") {
        match vpc::catch(|| p.try_classify()) {
            Ok(Ok(cl)) => {
                acc!(c, "classified.dst_socket_addr", cl.dst_socket_addr());
                acc!(c, "classified.dst_port", cl.dst_port());
                acc!(c, "classified.is_*", (cl.is_udp(), cl.is_scmp(), cl.is_other()));
                accs!(c, "classified.as_raw", cl.as_raw().as_slice());
                accd!(c, "classified.debug", format!("{cl:?}").len());
            }
            Ok(Err(_)) => {}
            Err(e) => c.panicked("raw.try_classify", e),
        }
    }
    if c.at("raw.try_as_udp") {
        match vpc::catch(|| p.try_as_udp()) {
            Ok(Ok(u)) => {
                c.range("raw.try_as_udp", u.as_slice().as_ptr() as usize, u.as_slice().len());
                if full {
                    acc_udppkt(c, u, false)
                }
            }
            Ok(Err(_)) => {}
            Err(e) => c.panicked("raw.try_as_udp", e),
        }
    }
    if c.at("raw.try_as_scmp") {
        match vpc::catch(|| p.try_as_scmp()) {
            Ok(Ok(u)) => {
                c.range("raw.try_as_scmp", u.as_slice().as_ptr() as usize, u.as_slice().len());
                if full {
                    acc_scmppkt(c, u, false)
                }
            }
            Ok(Err(_)) => {}
            Err(e) => c.panicked("raw.try_as_scmp", e),
        }
    }
    if full {
        accd!(c, "raw.to_boxed.try_into_udp", p.to_boxed().try_into_udp().map(|b| b.as_slice().len()));
        accd!(c, "raw.to_boxed.try_into_scmp", p.to_boxed().try_into_scmp().map(|b| b.as_slice().len()));
        accd!(c, "raw.try_to_model", { use sciparse::core::convert::TryToModel; p.try_to_model() });
        accd!(c, "raw.copy_to_slice", { let mut b = vec![0u8; p.as_slice().len() + 3]; p.copy_to_slice(&mut b).map(|(v, r)| (v.as_slice().len(), r.len())) });
    }
}
pub fn accm_raw(c: &mut Ctx, p: &mut ScionRawPacketView) {
    accs!(c, "raw.header_mut", p.header_mut().as_slice());
    accm!(c, "raw.payload_mut", p.payload_mut());
    accs!(c, "raw.try_as_udp_mut", match p.try_as_udp_mut() { Ok(u) => u.as_slice(), Err(_) => &[] });
    accs!(c, "raw.try_as_scmp_mut", match p.try_as_scmp_mut() { Ok(u) => u.as_slice(), Err(_) => &[] });
    accm_header(c, p.header_mut());
}
pub const N_RAW_OWN: usize = 6;
pub fn mut_raw(c: &mut Ctx, p: &mut ScionRawPacketView, k: usize) -> Option<&'static str> {
    match k {
        0 => mutx!(c, "raw.payload_mut.fill(0)", p.payload_mut().fill(0)),
        1 => mutx!(c, "raw.payload_mut.fill(ff)", p.payload_mut().fill(0xff)),
        2 => mutx!(c, "raw.payload_mut[0]=130", if let Some(b) = p.payload_mut().first_mut() { *b = 130 }),
        3 => mutx!(c, "raw.payload_mut[0]=6", if let Some(b) = p.payload_mut().first_mut() { *b = 6 }),
        4 => mutx!(c, "raw.try_as_udp_mut.as_raw_mut.payload_mut.fill(0)", if let Ok(u) = p.try_as_udp_mut() { u.as_raw_mut().payload_mut().fill(0) }),
        5 => mutx!(c, "raw.try_as_scmp_mut.header_mut.set_next_header(udp)", if let Ok(u) = p.try_as_scmp_mut() { u.header_mut().set_next_header(ProtocolNumber::Udp) }),
        _ => mut_header(c, p.header_mut(), k - N_RAW_OWN),
    }
}
pub const N_UDPPKT_OWN: usize = 3;
pub fn mut_udppkt(c: &mut Ctx, p: &mut ScionUdpPacketView, k: usize) -> Option<&'static str> {
    match k {
        0 => mutx!(c, "udppkt.as_raw_mut.payload_mut.fill(0)", p.as_raw_mut().payload_mut().fill(0)),
        1 => mutx!(c, "udppkt.as_raw_mut.payload_mut.fill(ff)", p.as_raw_mut().payload_mut().fill(0xff)),
        2 => mutx!(c, "udppkt.as_raw_mut.payload_mut[4..6]=7", { let pl = p.as_raw_mut().payload_mut(); if pl.len() >= 6 { pl[4] = 0; pl[5] = 7; } }),
        _ => mut_header(c, p.header_mut(), k - N_UDPPKT_OWN),
    }
}
pub fn mut_scmppkt(c: &mut Ctx, p: &mut ScionScmpPacketView, k: usize) -> Option<&'static str> {
    mut_header(c, p.header_mut(), k)
}

/// Names of the functions sciparse's own exercisers (`util::fuzz::view_function_checks`) call,
/// as a list to diff against this catalogue by hand/grep: every one of them appears above, plus
/// (not in the crate's list): `expiration`, `segments`, `try_reverse`, `calculate_segment_index`,
/// `curr_egress_interface`, `expiry_timestamp`, `*_scmp_alert`, Debug/Display, `to_boxed`,
/// `copy_to_slice`, `try_as_*`, `try_into_*`, `src/dst_scion_addr`, `src/dst_socket_addr`,
/// `ScionDpPathViewExt::*`, `ScmpMessageExt::*`, `try_to_model`.
pub const CROSSCHECK: &str = "header.rs packet.rs path.rs payload/scmp.rs payload/udp.rs @ sciparse 0.6.0";
