mod c02;
mod c03;

fn main() {
    let args = vpc::Args::parse();
    match args.prop.as_str() {
        "C02" => c02::run(&args),
        "C03" => c03::run(&args),
        p => vpc::machinery_failure(&format!("property {p} is not served by this binary")),
    }
}
