//! C03 - wire codec is lossless, matches the SCION format, never truncates silently.
//!
//! Bounded exhaustive enumeration of packet MODELS (described independently of sciparse's model
//! types by `M`): every model is (a) turned into the crate's model and encoded by the real
//! encoder, (b) turned into bytes by the independent reference writers (`vpc::refwire`,
//! `vpc::refl4`). Oracles are listed at `check_model`. The reverse direction feeds reference
//! encodings (canonical and deliberately non-canonical) to the real decoder.
use std::sync::atomic::{AtomicU64, Ordering};

use sciparse::{
    address::host_addr::{ServiceAddr, WireHostAddr},
    core::{convert::TryFromView, encode::WireEncode},
    dataplane_path::{
        model::DpPath,
        onehop::model::OneHopPath,
        standard::{
            model::{HopField, InfoField, Segment, StandardPath},
            types::{HopFieldFlags, HopFieldMac, InfoFieldFlags},
        },
        types::PathType,
    },
    header::model::{AddressHeader, CommonHeader, ScionPacketHeader},
    identifier::isd_asn::IsdAsn,
    packet::model::{ScionPacket, ScionRawPacket, ScionScmpPacket, ScionUdpPacket},
    payload::{
        ProtocolNumber,
        scmp::{
            model::{
                ScmpDestinationUnreachable, ScmpEchoReply, ScmpEchoRequest, ScmpExternalInterfaceDown, ScmpInternalConnectivityDown, ScmpMessage,
                ScmpMessageUnknown, ScmpPacketTooBig, ScmpParameterProblem, ScmpTracerouteReply, ScmpTracerouteRequest,
            },
            types::{ScmpDestinationUnreachableCode, ScmpParameterProblemCode},
        },
        udp::model::UdpDatagram,
    },
};
use vpc::{
    json,
    rayon::prelude::*,
    refl4::{self, RScmp, RScmpBody, RUdp},
    refwire::{self, RHeader, RHop, RInfo, RPath, RStdPath},
};

// ------------------------------------------------------------------------------------------------
// Independent model description
// ------------------------------------------------------------------------------------------------

#[derive(Clone, Debug, PartialEq, Eq)]
pub enum HostK {
    V4([u8; 4]),
    V6([u8; 16]),
    Svc(u16),
    Unknown { id: u8, bytes: Vec<u8> },
}
#[derive(Clone, Debug, PartialEq, Eq)]
pub enum PathK {
    Empty,
    OneHop { second_set: bool },
    /// hops per segment (0..=3 segments), pointers
    Std { segs: Vec<u16>, curr_inf: u8, curr_hf: u8 },
    Unsupported { ty: u8, len: usize },
}
#[derive(Clone, Debug, PartialEq, Eq)]
pub enum ScmpK {
    DestUnreach { code: u8, quote: usize },
    PktTooBig { mtu: u16, quote: usize },
    ParamProblem { code: u8, pointer: u16, quote: usize },
    ExtIfDown { ia: u64, ifid: u16, quote: usize },
    IntConnDown { ia: u64, ingress: u16, egress: u16, quote: usize },
    EchoReq { id: u16, seq: u16, data: usize },
    EchoRep { id: u16, seq: u16, data: usize },
    TraceReq { id: u16, seq: u16 },
    TraceRep { id: u16, seq: u16, ia: u64, ifid: u16 },
    Unknown { ty: u8, code: u8, data: usize },
}
#[derive(Clone, Debug, PartialEq, Eq)]
pub enum PayK {
    Raw { next: u8, len: usize },
    Udp { sp: u16, dp: u16, len: usize },
    Scmp(ScmpK),
}
#[derive(Clone, Debug, PartialEq, Eq)]
pub struct M {
    pub tc: u8,
    pub flow: u32,
    pub dst_ia: u64,
    pub src_ia: u64,
    pub dst: HostK,
    pub src: HostK,
    pub path: PathK,
    pub pay: PayK,
}

fn fill(n: usize, salt: u8) -> Vec<u8> {
    (0..n).map(|i| ((i as u32).wrapping_mul(31).wrapping_add(salt as u32) % 251) as u8 + 1).collect()
}
fn info_vals(k: usize) -> (u8, u16, u32) {
    ((k as u8) & 3, 0x1000 + k as u16, 0x6000_0000 + 977 * k as u32)
}
fn hop_vals(j: usize) -> (u8, u8, u16, u16, [u8; 6]) {
    let b = j as u8;
    ((b & 3), 63u8.wrapping_add(b), 2 * j as u16 + 1, 2 * j as u16 + 2, [b, b ^ 0x5a, 0xc0 | (b & 0x3f), 1, 2, b.wrapping_mul(3)])
}

impl HostK {
    fn wire_len(&self) -> usize {
        match self {
            HostK::V4(_) | HostK::Svc(_) => 4,
            HostK::V6(_) => 16,
            HostK::Unknown { bytes, .. } => bytes.len(),
        }
    }
    fn kind(&self) -> String {
        match self {
            HostK::V4(_) => "v4".into(),
            HostK::V6(_) => "v6".into(),
            HostK::Svc(_) => "svc".into(),
            HostK::Unknown { id, bytes } => format!("unk{}x{}", id, bytes.len()),
        }
    }
    /// (DT/DL nibble, bytes) by the specification; None when the kind has no wire representation.
    fn to_ref(&self) -> Result<(u8, Vec<u8>), &'static str> {
        match self {
            HostK::V4(b) => Ok((0b0000, b.to_vec())),
            HostK::V6(b) => Ok((0b0011, b.to_vec())),
            HostK::Svc(s) => Ok((0b0100, vec![(s >> 8) as u8, *s as u8, 0, 0])),
            HostK::Unknown { id, bytes } => {
                if bytes.is_empty() || bytes.len() % 4 != 0 || bytes.len() > 16 {
                    return Err("unknown-addr-len-invalid");
                }
                if *id > 3 {
                    return Err("unknown-addr-id-truncated");
                }
                Ok(((id << 2) | (bytes.len() / 4 - 1) as u8, bytes.clone()))
            }
        }
    }
    fn to_subject(&self) -> WireHostAddr {
        match self {
            HostK::V4(b) => WireHostAddr::V4((*b).into()),
            HostK::V6(b) => WireHostAddr::V6((*b).into()),
            HostK::Svc(s) => WireHostAddr::Svc(ServiceAddr(*s)),
            HostK::Unknown { id, bytes } => {
                let mut av = tinyvec::ArrayVec::<[u8; 16]>::new();
                for b in bytes.iter().take(16) {
                    av.push(*b);
                }
                WireHostAddr::Unknown { id: *id, bytes: av }
            }
        }
    }
}

impl PathK {
    fn kind(&self) -> String {
        match self {
            PathK::Empty => "empty".into(),
            PathK::OneHop { .. } => "onehop".into(),
            PathK::Std { segs, .. } => format!("std{}", segs.len()),
            PathK::Unsupported { ty, .. } => format!("unsup{ty}"),
        }
    }
    fn to_ref(&self) -> Result<RPath, &'static str> {
        match self {
            PathK::Empty => Ok(RPath::Empty),
            PathK::OneHop { second_set } => {
                let (f, s, t) = info_vals(0);
                let h = |j: usize, zero: bool| {
                    let (fl, e, i, g, m) = hop_vals(j);
                    if zero { RHop { flags: 0, exp_time: 0, cons_ingress: 0, cons_egress: 0, mac: [0; 6] } } else { RHop { flags: fl, exp_time: e, cons_ingress: i, cons_egress: g, mac: m } }
                };
                Ok(RPath::OneHop { info: RInfo { flags: f, rsv: 0, seg_id: s, timestamp: t }, hop1: h(0, false), hop2: h(1, !second_set) })
            }
            PathK::Std { segs, curr_inf, curr_hf } => {
                if segs.is_empty() || segs.len() > 3 {
                    return Err("std-path-segment-count");
                }
                if segs.iter().any(|s| *s == 0) {
                    return Err("std-path-empty-segment");
                }
                if segs.iter().any(|s| *s > 63) {
                    return Err("seg-len-wraps-at-64");
                }
                if *curr_hf >= 64 {
                    return Err("curr-hf-wraps-at-64");
                }
                if *curr_inf >= 4 {
                    return Err("curr-inf-wraps-at-4");
                }
                let mut seg_len = [0u8; 3];
                for (k, s) in segs.iter().enumerate() {
                    seg_len[k] = *s as u8;
                }
                let total: usize = segs.iter().map(|s| *s as usize).sum();
                let infos = (0..segs.len()).map(|k| { let (f, s, t) = info_vals(k); RInfo { flags: f, rsv: 0, seg_id: s, timestamp: t } }).collect();
                let hops = (0..total).map(|j| { let (fl, e, i, g, m) = hop_vals(j); RHop { flags: fl, exp_time: e, cons_ingress: i, cons_egress: g, mac: m } }).collect();
                Ok(RPath::Std(RStdPath { curr_inf: *curr_inf, curr_hf: *curr_hf, rsv: 0, seg_len, infos, hops }))
            }
            PathK::Unsupported { ty, len } => {
                if *ty <= 2 {
                    return Err("unsupported-path-with-supported-type");
                }
                if len % 4 != 0 {
                    return Err("unsupported-path-len-not-multiple-of-4");
                }
                Ok(RPath::Other(*ty, fill(*len, 0x33)))
            }
        }
    }
    fn to_subject(&self) -> DpPath {
        let inf = |k: usize| { let (f, s, t) = info_vals(k); InfoField { flags: InfoFieldFlags::from_bits_retain(f), segment_id: s, timestamp: t } };
        let hop = |j: usize| { let (fl, e, i, g, m) = hop_vals(j); HopField { flags: HopFieldFlags::from_bits_retain(fl), expiration_units: e, cons_ingress: i, cons_egress: g, mac: HopFieldMac(m) } };
        match self {
            PathK::Empty => DpPath::Empty,
            PathK::OneHop { second_set } => DpPath::OneHop(OneHopPath { info: inf(0), hops: [hop(0), if *second_set { hop(1) } else { HopField::empty() }] }),
            PathK::Std { segs, curr_inf, curr_hf } => {
                let mut segments = tinyvec::ArrayVec::<[Segment; 3]>::new();
                let mut j = 0usize;
                for (k, s) in segs.iter().enumerate().take(3) {
                    let mut hf = tinyvec::TinyVec::<[HopField; 12]>::new();
                    for _ in 0..*s {
                        hf.push(hop(j));
                        j += 1;
                    }
                    segments.push(Segment { info_field: inf(k), hop_fields: hf });
                }
                DpPath::Standard(StandardPath { current_info_field: *curr_inf, current_hop_field: *curr_hf, segments })
            }
            PathK::Unsupported { ty, len } => DpPath::Unsupported { path_type: PathType::from(*ty), data: fill(*len, 0x33) },
        }
    }
}

impl ScmpK {
    fn kind(&self) -> &'static str {
        match self {
            ScmpK::DestUnreach { .. } => "scmp-dest-unreach",
            ScmpK::PktTooBig { .. } => "scmp-pkt-too-big",
            ScmpK::ParamProblem { .. } => "scmp-param-problem",
            ScmpK::ExtIfDown { .. } => "scmp-ext-if-down",
            ScmpK::IntConnDown { .. } => "scmp-int-conn-down",
            ScmpK::EchoReq { .. } => "scmp-echo-req",
            ScmpK::EchoRep { .. } => "scmp-echo-rep",
            ScmpK::TraceReq { .. } => "scmp-trace-req",
            ScmpK::TraceRep { .. } => "scmp-trace-rep",
            ScmpK::Unknown { .. } => "scmp-unknown",
        }
    }
    /// Reference message behind a header of `hl` bytes (checksum 0).
    fn to_ref(&self, hl: usize) -> Result<RScmp, &'static str> {
        let q = |ty: u8, n: usize| { let mut v = fill(n, 0x51); v.truncate(refl4::scmp_max_quote(ty, hl)); v };
        let (ty, code, body) = match self {
            ScmpK::DestUnreach { code, quote } => (1, *code, RScmpBody::DestUnreach { unused: 0, quote: q(1, *quote) }),
            ScmpK::PktTooBig { mtu, quote } => (2, 0, RScmpBody::PacketTooBig { rsv: 0, mtu: *mtu, quote: q(2, *quote) }),
            ScmpK::ParamProblem { code, pointer, quote } => (4, *code, RScmpBody::ParamProblem { rsv: 0, pointer: *pointer, quote: q(4, *quote) }),
            ScmpK::ExtIfDown { ia, ifid, quote } => (5, 0, RScmpBody::ExtIfDown { ia: *ia, ifid: *ifid as u64, quote: q(5, *quote) }),
            ScmpK::IntConnDown { ia, ingress, egress, quote } => (6, 0, RScmpBody::IntConnDown { ia: *ia, ingress: *ingress as u64, egress: *egress as u64, quote: q(6, *quote) }),
            ScmpK::EchoReq { id, seq, data } => (128, 0, RScmpBody::Echo { id: *id, seq: *seq, data: fill(*data, 0x52) }),
            ScmpK::EchoRep { id, seq, data } => (129, 0, RScmpBody::Echo { id: *id, seq: *seq, data: fill(*data, 0x52) }),
            ScmpK::TraceReq { id, seq } => (130, 0, RScmpBody::Traceroute { id: *id, seq: *seq, ia: 0, ifid: 0 }),
            ScmpK::TraceRep { id, seq, ia, ifid } => (131, 0, RScmpBody::Traceroute { id: *id, seq: *seq, ia: *ia, ifid: *ifid as u64 }),
            ScmpK::Unknown { ty, code, data } => {
                if refl4::scmp_fixed_len(*ty) != 4 {
                    return Err("scmp-unknown-with-known-type");
                }
                (*ty, *code, RScmpBody::Other { rest: fill(*data, 0x53) })
            }
        };
        Ok(RScmp { ty, code, checksum: 0, body })
    }
    fn to_subject(&self) -> ScmpMessage {
        match self {
            ScmpK::DestUnreach { code, quote } => ScmpDestinationUnreachable::new(ScmpDestinationUnreachableCode::from(*code), fill(*quote, 0x51)).into(),
            ScmpK::PktTooBig { mtu, quote } => ScmpPacketTooBig::new(*mtu, fill(*quote, 0x51)).into(),
            ScmpK::ParamProblem { code, pointer, quote } => ScmpParameterProblem::new(ScmpParameterProblemCode::from(*code), *pointer, fill(*quote, 0x51)).into(),
            ScmpK::ExtIfDown { ia, ifid, quote } => ScmpExternalInterfaceDown::new(IsdAsn::from_u64(*ia), *ifid, fill(*quote, 0x51)).into(),
            ScmpK::IntConnDown { ia, ingress, egress, quote } => ScmpInternalConnectivityDown::new(IsdAsn::from_u64(*ia), *ingress, *egress, fill(*quote, 0x51)).into(),
            ScmpK::EchoReq { id, seq, data } => ScmpEchoRequest { identifier: *id, sequence_number: *seq, data: fill(*data, 0x52) }.into(),
            ScmpK::EchoRep { id, seq, data } => ScmpEchoReply { identifier: *id, sequence_number: *seq, data: fill(*data, 0x52) }.into(),
            ScmpK::TraceReq { id, seq } => ScmpTracerouteRequest { identifier: *id, sequence_number: *seq }.into(),
            ScmpK::TraceRep { id, seq, ia, ifid } => ScmpTracerouteReply { identifier: *id, sequence_number: *seq, isd_asn: IsdAsn::from_u64(*ia), interface_id: *ifid }.into(),
            ScmpK::Unknown { ty, code, data } => ScmpMessageUnknown::new(*ty, *code, fill(*data, 0x53)).into(),
        }
    }
}

impl PayK {
    fn kind(&self) -> &'static str {
        match self {
            PayK::Raw { .. } => "raw",
            PayK::Udp { .. } => "udp",
            PayK::Scmp(s) => s.kind(),
        }
    }
    fn next_hdr(&self) -> u8 {
        match self {
            PayK::Raw { next, .. } => *next,
            PayK::Udp { .. } => refwire::PROTO_UDP,
            PayK::Scmp(_) => refwire::PROTO_SCMP,
        }
    }
}

/// What the reference says the model looks like on the wire.
pub struct Expected {
    pub bytes: Vec<u8>,
    pub hl: usize,
    /// offset of the L4 checksum field, if the payload has one
    pub csum_at: Option<usize>,
}

impl M {
    fn header_ref(&self) -> Result<RHeader, &'static str> {
        if self.flow > 0xF_FFFF {
            return Err("flow-id-truncated");
        }
        let (dtl, dh) = self.dst.to_ref()?;
        let (stl, sh) = self.src.to_ref()?;
        let path = self.path.to_ref()?;
        let h = RHeader { version: 0, traffic_class: self.tc, flow_id: self.flow, next_hdr: self.pay.next_hdr(), hdr_len: 0, payload_len: 0, path_type: path.path_type(), dst_tl: dtl, src_tl: stl, rsv: 0, dst_ia: self.dst_ia, src_ia: self.src_ia, dst_host: dh, src_host: sh, path };
        if h.natural_len() > 1020 {
            return Err("hdr-len-wraps-at-1024");
        }
        Ok(h.with_natural_hdr_len())
    }
    /// Reference encoding, or the reason the model has no wire representation.
    pub fn expected(&self) -> Result<Expected, &'static str> {
        let mut h = self.header_ref()?;
        let hl = h.natural_len();
        let (mut l4, csum_off): (Vec<u8>, Option<usize>) = match &self.pay {
            PayK::Raw { len, .. } => (fill(*len, 0x41), None),
            PayK::Udp { sp, dp, len } => {
                if 8 + *len > 65535 {
                    return Err("udp-length-wraps-at-65536");
                }
                (RUdp { src_port: *sp, dst_port: *dp, length: (8 + *len) as u16, checksum: 0, data: fill(*len, 0x42) }.to_bytes_raw(), Some(6))
            }
            PayK::Scmp(s) => (s.to_ref(hl)?.to_bytes(), Some(2)),
        };
        if l4.len() > 65535 {
            return Err("payload-len-wraps-at-65536");
        }
        h.payload_len = l4.len() as u16;
        if let Some(o) = csum_off {
            let c = refwire::checksum(h.dst_ia, h.src_ia, &h.dst_host, &h.src_host, h.next_hdr, &l4);
            l4[o..o + 2].copy_from_slice(&c.to_be_bytes());
        }
        let mut bytes = h.to_bytes_raw();
        bytes.extend_from_slice(&l4);
        Ok(Expected { bytes, hl, csum_at: csum_off.map(|o| hl + o) })
    }
    fn subject_header(&self) -> ScionPacketHeader {
        ScionPacketHeader {
            common: CommonHeader { traffic_class: self.tc, flow_id: self.flow, next_header: ProtocolNumber::from(self.pay.next_hdr()) },
            address: AddressHeader { dst_ia: IsdAsn::from_u64(self.dst_ia), src_ia: IsdAsn::from_u64(self.src_ia), dst_host_addr: self.dst.to_subject(), src_host_addr: self.src.to_subject() },
            path: self.path.to_subject(),
        }
    }
    pub fn to_subject(&self) -> Subject {
        let header = self.subject_header();
        match &self.pay {
            PayK::Raw { len, .. } => Subject::Raw(ScionPacket { header, payload: fill(*len, 0x41) }),
            PayK::Udp { sp, dp, len } => Subject::Udp(ScionPacket { header, payload: UdpDatagram::new(*sp, *dp, fill(*len, 0x42)) }),
            PayK::Scmp(s) => Subject::Scmp(ScionPacket { header, payload: s.to_subject() }),
        }
    }
    fn class_key(&self) -> String {
        format!("{}|{}|{}|{}", self.dst.kind(), self.src.kind(), self.path.kind(), self.pay.kind())
    }
}

#[derive(Clone, Debug, PartialEq, Eq)]
pub enum Subject {
    Raw(ScionRawPacket),
    Udp(ScionUdpPacket),
    Scmp(ScionScmpPacket),
}
impl Subject {
    fn required_size(&self) -> usize {
        match self {
            Subject::Raw(p) => p.required_size(),
            Subject::Udp(p) => p.required_size(),
            Subject::Scmp(p) => p.required_size(),
        }
    }
    fn try_encode(&self, buf: &mut [u8]) -> Result<usize, String> {
        match self {
            Subject::Raw(p) => p.try_encode(buf),
            Subject::Udp(p) => p.try_encode(buf),
            Subject::Scmp(p) => p.try_encode(buf),
        }
        .map_err(|e| e.to_string())
    }
    fn try_encode_to_vec(&self) -> Result<Vec<u8>, String> {
        match self {
            Subject::Raw(p) => p.try_encode_to_vec(),
            Subject::Udp(p) => p.try_encode_to_vec(),
            Subject::Scmp(p) => p.try_encode_to_vec(),
        }
        .map_err(|e| e.to_string())
    }
    /// Decode with the decoder of the same packet type. Returns (model, trailing bytes).
    fn decode_like(&self, b: &[u8]) -> Result<(Subject, usize), String> {
        match self {
            Subject::Raw(_) => ScionRawPacket::try_from_slice(b).map(|(m, r)| (Subject::Raw(m), r.len())),
            Subject::Udp(_) => ScionUdpPacket::try_from_slice(b).map(|(m, r)| (Subject::Udp(m), r.len())),
            Subject::Scmp(_) => ScionScmpPacket::try_from_slice(b).map(|(m, r)| (Subject::Scmp(m), r.len())),
        }
        .map_err(|e| e.to_string())
    }
    /// Which component differs (for a narrow class).
    fn diff(&self, o: &Subject) -> &'static str {
        let (h1, h2) = (self.header(), o.header());
        if h1.common != h2.common {
            "common-header"
        } else if h1.address.dst_host_addr != h2.address.dst_host_addr {
            "dst-host"
        } else if h1.address.src_host_addr != h2.address.src_host_addr {
            "src-host"
        } else if h1.address != h2.address {
            "isd-as"
        } else if h1.path != h2.path {
            "path"
        } else {
            "payload"
        }
    }
    fn header(&self) -> &ScionPacketHeader {
        match self {
            Subject::Raw(p) => &p.header,
            Subject::Udp(p) => &p.header,
            Subject::Scmp(p) => &p.header,
        }
    }
}

// ------------------------------------------------------------------------------------------------
// Oracles for one model
// ------------------------------------------------------------------------------------------------

/// An 8-aligned allocation from which `[off .. off+n]` is handed to the encoder.
struct Aligned {
    words: Vec<u64>,
}
impl Aligned {
    fn new(n: usize, fillb: u8) -> Aligned {
        let w = u64::from_ne_bytes([fillb; 8]);
        Aligned { words: vec![w; (n + 16) / 8 + 1] }
    }
    fn slice(&mut self, off: usize, n: usize) -> &mut [u8] {
        let p = self.words.as_mut_ptr() as *mut u8;
        // SAFETY: words has at least n+16 bytes
        unsafe { std::slice::from_raw_parts_mut(p.add(off), n) }
    }
}

/// Name of the field that contains byte offset `o` of an encoding of `m` (reference layout).
fn field_at(m: &M, hl: usize, o: usize) -> String {
    let dl = m.dst.wire_len();
    let sl = m.src.wire_len();
    let p0 = 28 + dl + sl;
    if o < 4 {
        return "ver-tc-flow".into();
    }
    match o {
        4 => return "next_hdr".into(),
        5 => return "hdr_len".into(),
        6 | 7 => return "payload_len".into(),
        8 => return "path_type".into(),
        9 => return "addr_nibbles".into(),
        10 | 11 => return "common_rsv".into(),
        _ => {}
    }
    if o < 20 {
        return "dst_ia".into();
    }
    if o < 28 {
        return "src_ia".into();
    }
    if o < 28 + dl {
        return "dst_host".into();
    }
    if o < p0 {
        return "src_host".into();
    }
    if o < hl {
        let r = o - p0;
        return match &m.path {
            PathK::Std { segs, .. } => {
                let ni = segs.len();
                if r == 0 {
                    "pathmeta.curr".into()
                } else if r == 1 {
                    "pathmeta.rsv".into() // RSV(6) + top 2 bits of Seg0Len
                } else if r < 4 {
                    "pathmeta.seglen".into()
                } else if r < 4 + 8 * ni {
                    format!("info.{}", ["flags", "rsv", "segid", "segid", "ts", "ts", "ts", "ts"][(r - 4) % 8])
                } else {
                    format!("hop.{}", ["flags", "exp", "in", "in", "eg", "eg", "mac", "mac", "mac", "mac", "mac", "mac"][(r - 4 - 8 * ni) % 12])
                }
            }
            PathK::OneHop { .. } => {
                if r < 8 {
                    format!("onehop.info.{}", ["flags", "rsv", "segid", "segid", "ts", "ts", "ts", "ts"][r])
                } else {
                    format!("onehop.hop{}", (r - 8) / 12 + 1)
                }
            }
            _ => "path-bytes".into(),
        };
    }
    let r = o - hl;
    match &m.pay {
        PayK::Raw { .. } => "raw-payload".into(),
        PayK::Udp { .. } => ["udp.sport", "udp.sport", "udp.dport", "udp.dport", "udp.length", "udp.length", "udp.checksum", "udp.checksum"].get(r).map(|s| s.to_string()).unwrap_or("udp.data".into()),
        PayK::Scmp(s) => {
            let fixed = s.to_ref(hl).map(|x| refl4::scmp_fixed_len(x.ty)).unwrap_or(4);
            let k = s.kind();
            match r {
                0 => format!("{k}.type"),
                1 => format!("{k}.code"),
                2 | 3 => format!("{k}.checksum"),
                _ if r < fixed => format!("{k}.info-block+{}", r - 4),
                _ => format!("{k}.tail+{}", (r - fixed).min(8)),
            }
        }
    }
}

/// Per-class tally of one chunk / of the whole run: witness count and the witness with the smallest
/// (space number, index) - so the reported witness does not depend on thread scheduling.
type Tally = std::collections::BTreeMap<String, (u64, (usize, u64), String, vpc::Value)>;

struct Case<'a> {
    run: &'a vpc::Run,
    space: &'a str,
    space_no: usize,
    index: u64,
    m: &'a M,
    tally: &'a std::cell::RefCell<Tally>,
}
static TALLY: std::sync::Mutex<Tally> = std::sync::Mutex::new(Tally::new());
impl Case<'_> {
    /// Report a witness. Witnesses are tallied per chunk (the detail is only built for the first of
    /// a class in a chunk) and handed to `Run::violation` at the end, so that a defect hit by
    /// millions of cases neither serialises the enumeration nor makes the output racy.
    fn viol(&self, class: &str, what: &str, extra: impl FnOnce() -> vpc::Value) {
        let _ = self.run;
        let mut t = self.tally.borrow_mut();
        if let Some(e) = t.get_mut(class) {
            e.0 += 1;
            return;
        }
        let w = json!({"space": self.space, "index": self.index, "model": format!("{:?}", self.m), "detail": extra()});
        t.insert(class.to_string(), (1, (self.space_no, self.index), what.to_string(), w));
    }
}
fn merge_tally(local: Tally) {
    let mut g = TALLY.lock().unwrap();
    for (k, v) in local {
        match g.get_mut(&k) {
            None => {
                g.insert(k, v);
            }
            Some(e) => {
                e.0 += v.0;
                if v.1 < e.1 {
                    e.1 = v.1;
                    e.2 = v.2;
                    e.3 = v.3;
                }
            }
        }
    }
}
/// Hand everything to `Run` in class order.
fn flush_tally(run: &vpc::Run) -> std::collections::BTreeMap<String, u64> {
    let g = std::mem::take(&mut *TALLY.lock().unwrap());
    let mut counts = std::collections::BTreeMap::new();
    for (class, (n, _, what, w)) in g {
        // one call per class (Run keeps the smallest witness it is offered); the number of
        // witnesses goes into the evidence as `witnesses_per_violation_class`
        let mut w = w;
        w["witnesses_this_run"] = json!(n);
        run.violation(&class, &format!("{what} [{n} witnesses this run]"), w);
        counts.insert(class, n);
    }
    counts
}

fn hexcap(b: &[u8]) -> String {
    if b.len() <= 160 { vpc::hex(b) } else { format!("{}..(+{} bytes)", vpc::hex(&b[..160]), b.len() - 160) }
}

/// Diagnose a checksum that does not verify: does it equal the sum over the pseudo header alone?
fn checksum_class(pkt: &[u8], hl: usize, proto: &str) -> String {
    if let Ok((h, _)) = RHeader::parse(pkt) {
        let l4 = &pkt[hl..];
        let off = if h.next_hdr == refwire::PROTO_UDP { 6 } else { 2 };
        if l4.len() >= off + 2 {
            let written = u16::from_be_bytes([l4[off], l4[off + 1]]);
            // pseudo header only: same length word, no upper-layer bytes
            let mut sum: u64 = 0;
            let mut add = |bytes: &[u8]| {
                for c in bytes.chunks(2) {
                    sum += if c.len() == 2 { u16::from_be_bytes([c[0], c[1]]) as u64 } else { (c[0] as u64) << 8 };
                }
            };
            add(&h.dst_ia.to_be_bytes());
            add(&h.src_ia.to_be_bytes());
            add(&h.dst_host);
            add(&h.src_host);
            add(&(l4.len() as u32).to_be_bytes());
            add(&[0, 0, 0, h.next_hdr]);
            while sum >> 16 != 0 {
                sum = (sum & 0xffff) + (sum >> 16);
            }
            if written == !(sum as u16) {
                return format!("{proto}-checksum-omits-l4-bytes");
            }
        }
    }
    format!("{proto}-checksum-does-not-verify")
}

/// All oracles for one model. Returns the outcome class.
fn check_model(c: &Case) -> String {
    let m = c.m;
    let subj = m.to_subject();
    let expected = m.expected();
    let pk = m.pay.kind();

    // (1) announced size, encode at (offset 0, zero fill), (offset 1, zero fill), (offset 1, 0xFF fill), and to_vec
    let req = match vpc::catch(|| subj.required_size()) {
        Ok(r) => r,
        Err(p) => {
            c.viol(&format!("panic@{}", vpc::last_panic_location()), &format!("required_size panicked: {p}"), || json!({}));
            return "panic".into();
        }
    };
    let cap = req.max(expected.as_ref().map(|e| e.bytes.len()).unwrap_or(0)).min(1 << 20) + 8;
    let mut enc: Vec<Result<Vec<u8>, String>> = vec![];
    // (0xFFFF in the checksum field counts as zero in one's complement arithmetic, so a second stale pattern is used too)
    for (off, fb) in [(0usize, 0u8), (1, 0), (1, 0xFF), (1, 0xA5)] {
        let mut a = Aligned::new(cap, fb);
        let r = vpc::catch(|| subj.try_encode(a.slice(off, cap)));
        match r {
            Err(p) => {
                c.viol(&format!("panic@{}", vpc::last_panic_location()), &format!("try_encode panicked: {p}"), || json!({"offset": off}));
                return "panic".into();
            }
            Ok(Ok(n)) => {
                if n > cap {
                    c.viol("encoder-reports-more-than-buffer", "bytes written > buffer", || json!({"n": n, "cap": cap}));
                    return "bad-size".into();
                }
                // bytes behind the announced end must be untouched
                let s = a.slice(off, cap);
                if s[n..].iter().any(|b| *b != fb) {
                    c.viol(&format!("encoder-writes-past-announced-size:{pk}"), "bytes behind the returned size were modified", || json!({"n": n}));
                }
                enc.push(Ok(s[..n].to_vec()));
            }
            Ok(Err(e)) => enc.push(Err(e)),
        }
    }
    let tovec = match vpc::catch(|| subj.try_encode_to_vec()) {
        Ok(r) => r,
        Err(p) => {
            c.viol(&format!("panic@{}", vpc::last_panic_location()), &format!("try_encode_to_vec panicked: {p}"), || json!({}));
            return "panic".into();
        }
    };
    let hl_subject = vpc::catch(|| subj.header().required_size()).unwrap_or(0);
    let accepted = enc[0].is_ok();
    if enc.iter().any(|e| e.is_ok() != accepted) || tovec.is_ok() != accepted {
        c.viol("encoder-accept-depends-on-buffer", "try_encode / try_encode_to_vec disagree on acceptance", || json!({}));
    }
    if !accepted {
        let reason = enc[0].as_ref().err().cloned().unwrap_or_default();
        return match &expected {
            // rejecting a representable model is allowed by the property (it speaks about accepted models)
            Ok(_) => format!("rejected-representable:{reason}"),
            Err(why) => format!("rejected-unrepresentable:{why}"),
        };
    }
    let a = enc[0].as_ref().unwrap();
    let mut outcome = String::from("ok");
    let mut lengths_truthful = true;

    if a.len() != req {
        c.viol(&format!("written-size-differs-from-required-size:{pk}"), "try_encode returned a size different from required_size", || json!({"required_size": req, "written": a.len()}));
    }
    if let Ok(v) = &tovec {
        if v != a {
            let o = first_diff(v, a);
            c.viol(&format!("to-vec-differs-from-try-encode@{}", field_at(m, hl_subject, o)), "try_encode_to_vec and try_encode produce different bytes", || json!({"offset": o}));
        }
    }
    if let Ok(b) = &enc[1] {
        if b != a {
            let o = first_diff(b, a);
            c.viol(&format!("alignment-dependent-encoding@{}", field_at(m, hl_subject, o)), "encoding at offset 1 differs from encoding at offset 0", || json!({"offset": o, "at0": hexcap(a), "at1": hexcap(b)}));
        }
        for stale in [&enc[2], &enc[3]] {
            if let Ok(cff) = stale {
                if cff != b {
                    let o = first_diff(cff, b);
                    c.viol(&format!("unwritten-bytes@{}", field_at(m, hl_subject, o)), "encoder leaves bytes of its announced range unwritten or lets stale buffer content influence the encoding (stale content reaches the wire)", || json!({"offset": o, "zero_prefilled": hexcap(b), "stale_prefilled": hexcap(cff)}));
                }
            }
        }
    }

    // (2) the independent reader
    let rparse = RHeader::parse(a);
    match &expected {
        Err(why) => {
            // Not representable and yet encoded: show what an independent reader sees.
            let seen = match &rparse {
                Ok((h, hl)) => json!({"hdr_len_bytes": hl, "payload_len": h.payload_len, "real_l4_len": a.len().saturating_sub(*hl), "addr_nibbles": [h.dst_tl, h.src_tl], "flow": h.flow_id,
                    "curr_hf": if let RPath::Std(p) = &h.path { json!(p.curr_hf) } else { json!(null) },
                    "udp_length": if h.next_hdr == 17 && a.len() >= hl + 6 { json!(u16::from_be_bytes([a[hl + 4], a[hl + 5]])) } else { json!(null) }}),
                Err(e) => json!({"refwire_error": e}),
            };
            c.viol(why, &format!("model is not representable on the wire ({why}) but the encoder accepted it"), || json!({"refwire_sees": seen, "bytes": hexcap(a)}));
            return format!("accepted-unrepresentable:{why}");
        }
        Ok(exp) => {
            // (2a) length and bytes against the reference writer (checksum field compared separately)
            if a.len() != exp.bytes.len() {
                c.viol(&format!("encoded-length-differs:{pk}"), "encoder output length differs from the reference encoding", || json!({"subject": a.len(), "reference": exp.bytes.len(), "subject_bytes": hexcap(a), "reference_bytes": hexcap(&exp.bytes)}));
                outcome = "length-differs".into();
            } else {
                let mut am = a.clone();
                let mut em = exp.bytes.clone();
                if let Some(o) = exp.csum_at {
                    am[o] = 0; am[o + 1] = 0; em[o] = 0; em[o + 1] = 0;
                }
                if am != em {
                    let o = first_diff(&am, &em);
                    c.viol(&format!("encoded-bytes-differ@{}", field_at(m, exp.hl, o)), "encoder output differs from the reference encoding of the same field values", || json!({"offset": o, "subject": hexcap(a), "reference": hexcap(&exp.bytes)}));
                    outcome = "bytes-differ".into();
                }
            }
            // (2b) truthful length fields and zero reserved bits as seen by the independent reader
            match &rparse {
                Err(e) => {
                    c.viol(&format!("refwire-cannot-parse:{e}"), "the independent reader rejects the encoder's output", || json!({"bytes": hexcap(a)}));
                }
                Ok((h, hl)) => {
                    if *hl != exp.hl {
                        lengths_truthful = false;
                        c.viol("hdr-len-untruthful", "HdrLen does not equal the real header size", || json!({"hdr_len_field_bytes": hl, "real": exp.hl}));
                    }
                    if h.payload_len as usize != a.len() - hl.min(&a.len()) {
                        lengths_truthful = false;
                        c.viol(if a.len() - hl.min(&a.len()) > 65535 { "payload-len-wraps-at-65536" } else { "payload-len-untruthful" }, "PayloadLen does not equal the bytes behind the header", || json!({"field": h.payload_len, "real": a.len() - hl}));
                    }
                    if h.rsv != 0 {
                        c.viol("reserved-bits-nonzero@common_rsv", "common header RSV not zero", || json!({}));
                    }
                    match &h.path {
                        RPath::Std(p) => {
                            if p.rsv != 0 || p.infos.iter().any(|i| i.rsv != 0) {
                                c.viol("reserved-bits-nonzero@path", "path meta / info field RSV not zero", || json!({}));
                            }
                        }
                        RPath::OneHop { info, .. } => {
                            if info.rsv != 0 {
                                c.viol("reserved-bits-nonzero@path", "one-hop info field RSV not zero", || json!({}));
                            }
                        }
                        _ => {}
                    }
                    let l4 = &a[(*hl).min(a.len())..];
                    match &m.pay {
                        PayK::Udp { .. } => match RUdp::parse(l4) {
                            Ok(_) => {}
                            Err(e) => c.viol(&if l4.len() > 65535 { "udp-length-wraps-at-65536".to_string() } else { format!("udp-length-untruthful:{e}") }, "UDP Length does not equal the datagram size", || json!({"l4_len": l4.len(), "udp_hdr": hexcap(&l4[..l4.len().min(8)])})),
                        },
                        PayK::Scmp(_) => match RScmp::parse(l4) {
                            Ok(s) => {
                                if s.reserved_bits() != 0 {
                                    c.viol(&format!("reserved-bits-nonzero@{pk}"), "SCMP reserved/unused bits not zero", || json!({}));
                                }
                            }
                            Err(e) => c.viol(&format!("refl4-cannot-parse:{pk}:{e}"), "the independent SCMP reader rejects the encoder's output", || json!({"l4": hexcap(l4)})),
                        },
                        PayK::Raw { .. } => {}
                    }
                    // (2c) checksum over pseudo header AND upper-layer bytes
                    if exp.csum_at.is_some() {
                        match refwire::verify_l4_checksum(a) {
                            Ok(true) => {}
                            Ok(false) => {
                                let proto = if matches!(m.pay, PayK::Udp { .. }) { "udp" } else { "scmp" };
                                let o = exp.csum_at.unwrap();
                                c.viol(&checksum_class(a, *hl, proto), "L4 checksum does not verify over pseudo header + upper-layer bytes", || json!({"written": format!("{:02x}{:02x}", a[o.min(a.len() - 2)], a[(o + 1).min(a.len() - 1)]), "expected": if a.len() == exp.bytes.len() { format!("{:02x}{:02x}", exp.bytes[o], exp.bytes[o + 1]) } else { "n/a".into() }, "bytes": hexcap(a)}));
                                if outcome == "ok" {
                                    outcome = "checksum-fails".into();
                                }
                            }
                            Err(e) => c.viol(&format!("checksum-not-verifiable:{e}"), "reference cannot verify the checksum", || json!({})),
                        }
                    }
                }
            }
        }
    }

    if !lengths_truthful {
        // the decoder cannot delimit the packet; everything behind this point would be a consequence
        return "length-field-untruthful".into();
    }
    // (3) decode(encode(m)) == m, at both alignments; aliases of the same wire value are allowed
    let mut dec_models = vec![];
    for (off, bytes) in [(0usize, a), (1usize, enc[1].as_ref().unwrap_or(a))] {
        let mut al = Aligned::new(bytes.len() + 8, 0);
        al.slice(off, bytes.len()).copy_from_slice(bytes);
        let n = bytes.len();
        let d = vpc::catch(|| subj.decode_like(al.slice(off, n)));
        match d {
            Err(p) => {
                c.viol(&format!("panic@{}", vpc::last_panic_location()), &format!("decoder panicked on the encoder's output: {p}"), || json!({"bytes": hexcap(bytes)}));
                return "panic".into();
            }
            Ok(Err(e)) => {
                c.viol(&format!("decoder-rejects-own-encoding:{pk}"), &format!("decoder rejects what the encoder produced: {e}"), || json!({"bytes": hexcap(bytes)}));
                return "decode-rejects".into();
            }
            Ok(Ok((dm, rest))) => {
                if rest != 0 {
                    c.viol(&format!("decoder-leaves-trailing-bytes:{pk}"), "decoder does not consume the whole encoding", || json!({"rest": rest}));
                }
                dec_models.push(dm);
            }
        }
    }
    if dec_models[0] != dec_models[1] {
        c.viol("alignment-dependent-decoding", "decoding at offset 1 yields a different model", || json!({}));
    }
    let dm = &dec_models[0];
    if *dm != subj {
        // alias of the same wire value? then re-encoding the decoded model gives the same bytes
        let re = vpc::catch(|| dm.try_encode_to_vec());
        let same = matches!(&re, Ok(Ok(v)) if v == a);
        let mut part = subj.diff(dm);
        if let (false, Ok(Ok(v))) = (same, &re) {
            // which field of the re-encoding differs decides the attribution
            if v.len() == a.len() {
                match field_at(m, hl_subject, first_diff(v, a)).as_str() {
                    "dst_host" => part = "dst-host",
                    "src_host" => part = "src-host",
                    _ => {}
                }
            }
        }
        let part_n = if part.ends_with("-host") { "host" } else { part };
        if same {
            if expected.is_ok() && outcome == "ok" {
                outcome = format!("ok-alias:{part}");
            }
        } else {
            c.viol(&format!("roundtrip-model-differs@{part_n}:{}", match part { "payload" => pk.to_string(), "path" => m.path.kind(), "dst-host" => m.dst.kind(), "src-host" => m.src.kind(), _ => "hdr".to_string() }), "decode(encode(m)) != m and the decoded model does not even re-encode to the same bytes", || json!({"decoded": format!("{:?}", dm).chars().take(600).collect::<String>(), "bytes": hexcap(a)}));
            if outcome == "ok" {
                outcome = "roundtrip-differs".into();
            }
        }
    }
    outcome
}

fn first_diff(a: &[u8], b: &[u8]) -> usize {
    a.iter().zip(b.iter()).position(|(x, y)| x != y).unwrap_or(a.len().min(b.len()))
}

// ------------------------------------------------------------------------------------------------
// Reverse direction: reference encodings into the real decoder
// ------------------------------------------------------------------------------------------------

#[derive(Clone, Debug)]
enum Tweak {
    Canonical,
    /// canonical per the specification but outside what the crate's own model can express
    CanonWideIfId(u64),
    CommonRsv,
    MetaRsv,
    InfoRsv,
    ScmpRsv,
    SvcPadding,
    TrailingByte,
    PayloadLenPlus1,
    PayloadLenMinus1,
    UdpLenPlus1,
    UdpLenMinus1,
    HdrLenPlus1,
    TracePlaceholder,
}
const TWEAKS: &[Tweak] = &[
    Tweak::Canonical,
    Tweak::CanonWideIfId(0x1_0000),
    Tweak::CanonWideIfId(u64::MAX),
    Tweak::CommonRsv,
    Tweak::MetaRsv,
    Tweak::InfoRsv,
    Tweak::ScmpRsv,
    Tweak::SvcPadding,
    Tweak::TrailingByte,
    Tweak::PayloadLenPlus1,
    Tweak::PayloadLenMinus1,
    Tweak::UdpLenPlus1,
    Tweak::UdpLenMinus1,
    Tweak::HdrLenPlus1,
    Tweak::TracePlaceholder,
];

fn fix_checksum(b: &mut [u8], hl: usize) {
    if let Ok((h, _)) = RHeader::parse(b) {
        let off = match h.next_hdr { 17 => 6, 202 => 2, _ => return };
        if b.len() < hl + off + 2 {
            return;
        }
        b[hl + off] = 0;
        b[hl + off + 1] = 0;
        let c = refwire::checksum(h.dst_ia, h.src_ia, &h.dst_host, &h.src_host, h.next_hdr, &b[hl..]);
        b[hl + off..hl + off + 2].copy_from_slice(&c.to_be_bytes());
    }
}

/// Apply a tweak to a canonical reference encoding. None = tweak not applicable to this model.
fn tweak(m: &M, e: &Expected, t: &Tweak) -> Option<(Vec<u8>, bool)> {
    // an Unknown{id,len} whose nibble is the one of IPv4 / IPv6 / SVC is read as that type: its
    // reference bytes are not a canonical encoding of an unknown address (forward oracle covers it)
    let aliases = |h: &HostK| matches!(h, HostK::Unknown { id: 0, bytes } if bytes.len() == 4 || bytes.len() == 16) || matches!(h, HostK::Unknown { id: 1, bytes } if bytes.len() == 4);
    if aliases(&m.dst) || aliases(&m.src) {
        return None;
    }
    let mut b = e.bytes.clone();
    let hl = e.hl;
    let dl = m.dst.to_ref().ok()?.1.len();
    let sl = m.src.to_ref().ok()?.1.len();
    let p0 = 28 + dl + sl;
    let canonical = match t {
        Tweak::Canonical => true,
        Tweak::CanonWideIfId(v) => {
            match &m.pay {
                PayK::Scmp(ScmpK::ExtIfDown { .. }) | PayK::Scmp(ScmpK::IntConnDown { .. }) => b[hl + 12..hl + 20].copy_from_slice(&v.to_be_bytes()),
                PayK::Scmp(ScmpK::TraceRep { .. }) => b[hl + 16..hl + 24].copy_from_slice(&v.to_be_bytes()),
                _ => return None,
            }
            fix_checksum(&mut b, hl);
            true
        }
        Tweak::CommonRsv => {
            b[11] = 1;
            false
        }
        Tweak::MetaRsv => {
            if !matches!(m.path, PathK::Std { .. }) {
                return None;
            }
            b[p0 + 1] |= 0x80;
            false
        }
        Tweak::InfoRsv => {
            match m.path {
                PathK::Std { .. } => b[p0 + 5] = 0xEE,
                PathK::OneHop { .. } => b[p0 + 1] = 0xEE,
                _ => return None,
            }
            false
        }
        Tweak::ScmpRsv => {
            match &m.pay {
                PayK::Scmp(ScmpK::DestUnreach { .. }) | PayK::Scmp(ScmpK::PktTooBig { .. }) | PayK::Scmp(ScmpK::ParamProblem { .. }) => b[hl + 4] = 0x80,
                _ => return None,
            }
            fix_checksum(&mut b, hl);
            false
        }
        Tweak::SvcPadding => {
            if !matches!(m.dst, HostK::Svc(_)) {
                return None;
            }
            b[28 + 3] = 0x99;
            fix_checksum(&mut b, hl);
            false
        }
        Tweak::TrailingByte => {
            b.push(0xAB);
            false
        }
        Tweak::PayloadLenPlus1 | Tweak::PayloadLenMinus1 => {
            let pl = u16::from_be_bytes([b[6], b[7]]);
            let n = if matches!(t, Tweak::PayloadLenPlus1) { pl.checked_add(1)? } else { pl.checked_sub(1)? };
            b[6..8].copy_from_slice(&n.to_be_bytes());
            false
        }
        Tweak::UdpLenPlus1 | Tweak::UdpLenMinus1 => {
            if !matches!(m.pay, PayK::Udp { .. }) {
                return None;
            }
            let ul = u16::from_be_bytes([b[hl + 4], b[hl + 5]]);
            let n = if matches!(t, Tweak::UdpLenPlus1) { ul.checked_add(1)? } else { ul.checked_sub(1)? };
            b[hl + 4..hl + 6].copy_from_slice(&n.to_be_bytes());
            fix_checksum(&mut b, hl);
            false
        }
        Tweak::HdrLenPlus1 => {
            b[5] = b[5].checked_add(1)?;
            false
        }
        Tweak::TracePlaceholder => {
            if !matches!(m.pay, PayK::Scmp(ScmpK::TraceReq { .. })) {
                return None;
            }
            b[hl + 8] = 1;
            b[hl + 23] = 1;
            fix_checksum(&mut b, hl);
            false
        }
    };
    Some((b, canonical))
}

/// Decode reference bytes with the typed decoder matching NextHdr and with the raw decoder;
/// canonical inputs that are accepted must re-encode to identical bytes.
fn check_reverse(c: &Case, t: &Tweak, bytes: &[u8], canonical: bool) -> Vec<String> {
    let m = c.m;
    let pk = m.pay.kind();
    let tn = format!("{t:?}");
    let tn = tn.split('(').next().unwrap().to_string();
    let probes: Vec<Subject> = {
        let s = m.to_subject();
        match &s {
            Subject::Raw(_) => vec![s],
            _ => vec![s.clone(), Subject::Raw(ScionPacket { header: s.header().clone(), payload: vec![] })],
        }
    };
    let mut outs = vec![];
    for like in &probes {
        let dk = match like { Subject::Raw(_) => "rawdec", Subject::Udp(_) => "udpdec", Subject::Scmp(_) => "scmpdec" };
        let d = vpc::catch(|| like.decode_like(bytes));
        let (dm, rest) = match d {
            Err(p) => {
                c.viol(&format!("panic@{}", vpc::last_panic_location()), &format!("decoder panicked on a reference encoding: {p}"), || json!({"tweak": tn, "bytes": hexcap(bytes)}));
                outs.push("panic".into());
                continue;
            }
            Ok(Err(_)) => {
                outs.push(if canonical { format!("canonical-rejected:{dk}:{pk}") } else { format!("noncanon-rejected:{tn}:{dk}") });
                continue;
            }
            Ok(Ok(x)) => x,
        };
        let re = vpc::catch(|| dm.try_encode_to_vec());
        let same = matches!(&re, Ok(Ok(v)) if v.len() + rest == bytes.len() && v[..] == bytes[..v.len()]);
        if !canonical {
            outs.push(format!("noncanon-accepted-{}:{tn}:{dk}", if same { "preserved" } else if rest > 0 { "rest-returned" } else { "normalised" }));
            continue;
        }
        if rest != 0 {
            c.viol(&format!("decoder-leaves-trailing-bytes:{dk}:{pk}"), "decoder does not consume a canonical encoding completely", || json!({"rest": rest, "tweak": tn}));
        }
        match re {
            Err(p) => c.viol(&format!("panic@{}", vpc::last_panic_location()), &format!("re-encode of a decoded canonical packet panicked: {p}"), || json!({"tweak": tn, "bytes": hexcap(bytes)})),
            Ok(Err(e)) => c.viol(&format!("reencode-rejected:{dk}:{pk}"), &format!("decoded canonical packet cannot be re-encoded: {e}"), || json!({"tweak": tn, "bytes": hexcap(bytes)})),
            Ok(Ok(v)) => {
                if v != bytes {
                    let hl = bytes[5] as usize * 4;
                    let o = first_diff(&v, bytes);
                    let fld = if v.len() != bytes.len() { "length".to_string() } else { field_at(m, hl, o) };
                    // a difference confined to the checksum field is the encoder's checksum defect, reported under its own class
                    let only_csum = v.len() == bytes.len() && {
                        let mut x = v.clone();
                        let mut y = bytes.to_vec();
                        let co = hl + if bytes[4] == 17 { 6 } else { 2 };
                        if matches!(bytes[4], 17 | 202) && co + 2 <= x.len() { x[co] = 0; x[co + 1] = 0; y[co] = 0; y[co + 1] = 0; }
                        x == y
                    };
                    if only_csum {
                        let proto = if bytes[4] == 17 { "udp" } else { "scmp" };
                        c.viol(&checksum_class(&v, hl, proto), "re-encoding a canonical packet changes only the checksum, and the new checksum does not verify", || json!({"tweak": tn, "reencoded": hexcap(&v), "input": hexcap(bytes)}));
                        outs.push(format!("canonical-reencode-checksum-only:{dk}"));
                    } else {
                        let class = match t {
                            Tweak::CanonWideIfId(_) => format!("scmp-interface-id-truncated-to-16-bits:{pk}"),
                            // an undefined SCMP type: the specification puts no structure behind the common
                            // header, the crate discards the 4 bytes behind it when decoding
                            _ if pk == "scmp-unknown" && dk == "scmpdec" => "scmp-unknown-drops-bytes-4-to-8".to_string(),
                            _ => format!("canonical-reencode-differs@{fld}:{dk}"),
                        };
                        c.viol(&class, "a canonical encoding the decoder accepts does not re-encode to the same bytes", || json!({"tweak": tn, "offset": o, "reencoded": hexcap(&v), "input": hexcap(bytes)}));
                        outs.push("canonical-reencode-differs".into());
                    }
                } else {
                    outs.push(format!("canonical-roundtrip-ok:{dk}"));
                }
            }
        }
    }
    outs
}

// ------------------------------------------------------------------------------------------------
// Spaces
// ------------------------------------------------------------------------------------------------

pub struct Space {
    pub name: &'static str,
    pub dims: Vec<usize>,
    pub build: Box<dyn Fn(&[usize]) -> M + Sync + Send>,
    /// reverse direction on the members of this space: 0 none, 1 canonical tweaks only, 2 all tweaks
    pub reverse: u8,
}
impl Space {
    fn total(&self) -> u64 {
        self.dims.iter().map(|d| *d as u64).product()
    }
    fn at(&self, mut i: u64) -> M {
        let mut ix = vec![0usize; self.dims.len()];
        for k in (0..self.dims.len()).rev() {
            ix[k] = (i % self.dims[k] as u64) as usize;
            i /= self.dims[k] as u64;
        }
        (self.build)(&ix)
    }
}

const IA1: u64 = 0x0001_ff00_0000_0110;
const IA2: u64 = 0x0002_ff00_0000_0220;

fn host_kinds() -> Vec<HostK> {
    let mut v = vec![
        HostK::V4([10, 0, 0, 1]),
        HostK::V6([0x20, 1, 0xd, 0xb8, 0, 0, 0, 0, 0, 0, 0, 0, 0, 0, 0, 7]),
        HostK::Svc(0x0002),
        HostK::Svc(0x8002),
        HostK::Svc(0x7777),
    ];
    for id in 0..4u8 {
        for len in [4usize, 8, 12, 16] {
            v.push(HostK::Unknown { id, bytes: fill(len, 0x60 + id) });
        }
    }
    v
}
/// Standard path shapes: 1..=3 segments, hops per segment from `hops`.
fn std_shapes(hops: &[u16]) -> Vec<Vec<u16>> {
    let mut v = vec![];
    for a in hops {
        v.push(vec![*a]);
        for b in hops {
            v.push(vec![*a, *b]);
            for c in hops {
                v.push(vec![*a, *b, *c]);
            }
        }
    }
    v
}
/// Pointers to try for a shape: what `wire_valid` may accept plus the first values it must reject.
fn curr_all(segs: &[u16]) -> Vec<(u8, u8)> {
    let total: usize = segs.iter().map(|s| *s as usize).sum();
    let mut v = vec![];
    for inf in 0..=segs.len().min(255) as u8 {
        for hf in 0..=total.min(255) as u8 {
            v.push((inf, hf));
        }
    }
    v
}
fn curr_two(segs: &[u16]) -> Vec<(u8, u8)> {
    let total: usize = segs.iter().map(|s| *s as usize).sum();
    vec![(0, 0), ((segs.len() - 1) as u8, (total.saturating_sub(1)).min(255) as u8)]
}
fn path_kinds(hops: &[u16], full_curr: bool) -> Vec<PathK> {
    let mut v = vec![PathK::Empty, PathK::OneHop { second_set: false }, PathK::OneHop { second_set: true }];
    for s in std_shapes(hops) {
        for (ci, ch) in if full_curr { curr_all(&s) } else { curr_two(&s) } {
            v.push(PathK::Std { segs: s.clone(), curr_inf: ci, curr_hf: ch });
        }
    }
    for ty in [3u8, 4, 5, 255] {
        for len in [0usize, 4, 8, 980, 984, 988] {
            v.push(PathK::Unsupported { ty, len });
        }
    }
    v
}
fn pay_kinds(n: usize) -> Vec<PayK> {
    vec![
        PayK::Raw { next: 0xFD, len: n },
        PayK::Udp { sp: 40001, dp: 53, len: n },
        PayK::Scmp(ScmpK::DestUnreach { code: 4, quote: n + 40 }),
        PayK::Scmp(ScmpK::PktTooBig { mtu: 1400, quote: n + 40 }),
        PayK::Scmp(ScmpK::ParamProblem { code: 48, pointer: 9, quote: n + 40 }),
        PayK::Scmp(ScmpK::ExtIfDown { ia: IA2, ifid: 7, quote: n + 40 }),
        PayK::Scmp(ScmpK::IntConnDown { ia: IA2, ingress: 7, egress: 9, quote: n + 40 }),
        PayK::Scmp(ScmpK::EchoReq { id: 0x1234, seq: 3, data: n }),
        PayK::Scmp(ScmpK::EchoRep { id: 0x1234, seq: 3, data: n }),
        PayK::Scmp(ScmpK::TraceReq { id: 0x2345, seq: 4 }),
        PayK::Scmp(ScmpK::TraceRep { id: 0x2345, seq: 4, ia: IA2, ifid: 11 }),
        PayK::Scmp(ScmpK::Unknown { ty: 200, code: 3, data: n + 3 }),
    ]
}
fn base(dst: HostK, src: HostK, path: PathK, pay: PayK) -> M {
    M { tc: 0x2e, flow: 0xABCDE, dst_ia: IA1, src_ia: IA2, dst, src, path, pay }
}
/// The two defaults of the one-dimension sweeps.
fn defaults() -> Vec<(HostK, HostK, PathK)> {
    vec![
        (HostK::V4([10, 0, 0, 1]), HostK::V4([10, 0, 0, 2]), PathK::Empty),
        (HostK::V6([0xfd; 16]), HostK::Svc(0x0002), PathK::Std { segs: vec![2, 3], curr_inf: 1, curr_hf: 2 }),
    ]
}
/// header size of default `d`
fn default_hl(d: usize) -> usize {
    let (a, b, p) = &defaults()[d];
    base(a.clone(), b.clone(), p.clone(), PayK::Raw { next: 0, len: 0 }).expected().map(|e| e.hl).unwrap_or(36)
}

fn spaces(tier: vpc::Tier) -> Vec<Space> {
    let thorough = tier == vpc::Tier::Thorough;
    let hosts = host_kinds();
    let nh = hosts.len();
    let hops: Vec<u16> = vec![1, 2, 3, 12, 13, 63];
    let mut v: Vec<Space> = vec![];

    // core: address kinds^2 x path kinds x payload kinds
    {
        let paths = path_kinds(&hops, false);
        let pays = pay_kinds(5);
        let (h, p, y) = (hosts.clone(), paths.clone(), pays.clone());
        v.push(Space { name: "core", dims: vec![nh, nh, paths.len(), pays.len()], reverse: 1, build: Box::new(move |ix| base(h[ix[0]].clone(), h[ix[1]].clone(), p[ix[2]].clone(), y[ix[3]].clone())) });
    }
    // every (CurrINF, CurrHF) of every shape: quick with 2 address pairs x 3 payload kinds, thorough with everything
    {
        let paths: Vec<PathK> = path_kinds(&hops, true).into_iter().filter(|p| matches!(p, PathK::Std { .. })).collect();
        let pays = pay_kinds(5);
        let pays: Vec<PayK> = if thorough { [0usize, 1, 2, 7, 10, 11].iter().map(|i| pays[*i].clone()).collect() } else { vec![pays[0].clone(), pays[1].clone(), pays[7].clone()] };
        let hp: Vec<(HostK, HostK)> = if thorough {
            hosts.iter().flat_map(|a| hosts.iter().map(move |b| (a.clone(), b.clone()))).collect()
        } else {
            vec![(hosts[0].clone(), hosts[1].clone()), (hosts[20].clone(), hosts[2].clone())]
        };
        v.push(Space { name: "curr", dims: vec![hp.len(), paths.len(), pays.len()], reverse: 0, build: Box::new(move |ix| base(hp[ix[0]].0.clone(), hp[ix[0]].1.clone(), paths[ix[1]].clone(), pays[ix[2]].clone())) });
    }
    // payload size sweep
    {
        let mut sizes: Vec<usize> = vec![0, 1, 2, 3, 65527, 65528, 65536, 65543, 131071];
        for d in 0..2 {
            let hl = default_hl(d);
            for k in 0..=10 {
                sizes.push((1232 - hl + 1).saturating_sub(k));
            }
            for s in (65535 - hl - 30)..=65536 {
                sizes.push(s);
            }
        }
        sizes.sort();
        sizes.dedup();
        let sized = |k: usize, n: usize| -> PayK {
            match k {
                0 => PayK::Raw { next: 0xFD, len: n },
                1 => PayK::Udp { sp: 1, dp: 2, len: n },
                2 => PayK::Scmp(ScmpK::DestUnreach { code: 0, quote: n }),
                3 => PayK::Scmp(ScmpK::PktTooBig { mtu: 0, quote: n }),
                4 => PayK::Scmp(ScmpK::ParamProblem { code: 0, pointer: 0, quote: n }),
                5 => PayK::Scmp(ScmpK::ExtIfDown { ia: IA1, ifid: 1, quote: n }),
                6 => PayK::Scmp(ScmpK::IntConnDown { ia: IA1, ingress: 1, egress: 2, quote: n }),
                7 => PayK::Scmp(ScmpK::EchoReq { id: 1, seq: 1, data: n }),
                8 => PayK::Scmp(ScmpK::EchoRep { id: 1, seq: 1, data: n }),
                _ => PayK::Scmp(ScmpK::Unknown { ty: 77, code: 0, data: n }),
            }
        };
        let d = defaults();
        v.push(Space { name: "payload-size", dims: vec![2, 10, sizes.len()], reverse: 0, build: Box::new(move |ix| base(d[ix[0]].0.clone(), d[ix[0]].1.clone(), d[ix[0]].2.clone(), sized(ix[1], sizes[ix[2]]))) });
        // the largest payloads additionally behind 4 header shapes (incl. the largest header)
        let big: Vec<usize> = vec![65535, 65536, 131071];
        let shapes: Vec<PathK> = vec![PathK::Empty, PathK::OneHop { second_set: true }, PathK::Std { segs: vec![63, 13], curr_inf: 0, curr_hf: 0 }, PathK::Unsupported { ty: 3, len: 980 }];
        v.push(Space { name: "payload-size-x-header", dims: vec![shapes.len(), 3, big.len()], reverse: 0, build: Box::new(move |ix| base(HostK::V4([1, 2, 3, 4]), HostK::V6([9; 16]), shapes[ix[0]].clone(), sized([0, 1, 7][ix[1]], big[ix[2]]))) });
    }
    // SCMP offending-packet length 0..=1300, every value, 5 error kinds, 2 defaults + largest header
    {
        let mut d = defaults();
        d.push((HostK::V6([1; 16]), HostK::V6([2; 16]), PathK::Unsupported { ty: 4, len: 960 }));
        v.push(Space { name: "scmp-quote-len", dims: vec![d.len(), 5, 1301], reverse: 2, build: Box::new(move |ix| {
            let q = ix[2];
            let s = match ix[1] {
                0 => ScmpK::DestUnreach { code: 1, quote: q },
                1 => ScmpK::PktTooBig { mtu: 1280, quote: q },
                2 => ScmpK::ParamProblem { code: 16, pointer: 5, quote: q },
                3 => ScmpK::ExtIfDown { ia: IA1, ifid: 5, quote: q },
                _ => ScmpK::IntConnDown { ia: IA1, ingress: 5, egress: 6, quote: q },
            };
            base(d[ix[0]].0.clone(), d[ix[0]].1.clone(), d[ix[0]].2.clone(), PayK::Scmp(s))
        }) });
    }
    // scalar fields one at a time: flow id, traffic class, ISD-AS, ids / seqs / pointers / interface ids
    {
        let d = defaults();
        let vals: Vec<(&'static str, u64)> = {
            let mut x = vec![];
            for f in [0u64, 1, 0xFFFFF, 0x100000, 0xFFFF_FFFF] { x.push(("flow", f)); }
            for t in [0u64, 255] { x.push(("tc", t)); }
            for ia in [0u64, 1, u64::MAX, 0x0001_0000_0000_0000, 0x0000_ffff_ffff_ffff] { x.push(("dst_ia", ia)); x.push(("src_ia", ia)); x.push(("scmp_ia", ia)); }
            for k in [0u64, 1, 0xFFFF] { x.push(("id", k)); x.push(("seq", k)); x.push(("pointer", k)); x.push(("mtu", k)); x.push(("ifid", k)); x.push(("ifid2", k)); x.push(("sport", k)); x.push(("dport", k)); x.push(("code", k & 0xff)); x.push(("svc", k)); }
            x
        };
        let pays = pay_kinds(5);
        let np = pays.len();
        v.push(Space { name: "scalars", dims: vec![2, np, vals.len()], reverse: 2, build: Box::new(move |ix| {
            let (what, val) = vals[ix[2]];
            let mut m = base(d[ix[0]].0.clone(), d[ix[0]].1.clone(), d[ix[0]].2.clone(), pays[ix[1]].clone());
            match what {
                "flow" => m.flow = val as u32,
                "tc" => m.tc = val as u8,
                "dst_ia" => m.dst_ia = val,
                "src_ia" => m.src_ia = val,
                "svc" => m.dst = HostK::Svc(val as u16),
                _ => {
                    let x16 = val as u16;
                    m.pay = match (m.pay.clone(), what) {
                        (PayK::Udp { dp, len, .. }, "sport") => PayK::Udp { sp: x16, dp, len },
                        (PayK::Udp { sp, len, .. }, "dport") => PayK::Udp { sp, dp: x16, len },
                        (PayK::Scmp(s), w) => PayK::Scmp(match (s, w) {
                            (ScmpK::DestUnreach { quote, .. }, "code") => ScmpK::DestUnreach { code: val as u8, quote },
                            (ScmpK::ParamProblem { pointer, quote, .. }, "code") => ScmpK::ParamProblem { code: val as u8, pointer, quote },
                            (ScmpK::ParamProblem { code, quote, .. }, "pointer") => ScmpK::ParamProblem { code, pointer: x16, quote },
                            (ScmpK::PktTooBig { quote, .. }, "mtu") => ScmpK::PktTooBig { mtu: x16, quote },
                            (ScmpK::ExtIfDown { ifid, quote, .. }, "scmp_ia") => ScmpK::ExtIfDown { ia: val, ifid, quote },
                            (ScmpK::ExtIfDown { ia, quote, .. }, "ifid") => ScmpK::ExtIfDown { ia, ifid: x16, quote },
                            (ScmpK::IntConnDown { ingress, egress, quote, .. }, "scmp_ia") => ScmpK::IntConnDown { ia: val, ingress, egress, quote },
                            (ScmpK::IntConnDown { ia, egress, quote, .. }, "ifid") => ScmpK::IntConnDown { ia, ingress: x16, egress, quote },
                            (ScmpK::IntConnDown { ia, ingress, quote, .. }, "ifid2") => ScmpK::IntConnDown { ia, ingress, egress: x16, quote },
                            (ScmpK::EchoReq { seq, data, .. }, "id") => ScmpK::EchoReq { id: x16, seq, data },
                            (ScmpK::EchoReq { id, data, .. }, "seq") => ScmpK::EchoReq { id, seq: x16, data },
                            (ScmpK::EchoRep { seq, data, .. }, "id") => ScmpK::EchoRep { id: x16, seq, data },
                            (ScmpK::EchoRep { id, data, .. }, "seq") => ScmpK::EchoRep { id, seq: x16, data },
                            (ScmpK::TraceReq { seq, .. }, "id") => ScmpK::TraceReq { id: x16, seq },
                            (ScmpK::TraceReq { id, .. }, "seq") => ScmpK::TraceReq { id, seq: x16 },
                            (ScmpK::TraceRep { seq, ia, ifid, .. }, "id") => ScmpK::TraceRep { id: x16, seq, ia, ifid },
                            (ScmpK::TraceRep { id, ia, ifid, .. }, "seq") => ScmpK::TraceRep { id, seq: x16, ia, ifid },
                            (ScmpK::TraceRep { id, seq, ifid, .. }, "scmp_ia") => ScmpK::TraceRep { id, seq, ia: val, ifid },
                            (ScmpK::TraceRep { id, seq, ia, .. }, "ifid") => ScmpK::TraceRep { id, seq, ia, ifid: x16 },
                            (ScmpK::Unknown { ty, data, .. }, "code") => ScmpK::Unknown { ty, code: val as u8, data },
                            (s, _) => s,
                        }),
                        (p, _) => p,
                    };
                }
            }
            m
        }) });
    }
    // models that have no wire representation (or alias another model): addresses, paths, SCMP types
    {
        let mut hs: Vec<HostK> = vec![];
        for id in [4u8, 5, 63, 64, 255] {
            for len in [4usize, 16] {
                hs.push(HostK::Unknown { id, bytes: fill(len, 0x70) });
            }
        }
        for len in [0usize, 1, 2, 3, 5, 6, 7, 13, 15] {
            hs.push(HostK::Unknown { id: 2, bytes: fill(len, 0x71) });
        }
        let mut ps: Vec<PathK> = vec![
            PathK::Std { segs: vec![], curr_inf: 0, curr_hf: 0 },
            PathK::Std { segs: vec![0], curr_inf: 0, curr_hf: 0 },
            PathK::Std { segs: vec![2, 0], curr_inf: 0, curr_hf: 0 },
            PathK::Std { segs: vec![0, 2], curr_inf: 0, curr_hf: 0 },
            PathK::Std { segs: vec![64], curr_inf: 0, curr_hf: 0 },
            PathK::Std { segs: vec![70], curr_inf: 0, curr_hf: 0 },
            PathK::Std { segs: vec![64, 1], curr_inf: 1, curr_hf: 64 },
            PathK::Std { segs: vec![63, 16], curr_inf: 1, curr_hf: 64 },
            PathK::Std { segs: vec![63, 16], curr_inf: 1, curr_hf: 78 },
            PathK::Std { segs: vec![2, 2], curr_inf: 4, curr_hf: 0 },
            PathK::Std { segs: vec![2, 2], curr_inf: 255, curr_hf: 0 },
        ];
        for ty in [0u8, 1, 2] {
            for len in [0usize, 4, 32, 36] {
                ps.push(PathK::Unsupported { ty, len });
            }
        }
        for ty in [3u8, 255] {
            for len in [1usize, 2, 3, 5, 986, 992, 1000, 2000] {
                ps.push(PathK::Unsupported { ty, len });
            }
        }
        let mut ys: Vec<PayK> = vec![];
        for ty in [1u8, 2, 4, 5, 6, 128, 129, 130, 131] {
            for data in [0usize, 4, 16, 20, 24] {
                ys.push(PayK::Scmp(ScmpK::Unknown { ty, code: 0, data }));
            }
        }
        for ty in [0u8, 3, 127, 132, 255] {
            for data in [0usize, 1, 3, 4, 5] {
                ys.push(PayK::Scmp(ScmpK::Unknown { ty, code: 1, data }));
            }
        }
        let d = defaults();
        let pays = pay_kinds(5);
        let (n1, n2, n3) = (hs.len(), ps.len(), ys.len());
        let np = pays.len();
        // dimension 1 selects which list is swept
        v.push(Space { name: "unrepresentable", dims: vec![2, 4, n1.max(n2).max(n3), np], reverse: 0, build: Box::new(move |ix| {
            let mut m = base(d[ix[0]].0.clone(), d[ix[0]].1.clone(), d[ix[0]].2.clone(), pays[ix[3]].clone());
            match ix[1] {
                0 => m.dst = hs[ix[2] % n1].clone(),
                1 => m.src = hs[ix[2] % n1].clone(),
                2 => m.path = ps[ix[2] % n2].clone(),
                _ => m.pay = ys[ix[2] % n3].clone(),
            }
            m
        }) });
    }
    v
}

// ------------------------------------------------------------------------------------------------
// Entry point
// ------------------------------------------------------------------------------------------------

pub fn run(args: &vpc::Args) -> ! {
    vpc::quiet_panics();
    if let Some(f) = &args.replay {
        replay(args, f);
    }
    let run = vpc::Run::new(args);
    // large payload models allocate > 128 KiB buffers: keep them on the heap (no mmap/munmap per allocation)
    unsafe {
        libc::mallopt(libc::M_MMAP_THRESHOLD, 1 << 30);
        libc::mallopt(libc::M_TRIM_THRESHOLD, 1 << 30);
    }
    let sp = spaces(args.tier);
    let evals = AtomicU64::new(0);
    let rev_evals = AtomicU64::new(0);
    let accepted = AtomicU64::new(0);
    let distinct = vpc::Distinct::default();
    let mut per_space = vec![];
    for (space_no, s) in sp.iter().enumerate() {
        let total = s.total();
        let t0 = run.elapsed_s();
        let chunk = (total / 512).clamp(1, 256);
        let nchunks = total.div_ceil(chunk);
        (0..nchunks).into_par_iter().for_each(|ci| {
            let mut outs: std::collections::BTreeMap<String, u64> = Default::default();
            let mut keys = vec![];
            let counts = std::cell::RefCell::new(Tally::new());
            for i in ci * chunk..((ci + 1) * chunk).min(total) {
                let m = s.at(i);
                let c = Case { run: &run, space: s.name, space_no, index: i, m: &m, tally: &counts };
                let o = check_model(&c);
                evals.fetch_add(1, Ordering::Relaxed);
                if !o.starts_with("rejected") {
                    accepted.fetch_add(1, Ordering::Relaxed);
                    keys.push(vpc::fnv64(format!("{}|{}", m.class_key(), o.split(':').next().unwrap()).as_bytes()));
                }
                *outs.entry(format!("fwd:{o}")).or_default() += 1;
                if i % 9973 == 0 {
                    run.sample(6, || json!({"space": s.name, "index": i, "model": format!("{m:?}"), "outcome": o}));
                }
                if s.reverse > 0 {
                    if let Ok(e) = m.expected() {
                        for t in TWEAKS {
                            if s.reverse == 1 && !matches!(t, Tweak::Canonical | Tweak::CanonWideIfId(_)) {
                                continue;
                            }
                            if let Some((b, canon)) = tweak(&m, &e, t) {
                                rev_evals.fetch_add(1, Ordering::Relaxed);
                                for o in check_reverse(&c, t, &b, canon) {
                                    *outs.entry(format!("rev:{o}")).or_default() += 1;
                                }
                            }
                        }
                    }
                }
            }
            for (k, n) in outs {
                run.outcome_n(&k, n);
            }
            distinct.extend(keys);
            merge_tally(counts.into_inner());
        });
        per_space.push(json!({"space": s.name, "dims": s.dims, "models": total, "wall_s": ((run.elapsed_s() - t0) * 10.0).round() / 10.0}));
    }
    let evaluations = evals.load(Ordering::Relaxed);
    let witness_counts = flush_tally(&run);
    run.finish(
        "exploration",
        json!({
            "evaluations": evaluations + rev_evals.load(Ordering::Relaxed),
            "forward_models": evaluations,
            "forward_models_accepted_by_encoder": accepted.load(Ordering::Relaxed),
            "reverse_byte_strings": rev_evals.load(Ordering::Relaxed),
            "distinct_nontrivial": distinct.len(),
            "rule": "distinct (dst address kind, src address kind, path kind, payload kind, outcome class) tuples among models the encoder ACCEPTED (each went through all byte/field/checksum/round-trip oracles)",
            "exhaustive": true,
            "spaces": per_space,
            "witnesses_per_violation_class": witness_counts,
            "bound": format!("{} tier: every element of the listed spaces (mixed-radix products, no sampling); each accepted model encoded at offset 0/zero-filled, offset 1/zero-filled, offset 1/0xFF-filled and offset 1/0xA5-filled of an 8-aligned allocation and via try_encode_to_vec; decoded at offsets 0 and 1; reverse direction = {} tweaks per member of the spaces marked reverse", args.tier.name(), TWEAKS.len()),
        }),
        &[
            "refwire/refl4 are the reading of the SCION header, SCION/UDP and SCMP formats; a defect shared by them and sciparse is invisible",
            "payload bytes, MACs, timestamps come from one deterministic pattern; they do not influence any length computation",
            "undefined SCMP types are expected with their data directly behind the 4-byte common header (the crate's own layout diagram says the same)",
            "IPv6 hop-by-hop / end-to-end extension headers are not modelled by the crate and not generated",
        ],
    )
}

fn replay(args: &vpc::Args, f: &std::path::Path) -> ! {
    let v = vpc::read_replay(f);
    let w = &v["witness"];
    let space = w["space"].as_str().unwrap_or("");
    let index = w["index"].as_u64().unwrap_or(0);
    let mut found = false;
    for tier in [vpc::Tier::Quick, vpc::Tier::Thorough] {
        for s in spaces(tier) {
            if s.name == space && index < s.total() {
                let m = s.at(index);
                if format!("{m:?}") != w["model"].as_str().unwrap_or("") {
                    continue;
                }
                found = true;
                println!("replay: space={space} index={index}\nmodel: {m:?}");
                // a throw-away run that writes nothing: print violations directly
                let a2 = vpc::Args { prop: args.prop.clone(), tier, seed: 0, replay: None, extra: vec![] };
                let run = vpc::Run::new(&a2);
                let counts = std::cell::RefCell::new(Tally::new());
                let c = Case { run: &run, space: s.name, space_no: 0, index, m: &m, tally: &counts };
                let o = check_model(&c);
                println!("forward outcome: {o}");
                match m.expected() {
                    Ok(e) => {
                        println!("reference bytes: {}", hexcap(&e.bytes));
                        if s.reverse > 0 {
                            for t in TWEAKS {
                                if let Some((b, canon)) = tweak(&m, &e, t) {
                                    println!("reverse {t:?} canonical={canon}: {:?}", check_reverse(&c, t, &b, canon));
                                }
                            }
                        }
                    }
                    Err(why) => println!("reference: not representable ({why})"),
                }
                if let Ok(b) = m.to_subject().try_encode_to_vec() {
                    println!("subject bytes:   {}", hexcap(&b));
                }
                let t = counts.into_inner();
                for (class, (n, _, what, w)) in &t {
                    println!("VIOLATION-IN-REPLAY [{class}] x{n} {what}\n    {}", w["detail"]);
                }
                std::process::exit(if t.is_empty() { 0 } else { 1 });
            }
        }
        if found {
            break;
        }
    }
    vpc::machinery_failure("replay witness does not name a member of a known space")
}
