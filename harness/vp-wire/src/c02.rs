//! C02 - parsing untrusted bytes is total and memory-safe.
//!
//! Parent process: builds the `release` twin of this binary, then runs every enumeration space as
//! child processes under both profiles - `relcheck` (std UB checks, overflow checks, the crate's
//! debug assertions) and `release` (what ships; there an out-of-slice access really happens and
//! hits the PROT_NONE page next to the input). A child that dies from a signal is narrowed to the
//! single case and operation through the progress slots it leaves in a shared file.
mod cat;
mod infra;
mod refv;
mod runner;
mod spaces;

use std::{
    collections::{BTreeMap, BTreeSet},
    path::{Path, PathBuf},
    process::Command,
    sync::Mutex,
};

use infra::{Acc, Progress};
use spaces::{SPACES, Space, Tables};
use vpc::{Value, json, rayon::prelude::*};

fn arg<'a>(extra: &'a [String], k: &str) -> Option<&'a str> {
    extra.iter().position(|x| x == k).and_then(|i| extra.get(i + 1)).map(|s| s.as_str())
}

pub fn run(args: &vpc::Args) -> ! {
    vpc::quiet_panics();
    if args.extra.iter().any(|x| x == "--child") {
        child(args);
    }
    if let Some(f) = &args.replay {
        replay(args, f);
    }
    parent(args)
}

// ------------------------------------------------------------------------------------------------
// child
// ------------------------------------------------------------------------------------------------
fn child(args: &vpc::Args) -> ! {
    infra::install_panic_hook();
    let e = &args.extra;
    let space = Space::from_name(arg(e, "--space").unwrap_or("")).unwrap_or_else(|| vpc::machinery_failure("child: bad --space"));
    let lo: u64 = arg(e, "--lo").and_then(|s| s.parse().ok()).unwrap_or(0);
    let hi: u64 = arg(e, "--hi").and_then(|s| s.parse().ok()).unwrap_or(0);
    let threads: usize = arg(e, "--threads").and_then(|s| s.parse().ok()).unwrap_or(1);
    let trace = e.iter().any(|x| x == "--trace");
    let skip: BTreeSet<String> = arg(e, "--skip").map(|s| s.split(";;").filter(|x| !x.is_empty()).map(|x| x.to_string()).collect()).unwrap_or_default();
    let progress = arg(e, "--progress").map(|p| Progress::open(Path::new(p), false));
    let out = arg(e, "--out").map(PathBuf::from);
    let tables = Tables::new(args.tier == vpc::Tier::Thorough);
    let total = Mutex::new(Acc::default());
    let pool = vpc::rayon::ThreadPoolBuilder::new().num_threads(threads).build().unwrap();
    let n = hi.saturating_sub(lo);
    let chunk = (n / (threads as u64 * 32)).clamp(1, 512);
    pool.install(|| {
        (0..n.div_ceil(chunk)).into_par_iter().for_each(|ci| {
            let mut acc = Acc::default();
            let ti = vpc::rayon::current_thread_index().unwrap_or(0);
            {
                let mut env = runner::Env { acc: &mut acc, progress: progress.as_ref().map(|p| (p, ti)), trace, skip: &skip, case: 0, sub: 0 };
                for case in lo + ci * chunk..(lo + (ci + 1) * chunk).min(hi) {
                    tables.run_case(space, &mut env, case);
                    env.acc.count("cases", 1);
                }
            }
            total.lock().unwrap().merge(acc);
        })
    });
    let t = total.into_inner().unwrap();
    let fails: Vec<Value> = t.fails.iter().map(|(class, (n, (case, sub), what, sig, hex))| json!({"class": class, "count": n, "case": case, "sub": sub, "what": what, "sig": sig, "input": hex})).collect();
    let res = json!({"outcomes": t.outcomes, "counters": t.counters, "fails": fails, "skipped": t.skipped});
    match out {
        Some(p) => std::fs::write(&p, serde_json::to_vec(&res).unwrap()).unwrap_or_else(|e| vpc::machinery_failure(&format!("child cannot write {}: {e}", p.display()))),
        None => println!("{}", serde_json::to_string_pretty(&res).unwrap()),
    }
    std::process::exit(0)
}

// ------------------------------------------------------------------------------------------------
// parent
// ------------------------------------------------------------------------------------------------
struct Profile {
    name: &'static str,
    exe: PathBuf,
}

fn harness_dir() -> PathBuf {
    Path::new(env!("CARGO_MANIFEST_DIR")).parent().unwrap().to_path_buf()
}
fn profiles() -> Vec<Profile> {
    let cur = std::env::current_exe().unwrap_or_else(|e| vpc::machinery_failure(&format!("current_exe: {e}")));
    let root = cur.parent().and_then(|p| p.parent()).unwrap_or_else(|| vpc::machinery_failure("unexpected exe location")).to_path_buf();
    let rel = root.join("release").join("vp-wire");
    let chk = root.join("relcheck").join("vp-wire");
    // the release twin is built on demand (same sources, same target dir)
    let st = Command::new("cargo").args(["build", "--offline", "--release", "-p", "vp-wire"]).current_dir(harness_dir()).env("CARGO_TARGET_DIR", &root).output();
    match st {
        Ok(o) if o.status.success() => {}
        Ok(o) => vpc::machinery_failure(&format!("building the release twin failed:\n{}", String::from_utf8_lossy(&o.stderr).lines().rev().take(25).collect::<Vec<_>>().into_iter().rev().collect::<Vec<_>>().join("\n"))),
        Err(e) => vpc::machinery_failure(&format!("cannot run cargo: {e}")),
    }
    if !chk.exists() {
        vpc::machinery_failure(&format!("{} missing (run through /verif/check)", chk.display()));
    }
    vec![Profile { name: "relcheck", exe: chk }, Profile { name: "release", exe: rel }]
}

struct ChildResult {
    status: Result<Value, String>, // Ok(result json) or Err(description of death)
    signal: Option<i32>,
    in_flight: Vec<(u64, u64, String)>,
}

#[allow(clippy::too_many_arguments)]
fn run_child(p: &Profile, tier: vpc::Tier, space: Space, lo: u64, hi: u64, threads: usize, skip: &BTreeSet<String>, trace: bool, scratch: &Path, timeout_s: u64) -> ChildResult {
    use std::os::unix::process::ExitStatusExt;
    let prog = scratch.join(format!("progress-{}-{}", p.name, space.name()));
    let out = scratch.join(format!("out-{}-{}", p.name, space.name()));
    let _ = std::fs::remove_file(&out);
    let pr = Progress::open(&prog, true);
    pr.clear();
    let mut cmd = Command::new(&p.exe);
    cmd.args(["C02", "--tier", tier.name(), "--child", "--space", space.name(), "--lo", &lo.to_string(), "--hi", &hi.to_string(), "--threads", &threads.to_string()]);
    cmd.arg("--progress").arg(&prog).arg("--out").arg(&out);
    if !skip.is_empty() {
        cmd.arg("--skip").arg(skip.iter().cloned().collect::<Vec<_>>().join(";;"));
    }
    if trace {
        cmd.arg("--trace");
    }
    cmd.stdout(std::process::Stdio::null()).stderr(std::process::Stdio::piped());
    let mut ch = cmd.spawn().unwrap_or_else(|e| vpc::machinery_failure(&format!("cannot spawn {}: {e}", p.exe.display())));
    let t0 = std::time::Instant::now();
    let status = loop {
        match ch.try_wait() {
            Ok(Some(s)) => break Some(s),
            Ok(None) => {
                if t0.elapsed().as_secs() > timeout_s {
                    let _ = ch.kill();
                    let _ = ch.wait();
                    break None;
                }
                std::thread::sleep(std::time::Duration::from_millis(15));
            }
            Err(e) => vpc::machinery_failure(&format!("wait: {e}")),
        }
    };
    let in_flight = pr.in_flight();
    match status {
        None => ChildResult { status: Err(format!("no result within {timeout_s} s (killed)")), signal: Some(0), in_flight },
        Some(s) if s.success() => match std::fs::read(&out).ok().and_then(|b| serde_json::from_slice::<Value>(&b).ok()) {
            Some(v) => ChildResult { status: Ok(v), signal: None, in_flight },
            None => vpc::machinery_failure("child exited 0 without a result file"),
        },
        Some(s) => {
            let mut err = String::new();
            if let Some(mut e) = ch.stderr.take() {
                use std::io::Read;
                let _ = e.read_to_string(&mut err);
            }
            let tail: String = err.lines().rev().take(6).collect::<Vec<_>>().into_iter().rev().collect::<Vec<_>>().join(" / ");
            match s.signal() {
                Some(sig) => ChildResult { status: Err(format!("killed by signal {sig}; stderr: {tail}")), signal: Some(sig), in_flight },
                None => {
                    if s.code() == Some(2) {
                        vpc::machinery_failure(&format!("child reported a machinery failure: {tail}"));
                    }
                    ChildResult { status: Err(format!("exit code {:?}; stderr: {tail}", s.code())), signal: Some(-1), in_flight }
                }
            }
        }
    }
}

/// What kind of statement panicked: look at the source line the panic location names.
fn panic_kind(loc: &str, msg: &str) -> &'static str {
    if msg.contains("with overflow") {
        return "overflow";
    }
    let (file, line) = loc.rsplit_once(':').unwrap_or((loc, "0"));
    let line: usize = line.parse().unwrap_or(0);
    // the sciparse sources this binary was built against
    let toml = std::fs::read_to_string(harness_dir().join("Cargo.toml")).unwrap_or_default();
    let root = toml.lines().find(|l| l.starts_with("sciparse")).and_then(|l| l.split('"').nth(1)).map(|p| p.trim_end_matches("crates/libs/sciparse").to_string()).unwrap_or("/repo/".into());
    if let Ok(src) = std::fs::read_to_string(Path::new(&root).join(file)) {
        let lines: Vec<&str> = src.lines().collect();
        for k in line.saturating_sub(4)..line.min(lines.len()) {
            if lines[k].contains("debug_assert") {
                return "debug-assert";
            }
        }
    }
    "panic"
}

fn signame(s: i32) -> String {
    match s {
        0 => "timeout".into(),
        -1 => "abnormal-exit".into(),
        4 => "SIGILL".into(),
        6 => "SIGABRT".into(),
        7 => "SIGBUS".into(),
        11 => "SIGSEGV".into(),
        x => format!("signal{x}"),
    }
}

#[derive(Default)]
struct Merged {
    outcomes: BTreeMap<String, u64>,
    counters: BTreeMap<String, u64>,
    /// class -> (count, witness)
    fails: BTreeMap<String, (u64, Value)>,
    skipped: BTreeMap<String, u64>,
}
impl Merged {
    fn add(&mut self, v: &Value, profile: &str, space: Space, tables: &Tables) {
        for (k, n) in v["outcomes"].as_object().into_iter().flatten() {
            *self.outcomes.entry(k.clone()).or_default() += n.as_u64().unwrap_or(0);
        }
        for (k, n) in v["counters"].as_object().into_iter().flatten() {
            *self.counters.entry(k.clone()).or_default() += n.as_u64().unwrap_or(0);
        }
        for (k, n) in v["skipped"].as_object().into_iter().flatten() {
            *self.skipped.entry(k.clone()).or_default() += n.as_u64().unwrap_or(0);
        }
        for f in v["fails"].as_array().into_iter().flatten() {
            let class = f["class"].as_str().unwrap_or("?").to_string();
            let case = f["case"].as_u64().unwrap_or(0);
            let w = json!({"profile": profile, "space": space.name(), "case": case, "sub": f["sub"], "shape": tables.describe(space, case), "operation": f["sig"], "what": f["what"], "input": f["input"]});
            let e = self.fails.entry(class).or_insert((0, w));
            e.0 += f["count"].as_u64().unwrap_or(1);
        }
    }
}

fn parent(args: &vpc::Args) -> ! {
    let run = vpc::Run::new(args);
    let thorough = args.tier == vpc::Tier::Thorough;
    let tables = Tables::new(thorough);
    let profs = profiles();
    let scratch = PathBuf::from(format!("/root/scratch/b-wire/c02-{}", std::process::id()));
    std::fs::create_dir_all(&scratch).unwrap_or_else(|e| vpc::machinery_failure(&format!("scratch dir: {e}")));
    let threads = std::thread::available_parallelism().map(|n| n.get()).unwrap_or(8);
    let timeout = if thorough { 3600 } else { 300 };
    let mut merged: BTreeMap<&'static str, Merged> = BTreeMap::new();
    let mut per_space = vec![];
    let mut crash_classes: Vec<(String, String, Value)> = vec![];
    let mut complete = true;
    for space in SPACES {
        let total = tables.total(space);
        for p in &profs {
            let t0 = run.elapsed_s();
            let m = merged.entry(p.name).or_default();
            let nshards = if thorough { 16 } else { 4 }.min(total.max(1));
            let mut restarts = 0;
            let mut aborted = false;
            for sh in 0..nshards {
                if aborted {
                    break;
                }
                let (lo, hi) = (total * sh / nshards, total * (sh + 1) / nshards);
                let mut skip: BTreeSet<String> = crash_classes.iter().filter(|c| c.1 == p.name).map(|c| c.0.clone()).collect();
                loop {
                    let r = run_child(p, args.tier, space, lo, hi, threads, &skip, false, &scratch, timeout);
                    match r.status {
                        Ok(v) => {
                            m.add(&v, p.name, space, &tables);
                            break;
                        }
                        Err(death) => {
                            restarts += 1;
                            // narrow to the single case and operation: re-run every in-flight case alone, traced
                            let mut found = None;
                            let mut cands: Vec<u64> = r.in_flight.iter().map(|x| x.0).collect();
                            cands.sort();
                            cands.dedup();
                            for case in cands {
                                let t = run_child(p, args.tier, space, case, case + 1, 1, &skip, true, &scratch, 120);
                                if let (Err(d2), Some(slot)) = (&t.status, t.in_flight.first()) {
                                    found = Some((case, slot.1, slot.2.clone(), d2.clone(), t.signal.unwrap_or(-1)));
                                    break;
                                }
                            }
                            match found {
                                Some((case, sub, tag, d2, sig)) => {
                                    let parts: Vec<&str> = tag.split('|').collect();
                                    let skipsig = infra::skip_key(parts.first().unwrap_or(&""), parts.get(2).unwrap_or(&""), parts.get(3).unwrap_or(&""));
                                    let w = json!({"profile": p.name, "space": space.name(), "case": case, "sub": sub, "shape": tables.describe(space, case), "operation": tag, "death": d2, "crash": true});
                                    crash_classes.push((skipsig.clone(), p.name.to_string(), json!({"class": format!("{}@{}", signame(sig), skipsig), "witness": w})));
                                    skip.insert(skipsig);
                                }
                                None => {
                                    let w = json!({"profile": p.name, "space": space.name(), "lo": lo, "hi": hi, "death": death, "in_flight": r.in_flight.iter().map(|x| json!([x.0, x.1, x.2])).collect::<Vec<_>>()});
                                    crash_classes.push((format!("unreproduced-{}-{}-{}", space.name(), p.name, sh), p.name.to_string(), json!({"class": format!("child-died-not-reproducible-single-threaded[{}]@{}", p.name, space.name()), "witness": w})));
                                    complete = false;
                                    break;
                                }
                            }
                            if restarts >= 8 {
                                // a pervasive defect: stop exploring this space under this profile
                                complete = false;
                                aborted = true;
                                break;
                            }
                        }
                    }
                }
            }
            per_space.push(json!({"space": space.name(), "profile": p.name, "cases": total, "wall_s": ((run.elapsed_s() - t0) * 10.0).round() / 10.0, "child_restarts_after_crash": restarts, "abandoned_after_8_crash_classes": aborted}));
        }
    }
    let _ = std::fs::remove_dir_all(&scratch);

    // ---- verdicts
    let empty = Merged::default();
    let chk = merged.get("relcheck").unwrap_or(&empty);
    let rel = merged.get("release").unwrap_or(&empty);
    for (k, n) in &chk.outcomes {
        run.outcome_n(k, *n);
    }
    let counts: Mutex<BTreeMap<String, u64>> = Mutex::new(BTreeMap::new());
    let report = |class: &str, n: u64, w: &Value, what: &str| {
        let mut w = w.clone();
        w["witnesses_this_run"] = json!(n);
        counts.lock().unwrap().insert(class.to_string(), n);
        run.violation(class, &format!("{what} [{n} witnesses this run]"), w);
    };
    for (class, (n, w)) in &chk.fails {
        if class.starts_with("panic@") {
            if rel.fails.contains_key(class) {
                continue; // reported from the release results below
            }
            let msg = w["what"].as_str().unwrap_or("");
            match panic_kind(&class["panic@".len()..], msg) {
                "overflow" => report(&format!("overflow-check-{class}"), *n, w, &format!("arithmetic overflow: panics in builds with overflow checks, silently wraps in a release build: {msg}")),
                "debug-assert" => report(&format!("debug-assert-{class}"), *n, w, &format!("a debug_assert! of the crate fires (not a production panic; a release build runs on past this point - see the release-profile classes for what happens then): {msg}")),
                _ => report(class, *n, w, &format!("panics (seen in the relcheck profile; the statement is not a debug assertion, so a release build panics as well unless the operation was skipped there after a crash): {msg}")),
            }
        } else {
            report(class, *n, w, w["what"].as_str().unwrap_or(""));
        }
    }
    for (class, (n, w)) in &rel.fails {
        if chk.fails.contains_key(class) && !class.starts_with("panic@") {
            continue;
        }
        let what = if class.starts_with("panic@") { format!("panics in the release build: {}", w["what"].as_str().unwrap_or("")) } else { format!("[release build] {}", w["what"].as_str().unwrap_or("")) };
        report(class, *n, w, &what);
    }
    for (_, prof, c) in &crash_classes {
        let class = c["class"].as_str().unwrap_or("crash");
        let class = if class.contains('[') { class.to_string() } else { format!("{class}[{prof}]") };
        run.violation(&class, &format!("child process died: {}", c["witness"]["death"].as_str().unwrap_or("")), c["witness"].clone());
    }
    let g = |m: &Merged, k: &str| m.counters.get(k).copied().unwrap_or(0);
    let evaluations = g(chk, "constructor_calls") + g(chk, "subject_calls") + g(rel, "constructor_calls") + g(rel, "subject_calls");
    let quick_bound = "stdpath: {0,1,2,3,62,63}^3 segment triples x every prefix length 0..=n+1 x 2 fills + all 256 (CurrINF,CurrHF); header: path types {0,2,3,4,5,255,1 x reduced cube} x 256 DT/DL,ST/SL nibble pairs x HdrLen {consistent,+1,-1,0,9,255} x boundary truncations b,b+-1 x 2 fills; l4: 64 header shapes x NextHdr{17,202,0,255} x {UDP length 0,7,8,real,65535 | SCMP type 1,2,4,5,6,128,129,130,131,0,255} x 3 body sizes x PayloadLen{0,7,8,real,real+1,65535} x truncations x 2 fills, and every prefix of every upper-layer body through all payload view types; seq: all mutator sequences of length <= 2 on the representative buffers";
    let thorough_bound = "stdpath: full 2^18 segment triples x boundary truncations (every prefix on the reduced cube) x 2 fills + all 256 (CurrINF,CurrHF); header: full 2^18 triples x 16 address-length nibble pairs (all 256 type/length nibble pairs for the reduced cube and the other path types) x HdrLen variants x boundary truncations x 2 fills; l4 as quick; seq: sequences <= 3 on path/payload views, <= 2 on packet/header views";
    // a few of the enumerated cases written out (first, middle and last case of every space)
    for space in SPACES {
        let n = tables.total(space);
        for case in [0, n / 2, n.saturating_sub(1)] {
            if case < n {
                run.sample(12, || json!({"space": space.name(), "case": case, "shape": tables.describe(space, case), "per_case": "every truncation / fill / constructor / accessor and mutator sequence of the space is applied to this shape"}));
            }
        }
    }
    run.finish(
        "exploration",
        json!({
            "evaluations": evaluations,
            "constructor_calls": {"relcheck": g(chk, "constructor_calls"), "release": g(rel, "constructor_calls")},
            "accessor_and_mutator_calls": {"relcheck": g(chk, "subject_calls"), "release": g(rel, "subject_calls")},
            "buffers_generated_per_profile": g(chk, "buffers"),
            "cases_per_profile": g(chk, "cases"),
            "mutator_sequences_per_profile": g(chk, "mutator_sequences"),
            "single_mutator_applications_per_profile": g(chk, "mutator_applications"),
            "distinct_nontrivial": g(chk, "accepted_view_constructions_distinct"),
            "rule": "number of distinct (view type, shape case, truncation, fill) combinations whose try_from_slice ACCEPTED (each then went through the accessor sweeps); counted once per combination in the relcheck profile",
            "view_types": spaces::kind_names(),
            "catalogue_crosscheck": cat::CROSSCHECK,
            "exhaustive": complete,
            "spaces": per_space,
            "witnesses_per_violation_class": *counts.lock().unwrap(),
            "operations_skipped_after_their_crash_class_was_recorded": {"relcheck": chk.skipped, "release": rel.skipped},
            "bound": if thorough { thorough_bound } else { quick_bound },
        }),
        &[
            "bytes that do not influence a size computation come from two fills (all zero; a distinct high-bit pattern per field with timestamps near 2^32)",
            "unsafe fns are out of scope (property wording); safe fns are called with boundary arguments {0,1,2,3,62,63,64,255,usize::MAX, count-1, count, count+1}",
            "try_from_boxed inputs live on the heap: for them only the UB checks and the pointer-range oracle apply, not the guard pages",
            "the release twin is built by this check itself with `cargo build --release -p vp-wire` into the same target dir",
        ],
    )
}

// ------------------------------------------------------------------------------------------------
// replay
// ------------------------------------------------------------------------------------------------
fn replay(args: &vpc::Args, f: &Path) -> ! {
    let v = vpc::read_replay(f);
    let w = &v["witness"];
    let space = Space::from_name(w["space"].as_str().unwrap_or("")).unwrap_or_else(|| vpc::machinery_failure("replay: unknown space"));
    let case = w["case"].as_u64().unwrap_or(0);
    let profs = profiles();
    let scratch = PathBuf::from(format!("/root/scratch/b-wire/c02-replay-{}", std::process::id()));
    std::fs::create_dir_all(&scratch).ok();
    println!("replay of class {}: space={} case={} ({})", v["class"], space.name(), case, w["shape"]);
    let mut bad = false;
    for tier in [vpc::Tier::Quick, vpc::Tier::Thorough] {
        let tables = Tables::new(tier == vpc::Tier::Thorough);
        if case >= tables.total(space) || tables.describe(space, case) != w["shape"].as_str().unwrap_or("") {
            continue;
        }
        for p in &profs {
            let r = run_child(p, tier, space, case, case + 1, 1, &BTreeSet::new(), true, &scratch, 300);
            match r.status {
                Ok(res) => {
                    let fails = res["fails"].as_array().cloned().unwrap_or_default();
                    println!("[{}] case ran to completion, {} failing classes", p.name, fails.len());
                    for f in fails {
                        bad = true;
                        println!("   [{}] x{} at sub={} op={} : {}", f["class"].as_str().unwrap_or(""), f["count"], f["sub"], f["sig"].as_str().unwrap_or(""), f["what"].as_str().unwrap_or(""));
                    }
                }
                Err(d) => {
                    bad = true;
                    println!("[{}] child died: {d}\n   in flight: {:?}", p.name, r.in_flight);
                }
            }
        }
        break;
    }
    let _ = std::fs::remove_dir_all(&scratch);
    let _ = args;
    std::process::exit(if bad { 1 } else { 0 })
}
