//! C18 - signed control-plane messages verify iff authentic; RPC conversion is lossless.
//!
//! EXHAUSTIVE fault enumeration through the real code (`sciparse` segment / signed_message /
//! path RPC conversions):
//!  * `sig`     - every tamper of bounded signed segments (bit flips, entry permutations,
//!                truncations, duplications, splices, key-provider substitutions), each followed by
//!                `try_from_rpc` and `validate_signature` of every entry. Oracle: provenance records
//!                of spec-signed (seg.proto) entries.
//!  * `paths`   - `ScionPath::try_from_rpc(to_rpc(p)) == p` over paths with every subset of the
//!                metadata vectors populated; daemon::Path field/vector-length mutations.
//!  * `segrpc`  - PathSegment / AsEntry / HopField / PeerEntry field mutations (one and two at a time).
use std::collections::BTreeMap;

use p256::ecdsa::{SigningKey, VerifyingKey, signature::hazmat::PrehashSigner};
use prost::Message;
use sciparse::reexport::{p256, prost, protobuf as pb};
use serde_json::{Value, json};
use sha2::{Digest, Sha256};

use pb::{control_plane::v1 as cp, crypto::v1 as cr};

mod paths;
mod segrpc;
mod sig;

/// Number of ASes with keys: 0..=4 on path, 5 = peer AS.
pub const N_AS: usize = 6;

pub fn ia(i: usize) -> u64 {
    (1u64 << 48) | (0xff00_0000_0110 + i as u64)
}

/// Deterministic P-256 keys (no randomness anywhere in this check).
pub fn det_key(label: &str) -> SigningKey {
    for ctr in 0u32..64 {
        let d = Sha256::digest(format!("vp-signed/c18/{label}/{ctr}").as_bytes());
        if let Ok(k) = SigningKey::from_slice(&d) {
            return k;
        }
    }
    vpc::machinery_failure("cannot derive deterministic key")
}

pub struct World {
    pub sk: Vec<SigningKey>,
    pub vk: Vec<VerifyingKey>,
    pub kid: Vec<cp::VerificationKeyId>,
    pub kid_enc: Vec<Vec<u8>>,
    pub fresh: VerifyingKey,
}
impl World {
    pub fn new() -> World {
        let sk: Vec<SigningKey> = (0..N_AS).map(|i| det_key(&format!("as{i}"))).collect();
        let vk: Vec<VerifyingKey> = sk.iter().map(|k| *k.verifying_key()).collect();
        let kid: Vec<cp::VerificationKeyId> = (0..N_AS)
            .map(|i| cp::VerificationKeyId {
                isd_as: ia(i),
                subject_key_id: Sha256::digest(vk[i].to_sec1_bytes())[..20].to_vec(),
                trc_base: 1,
                trc_serial: 1,
            })
            .collect();
        let kid_enc = kid.iter().map(|k| k.encode_to_vec()).collect();
        World { sk, vk, kid, kid_enc, fresh: *det_key("fresh").verifying_key() }
    }
    /// Key lookup by key id (exact match of all four fields), independent of entry position.
    pub fn lookup(&self, enc: &[u8]) -> Result<usize, &'static str> {
        let k = cp::VerificationKeyId::decode(enc).map_err(|_| "malformed")?;
        self.kid.iter().position(|x| *x == k).ok_or("unknown")
    }
}

/// Reference signer written from seg.proto / signed.proto:
/// input = header_and_body || segment_info || (hb_0 || sig_0) || ... ; ECDSA-P256 over SHA-256, DER.
pub fn ref_sign(sk: &SigningKey, hb: &[u8], assoc: &[&[u8]]) -> Vec<u8> {
    let mut h = Sha256::new();
    h.update(hb);
    for a in assoc {
        h.update(a);
    }
    let d = h.finalize();
    let s: p256::ecdsa::Signature = sk.sign_prehash(&d).unwrap_or_else(|e| vpc::machinery_failure(&format!("reference sign failed: {e}")));
    s.to_der().as_bytes().to_vec()
}

pub fn ref_header(alg: i32, key_id: Vec<u8>, sign_ts: Option<i64>, adl: i32, metadata: Vec<u8>) -> cr::Header {
    cr::Header {
        signature_algorithm: alg,
        verification_key_id: key_id,
        timestamp: sign_ts.map(|s| sciparse::reexport::prost_types::Timestamp { seconds: s, nanos: 0 }),
        metadata,
        associated_data_length: adl,
    }
}

pub struct Finding {
    pub class: String,
    pub what: String,
    pub witness: Value,
}

/// Aggregate of a chunk of cases; merged sequentially in case order (deterministic output).
#[derive(Default)]
pub struct Agg {
    pub counts: BTreeMap<String, u64>,
    pub findings: Vec<Finding>,
    pub samples: Vec<Value>,
}
impl Agg {
    pub fn inc(&mut self, k: &str) {
        self.add(k, 1);
    }
    pub fn add(&mut self, k: &str, n: u64) {
        if let Some(v) = self.counts.get_mut(k) {
            *v += n;
        } else {
            self.counts.insert(k.to_string(), n);
        }
    }
    pub fn find(&mut self, class: impl Into<String>, what: impl Into<String>, witness: Value) {
        // keep memory bounded: the first few witnesses per class per chunk are enough (counts go to `counts`)
        let class = class.into();
        self.add(&format!("finding:{class}"), 1);
        if self.findings.iter().filter(|f| f.class == class).count() < 1 {
            self.findings.push(Finding { class, what: what.into(), witness });
        }
    }
    pub fn merge(&mut self, o: Agg) {
        for (k, v) in o.counts {
            *self.counts.entry(k).or_default() += v;
        }
        for f in o.findings {
            if !self.findings.iter().any(|g| g.class == f.class) {
                self.findings.push(f);
            }
        }
        for s in o.samples {
            if self.samples.len() < 6 {
                self.samples.push(s);
            }
        }
    }
    pub fn get(&self, k: &str) -> u64 {
        self.counts.get(k).copied().unwrap_or(0)
    }
}

/// `panic@<crate-relative file>:<line>` with sandbox/registry prefixes removed.
pub fn panic_class() -> String {
    let loc = vpc::last_panic_location();
    let short = if let Some(i) = loc.find("/crates/") {
        &loc[i + 1..]
    } else if let Some(i) = loc.find("registry/src/") {
        let r = &loc[i + "registry/src/".len()..];
        r.split_once('/').map(|x| x.1).unwrap_or(r)
    } else if let Some(r) = loc.strip_prefix("/rustc/") {
        r.split_once('/').map(|x| x.1).unwrap_or(r)
    } else {
        &loc
    };
    format!("panic@{short}")
}

pub fn run(args: &vpc::Args) -> ! {
    vpc::quiet_panics();
    let world = World::new();
    if let Some(p) = &args.replay {
        replay(&world, p);
    }
    let run = vpc::Run::new(args);
    let thorough = run.tier == vpc::Tier::Thorough;

    let mut total = Agg::default();
    let t0 = run.elapsed_s();
    let sig_bound = sig::enumerate(&world, thorough, &mut total);
    let t1 = run.elapsed_s();
    let path_bound = paths::enumerate(thorough, &mut total);
    let t2 = run.elapsed_s();
    let seg_bound = segrpc::enumerate(&world, thorough, &mut total);
    let t3 = run.elapsed_s();

    for (k, v) in &total.counts {
        if !k.starts_with("finding:") && !k.starts_with("n:") {
            run.outcome_n(k, *v);
        }
    }
    for s in &total.samples {
        let s = s.clone();
        run.sample(6, move || s);
    }
    let mut classes = vec![];
    for f in total.findings {
        let n = total.counts.get(&format!("finding:{}", f.class)).copied().unwrap_or(1);
        classes.push(json!({"class": f.class, "witnesses": n}));
        run.violation(&f.class, &format!("{} ({n} witnesses this run)", f.what), f.witness);
    }
    let n = |k: &str| total.counts.get(k).copied().unwrap_or(0);
    let coverage = json!({
        "evaluations": n("n:validations"),
        "validations_in_tamper_enumeration": n("n:sig-validations"),
        "tamper_cases": n("n:sig-cases"),
        "conversions": n("n:conversions"),
        "distinct_nontrivial": n("n:sig-nontrivial"),
        "rule": "distinct (base segment, tamper kind, tamper position) cases whose per-entry verdict vector (or conversion result) differs from the all-valid vector of the untampered segment - measured by running the real validate_signature",
        "nontrivial_by_kind": total.counts.iter().filter(|(k, _)| k.starts_with("n:nontrivial:")).map(|(k, v)| (k["n:nontrivial:".len()..].to_string(), *v)).collect::<BTreeMap<_, _>>(),
        "cases_by_kind": total.counts.iter().filter(|(k, _)| k.starts_with("n:cases:")).map(|(k, v)| (k["n:cases:".len()..].to_string(), *v)).collect::<BTreeMap<_, _>>(),
        "segment_info_flips_without_semantic_change": n("n:info-flip-noop"),
        "path_roundtrip_cases": n("n:path-rt-cases"),
        "path_rpc_mutation_cases": n("n:path-rpc-cases"),
        "segment_rpc_mutation_cases": n("n:seg-rpc-cases"),
        "violation_class_witness_counts": classes,
        "exhaustive": true,
        "bound": format!("{sig_bound}; {path_bound}; {seg_bound}"),
        "wall_s_by_part": {"sig": t1 - t0, "paths": t2 - t1, "segrpc": t3 - t2},
    });
    run.finish(
        "fault_enumeration",
        coverage,
        &[
            "ECDSA-P256/SHA-256 (p256 crate) is assumed unforgeable; only the enumerated edits are decided",
            "authentic = signed by the harness' reference signer written from seg.proto (input = header_and_body || segment_info || previous header_and_body||signature ...); the library's own signer is cross-checked byte for byte against it",
            "ECDSA (r, n-s) malleability is probed and reported as an outcome, not judged (not a single-bit edit)",
            "AsEntry.extensions / unsigned_extensions are documented as unsupported and kept empty",
            "proto3 scalars: 'absent' and 0 have the same encoding",
        ],
    )
}

fn replay(world: &World, p: &std::path::Path) -> ! {
    let v = vpc::read_replay(p);
    let w = &v["witness"];
    let part = w["part"].as_str().unwrap_or("");
    let mut agg = Agg::default();
    match part {
        "sig" => sig::replay(world, w, &mut agg),
        "path-rt" | "path-rpc" => paths::replay(w, &mut agg),
        "seg-rpc" => segrpc::replay(world, w, &mut agg),
        o => vpc::machinery_failure(&format!("unknown replay part {o:?}")),
    }
    for (k, n) in &agg.counts {
        println!("  outcome {k} = {n}");
    }
    if agg.findings.is_empty() {
        println!("REPLAY property=C18 class={} : not reproduced (no violation on this tree)", v["class"].as_str().unwrap_or("?"));
        std::process::exit(0)
    }
    for f in &agg.findings {
        println!("REPLAY-VIOLATION property=C18 [{}] {}", f.class, f.what);
    }
    std::process::exit(1)
}
