mod c18;

fn main() {
    let args = vpc::Args::parse();
    match args.prop.as_str() {
        "C18" => c18::run(&args),
        p => vpc::machinery_failure(&format!("property {p} is not served by this binary")),
    }
}
