//! Part `segrpc`: totality of `SignedPathSegment::try_from_rpc` (and of validation of whatever it
//! returns) over field values / presence / vector lengths of PathSegment, AsEntry, signature Header,
//! AsEntrySignedBody, HopEntry, HopField, PeerEntry - one and two fields at a time. Every mutated
//! entry is re-signed by the reference signer, so validation runs to the end.
use std::sync::Arc;

use prost::Message;
use rayon::prelude::*;
use sciparse::{reexport::prost, segment::SignedPathSegment};
use serde_json::{Value, json};

use super::{Agg, World, cp, cr, ia, panic_class, ref_header, ref_sign, sig};

#[derive(Clone)]
struct EntryModel {
    key_idx: usize,
    signed_present: bool,
    unsigned_present: bool,
    alg: i32,
    key_id: Vec<u8>,
    sign_ts: Option<i64>,
    /// None = the true associated data length
    adl: Option<i32>,
    metadata: Vec<u8>,
    body: cp::AsEntrySignedBody,
    header_raw: Option<Vec<u8>>,
    body_raw: Option<Vec<u8>>,
    hb_raw: Option<Vec<u8>>,
    sig_raw: Option<Vec<u8>>,
}
#[derive(Clone)]
struct SegModel {
    ts: i64,
    seg_id: u32,
    info_raw: Option<Vec<u8>>,
    entries: Vec<EntryModel>,
}

fn base_model(w: &World, n: usize, peers: usize) -> SegModel {
    let mut agg = Agg::default();
    let ctx = sig::build_base(w, sig::BaseSpec { n, peers, flavour: 0 }, &mut agg);
    let m = &ctx.msgs[0];
    let info = cp::SegmentInformation::decode(&m.segment_info[..]).unwrap();
    SegModel {
        ts: info.timestamp,
        seg_id: info.segment_id,
        info_raw: None,
        entries: m
            .as_entries
            .iter()
            .enumerate()
            .map(|(i, e)| {
                let hb = cr::HeaderAndBodyInternal::decode(&e.signed.as_ref().unwrap().header_and_body[..]).unwrap();
                let h = cr::Header::decode(&hb.header[..]).unwrap();
                EntryModel {
                    key_idx: i,
                    signed_present: true,
                    unsigned_present: false,
                    alg: h.signature_algorithm,
                    key_id: h.verification_key_id,
                    sign_ts: h.timestamp.map(|t| t.seconds),
                    adl: None,
                    metadata: vec![],
                    body: cp::AsEntrySignedBody::decode(&hb.body[..]).unwrap(),
                    header_raw: None,
                    body_raw: None,
                    hb_raw: None,
                    sig_raw: None,
                }
            })
            .collect(),
    }
}

fn build(w: &World, m: &SegModel) -> cp::PathSegment {
    let info = m.info_raw.clone().unwrap_or_else(|| cp::SegmentInformation { timestamp: m.ts, segment_id: m.seg_id }.encode_to_vec());
    let mut out: Vec<cp::AsEntry> = vec![];
    for e in &m.entries {
        let mut assoc: Vec<&[u8]> = vec![&info];
        for p in &out {
            if let Some(s) = &p.signed {
                assoc.push(&s.header_and_body);
                assoc.push(&s.signature);
            }
        }
        let true_adl: usize = assoc.iter().map(|a| a.len()).sum();
        let header = e.header_raw.clone().unwrap_or_else(|| ref_header(e.alg, e.key_id.clone(), e.sign_ts, e.adl.unwrap_or(true_adl as i32), e.metadata.clone()).encode_to_vec());
        let body = e.body_raw.clone().unwrap_or_else(|| e.body.encode_to_vec());
        let hb = e.hb_raw.clone().unwrap_or_else(|| cr::HeaderAndBodyInternal { header, body }.encode_to_vec());
        let sg = e.sig_raw.clone().unwrap_or_else(|| ref_sign(&w.sk[e.key_idx], &hb, &assoc));
        out.push(cp::AsEntry {
            signed: e.signed_present.then_some(cr::SignedMessage { header_and_body: hb, signature: sg }),
            unsigned: e.unsigned_present.then(cp::PathSegmentUnsignedExtensions::default),
        });
    }
    cp::PathSegment { segment_info: info, as_entries: out }
}

#[derive(Clone)]
struct FieldMut {
    field: String,
    value: String,
    f: Arc<dyn Fn(&mut SegModel) + Send + Sync>,
}
fn vals<T: Clone + std::fmt::Debug + Send + Sync + 'static>(out: &mut Vec<FieldMut>, field: &str, vs: Vec<T>, set: impl Fn(&mut SegModel, T) + Send + Sync + Clone + 'static) {
    for v in vs {
        let set = set.clone();
        let vv = v.clone();
        out.push(FieldMut { field: field.to_string(), value: format!("{v:?}"), f: Arc::new(move |c| set(c, vv.clone())) });
    }
}

const U16R_64: [u64; 4] = [0, 65535, 65536, u64::MAX];
const U16R_32: [u32; 4] = [0, 65535, 65536, u32::MAX];

fn hop_field_muts(o: &mut Vec<FieldMut>, name: &str, get: impl Fn(&mut SegModel) -> Option<&mut cp::HopField> + Send + Sync + Clone + 'static) {
    let g = get.clone();
    vals(o, &format!("{name}.ingress"), U16R_64.to_vec(), move |m, v| {
        if let Some(h) = g(m) {
            h.ingress = v
        }
    });
    let g = get.clone();
    vals(o, &format!("{name}.egress"), U16R_64.to_vec(), move |m, v| {
        if let Some(h) = g(m) {
            h.egress = v
        }
    });
    let g = get.clone();
    vals(o, &format!("{name}.exp_time"), vec![0u32, 255, 256, u32::MAX], move |m, v| {
        if let Some(h) = g(m) {
            h.exp_time = v
        }
    });
    let g = get.clone();
    vals(o, &format!("{name}.mac.len"), vec![0usize, 5, 6, 7], move |m, v| {
        if let Some(h) = g(m) {
            h.mac.resize(v, 0xee)
        }
    });
}

fn field_muts(w: &World, n: usize, peers: usize) -> Vec<FieldMut> {
    let mut o = vec![];
    vals(&mut o, "info.timestamp", vec![0i64, u32::MAX as i64, u32::MAX as i64 + 1, i64::MAX, -1, i64::MIN], |m, v| m.ts = v);
    vals(&mut o, "info.segment_id", U16R_32.to_vec(), |m, v| m.seg_id = v);
    vals(&mut o, "info.raw", vec![vec![], vec![0x08], vec![0xff; 3], vec![0x08, 0x01, 0x18, 0x05]], |m, v| m.info_raw = Some(v));
    let mut lens = vec![0, n - 1, n, n + 1];
    lens.dedup();
    vals(&mut o, "as_entries.len", lens, |m, l| {
        let fill = m.entries.last().cloned();
        if let Some(f) = fill {
            m.entries.resize(l, f)
        }
    });
    let mut which = vec![0usize, n - 1];
    which.dedup();
    for e in which {
        let p = format!("entry[{e}]");
        macro_rules! ent {
            ($field:expr, $vals:expr, |$x:ident, $v:ident| $body:expr) => {
                vals(&mut o, &format!("{p}.{}", $field), $vals, move |m: &mut SegModel, $v| {
                    if let Some($x) = m.entries.get_mut(e) {
                        $body
                    }
                })
            };
        }
        ent!("signed", vec![false], |x, v| x.signed_present = v);
        ent!("unsigned", vec![true], |x, v| x.unsigned_present = v);
        ent!("header_and_body.raw", vec![vec![], vec![0xffu8; 4], vec![0x0a, 0x7f]], |x, v| x.hb_raw = Some(v));
        ent!("header.raw", vec![vec![], vec![0xffu8; 4]], |x, v| x.header_raw = Some(v));
        ent!("body.raw", vec![vec![], vec![0xffu8; 4], vec![0x1a, 0x00]], |x, v| x.body_raw = Some(v));
        ent!("signature.raw", vec![vec![], vec![0x30u8, 0x00], vec![0u8; 64]], |x, v| x.sig_raw = Some(v));
        ent!("header.signature_algorithm", vec![0i32, 2, 3, 4, -1, i32::MAX], |x, v| x.alg = v);
        ent!("header.verification_key_id", vec![vec![], vec![0xffu8; 3], w.kid_enc[5].clone()], |x, v| x.key_id = v);
        ent!("header.timestamp", vec![None, Some(i64::MAX), Some(i64::MIN)], |x, v| x.sign_ts = v);
        ent!("header.associated_data_length", vec![0i32, -1, i32::MAX, i32::MIN], |x, v| x.adl = Some(v));
        ent!("header.metadata", vec![vec![0xffu8; 2]], |x, v| x.metadata = v);
        ent!("body.isd_as", vec![0u64, 1 << 48, u64::MAX], |x, v| x.body.isd_as = v);
        ent!("body.next_isd_as", vec![0u64, u64::MAX], |x, v| x.body.next_isd_as = v);
        ent!("body.mtu", vec![0u32, u32::MAX], |x, v| x.body.mtu = v);
        ent!("body.hop_entry", vec![()], |x, _v| x.body.hop_entry = None);
        ent!("body.extensions", vec![false, true], |x, v| {
            x.body.extensions = Some(cp::PathSegmentExtensions { hidden_path: v.then_some(cp::HiddenPathExtension { is_hidden: true }), ..Default::default() })
        });
        ent!("body.hop_entry.ingress_mtu", U16R_32.to_vec(), |x, v| {
            if let Some(h) = x.body.hop_entry.as_mut() {
                h.ingress_mtu = v
            }
        });
        ent!("body.hop_entry.hop_field", vec![()], |x, _v| {
            if let Some(h) = x.body.hop_entry.as_mut() {
                h.hop_field = None
            }
        });
        hop_field_muts(&mut o, &format!("{p}.body.hop_entry.hop_field"), move |m| m.entries.get_mut(e)?.body.hop_entry.as_mut()?.hop_field.as_mut());
        let mut pl = vec![0, peers.saturating_sub(1), peers, peers + 1];
        pl.dedup();
        ent!("body.peer_entries.len", pl, |x, l| {
            let fill = x.body.peer_entries.last().cloned().unwrap_or(cp::PeerEntry { peer_isd_as: ia(5), peer_interface: 1, peer_mtu: 1, hop_field: Some(cp::HopField { ingress: 1, egress: 2, exp_time: 3, mac: vec![0; 6] }) });
            x.body.peer_entries.resize(l, fill)
        });
        if peers > 0 {
            ent!("body.peer[0].peer_isd_as", vec![0u64, u64::MAX], |x, v| {
                if let Some(p) = x.body.peer_entries.first_mut() {
                    p.peer_isd_as = v
                }
            });
            ent!("body.peer[0].peer_interface", U16R_64.to_vec(), |x, v| {
                if let Some(p) = x.body.peer_entries.first_mut() {
                    p.peer_interface = v
                }
            });
            ent!("body.peer[0].peer_mtu", U16R_32.to_vec(), |x, v| {
                if let Some(p) = x.body.peer_entries.first_mut() {
                    p.peer_mtu = v
                }
            });
            ent!("body.peer[0].hop_field", vec![()], |x, _v| {
                if let Some(p) = x.body.peer_entries.first_mut() {
                    p.hop_field = None
                }
            });
            hop_field_muts(&mut o, &format!("{p}.body.peer[0].hop_field"), move |m| m.entries.get_mut(e)?.body.peer_entries.first_mut()?.hop_field.as_mut());
        }
    }
    o
}

/// Fields of the message whose value does not fit the type the segment model gives them (written from
/// seg.proto / the SCION header: 32-bit timestamp, 16-bit segment id / interface ids / MTUs, 8-bit
/// expiry, 6-byte MAC). Only fields that are present and decodable are listed.
fn out_of_range_fields(msg: &cp::PathSegment) -> Vec<String> {
    let mut o = vec![];
    if let Ok(i) = cp::SegmentInformation::decode(&msg.segment_info[..]) {
        if u32::try_from(i.timestamp).is_err() {
            o.push("segment_info.timestamp".to_string());
        }
        if i.segment_id > u16::MAX as u32 {
            o.push("segment_info.segment_id".to_string());
        }
    }
    let hf = |name: &str, h: &cp::HopField, o: &mut Vec<String>| {
        if h.ingress > u16::MAX as u64 {
            o.push(format!("{name}.ingress"));
        }
        if h.egress > u16::MAX as u64 {
            o.push(format!("{name}.egress"));
        }
        if h.exp_time > u8::MAX as u32 {
            o.push(format!("{name}.exp_time"));
        }
        if h.mac.len() != 6 {
            o.push(format!("{name}.mac.len"));
        }
    };
    for e in &msg.as_entries {
        let Some(s) = &e.signed else { continue };
        let Ok(hb) = cr::HeaderAndBodyInternal::decode(&s.header_and_body[..]) else { continue };
        let Ok(b) = cp::AsEntrySignedBody::decode(&hb.body[..]) else { continue };
        if let Some(he) = &b.hop_entry {
            if he.ingress_mtu > u16::MAX as u32 {
                o.push("hop_entry.ingress_mtu".to_string());
            }
            if let Some(h) = &he.hop_field {
                hf("hop_entry.hop_field", h, &mut o);
            }
        }
        for p in &b.peer_entries {
            if p.peer_interface > u16::MAX as u64 {
                o.push("peer_entry.peer_interface".to_string());
            }
            if p.peer_mtu > u16::MAX as u32 {
                o.push("peer_entry.peer_mtu".to_string());
            }
            if let Some(h) = &p.hop_field {
                hf("peer_entry.hop_field", h, &mut o);
            }
        }
    }
    o.sort();
    o.dedup();
    o
}

fn run_msg(w: &World, msg: &cp::PathSegment, fields: &[String], agg: &mut Agg, verbose: bool) {
    agg.inc("n:seg-rpc-cases");
    agg.inc("n:conversions");
    let wit = || json!({"part":"seg-rpc","mutated":fields,"msg_hex":vpc::hex(&msg.encode_to_vec())});
    let seg = match vpc::catch(|| SignedPathSegment::try_from_rpc(msg.clone())) {
        Err(m) => {
            agg.inc("seg-rpc:panic");
            return agg.find(panic_class(), format!("SignedPathSegment::try_from_rpc panicked ({m}) on a PathSegment with mutated {fields:?}"), wit());
        }
        Ok(Err(e)) => {
            agg.inc("seg-rpc:Err");
            if verbose {
                println!("  try_from_rpc = Err({e})");
            }
            return;
        }
        Ok(Ok(s)) => s,
    };
    agg.inc("seg-rpc:Ok");
    // lossless: a value that does not fit the target type must be an error, never a truncated value
    let oor = out_of_range_fields(msg);
    if verbose {
        println!("  try_from_rpc = Ok; out-of-range fields in the message: {oor:?}; converted info {:?}", seg.info());
    }
    for f in &oor {
        agg.find(format!("rpc-out-of-range-field-accepted:{f}"), format!("PathSegment whose {f} does not fit the target type converts Ok (value silently changed) - mutated {fields:?}"), wit());
    }
    if oor.is_empty() {
        agg.inc("seg-rpc:Ok-all-fields-in-range");
    }
    agg.inc("n:conversions");
    match vpc::catch(|| SignedPathSegment::try_from_rpc(seg.clone().into_rpc())) {
        Ok(Ok(b)) if b == seg => agg.inc("seg-rpc:reencode-equal"),
        Ok(Ok(_)) => agg.find("segment-roundtrip-differs", format!("try_from_rpc(into_rpc(s)) != s for s = try_from_rpc(PathSegment with mutated {fields:?})"), wit()),
        Ok(Err(e)) => agg.find("segment-roundtrip-err", format!("try_from_rpc(into_rpc(s)) = Err({e}) for s = try_from_rpc(PathSegment with mutated {fields:?})"), wit()),
        Err(m) => agg.find(panic_class(), format!("into_rpc/try_from_rpc panicked ({m}) (mutated {fields:?})"), wit()),
    }
    // validation of whatever was converted never panics
    let prov = sig::provider(w, None);
    for (k, e) in seg.as_entries.iter().enumerate() {
        agg.inc("n:validations");
        match vpc::catch(|| e.validate_signature(&prov, &seg)) {
            Ok(Ok(())) => agg.inc("seg-rpc:validate:Valid"),
            Ok(Err(er)) => {
                agg.inc("seg-rpc:validate:Err");
                if verbose {
                    println!("  entry {k}: Err({er})");
                }
            }
            Err(m) => agg.find(panic_class(), format!("validate_signature panicked ({m}) on entry {k} of a converted PathSegment with mutated {fields:?}"), wit()),
        }
    }
    // Accessors of the converted value. NOT part of C18 (the property speaks of conversion and
    // validation only): recorded as an outcome, never as a violation.
    if vpc::catch(|| (seg.id(), seg.full_id(), seg.to_string(), seg.expires_earliest(), seg.expires_latest())).is_err() {
        agg.inc(&format!("beyond-C18:accessor-of-converted-segment-panics:{}", panic_class()));
        if verbose {
            println!("  (beyond C18) id/Display/expires_* panicked at {}", vpc::last_panic_location());
        }
    }
}

pub fn enumerate(w: &World, thorough: bool, total: &mut Agg) -> String {
    let bases: &[(usize, usize)] = if thorough { &[(1, 1), (2, 1), (3, 2)] } else { &[(2, 1)] };
    let mut nf = 0;
    for &(n, peers) in bases {
        let base = base_model(w, n, peers);
        let mut a = Agg::default();
        run_msg(w, &build(w, &base), &[], &mut a, false);
        if a.get("seg-rpc:validate:Valid") != n as u64 {
            a.find("model-built-segment-not-valid", "the unmutated model-built segment does not convert/validate", json!({"part":"seg-rpc","mutated":[],"msg_hex":vpc::hex(&build(w, &base).encode_to_vec())}));
        }
        total.merge(a);
        let fm = field_muts(w, n, peers);
        nf = fm.len();
        let mut cases: Vec<(usize, Option<usize>)> = (0..fm.len()).map(|i| (i, None)).collect();
        for i in 0..fm.len() {
            for j in i + 1..fm.len() {
                if fm[i].field != fm[j].field {
                    cases.push((i, Some(j)));
                }
            }
        }
        let parts: Vec<Agg> = cases
            .par_chunks(64)
            .map(|ch| {
                let mut a = Agg::default();
                for (i, j) in ch {
                    let mut c = base.clone();
                    let mut names = vec![format!("{}={}", fm[*i].field, fm[*i].value)];
                    (fm[*i].f)(&mut c);
                    if let Some(j) = j {
                        (fm[*j].f)(&mut c);
                        names.push(format!("{}={}", fm[*j].field, fm[*j].value));
                    }
                    run_msg(w, &build(w, &c), &names, &mut a, false);
                }
                a
            })
            .collect();
        for p in parts {
            total.merge(p);
        }
    }
    format!(
        "segrpc: PathSegment mutations on (entries,peers)={bases:?}: {nf} (field,value) settings over segment info, as_entries length, signed/unsigned presence, raw header_and_body/header/body/signature, signature header fields, AsEntrySignedBody, HopEntry, HopField, PeerEntry (values 0=absent/max in range/first out of range/type max; lengths 0,exp-1,exp,exp+1; MAC length 0,5,6,7), ALL singles and ALL pairs of different fields, re-signed by the reference signer, converted, re-encoded, every entry validated"
    )
}

pub fn replay(w: &World, wit: &Value, agg: &mut Agg) {
    let msg = cp::PathSegment::decode(&vpc::unhex(wit["msg_hex"].as_str().unwrap_or(""))[..]).unwrap_or_else(|e| vpc::machinery_failure(&format!("bad msg_hex: {e}")));
    let names: Vec<String> = wit["mutated"].as_array().map(|a| a.iter().map(|x| x.as_str().unwrap_or("").to_string()).collect()).unwrap_or_default();
    println!("replaying PathSegment with mutated {names:?}");
    run_msg(w, &msg, &names, agg, true);
}
