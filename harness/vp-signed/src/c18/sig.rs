//! Part `sig`: exhaustive tamper enumeration of signed path segments.
use rayon::prelude::*;
use serde::{Deserialize, Serialize};
use serde_json::{Value, json};
use sha2::{Digest, Sha256};

use p256::ecdsa::VerifyingKey;
use prost::Message;
use sciparse::{
    dataplane_path::standard::types::HopFieldMac,
    identifier::isd_asn::IsdAsn,
    reexport::{p256, prost},
    segment::{AsEntry, HopEntry, PeerEntry, SegmentHopField, SignedPathSegment},
    signed_message::ValidateError,
};

use super::{Agg, N_AS, World, cp, cr, ia, panic_class, ref_header, ref_sign};

/// Which base segments exist for one (n, peers): variant 0 is the one being tampered, 1..3 only
/// donate entries for splices.
pub const N_VARIANTS: usize = 4;

#[derive(Clone, Copy, Debug, Serialize, Deserialize, PartialEq, Eq)]
pub struct BaseSpec {
    pub n: usize,
    pub peers: usize,
    /// index into INFO_FLAVOURS (0 = the default info values, 1 = 1-byte varints, 2.. = varint boundary values)
    pub flavour: u8,
}

/// (timestamp, segment id) of the base segment per flavour. Segment ids cover every varint shape of a
/// 16-bit value (1, 2 and 3 bytes; 0x4000.. puts value bits 14.. into a third byte whose spare bits are
/// multiples of 65536), timestamps cover 1-byte and 5-byte varints incl. a full top byte.
pub const INFO_FLAVOURS: [(u32, u16); 7] = [
    (1_700_000_000, 0x1234),
    (5, 7),
    (u32::MAX, 0x3fff),
    (0x8000_0000, 0x4000),
    (0x1000_0000, 0x8001),
    (1_700_000_000, 0xffff),
    (0x0fff_ffff, 0x007f),
];

struct VariantParams {
    ts: u32,
    seg_id: u16,
    sign_ts: u32,
    if_off: u16,
}
fn variant_params(spec: &BaseSpec, v: usize) -> VariantParams {
    let (ts, seg_id) = INFO_FLAVOURS[spec.flavour as usize % INFO_FLAVOURS.len()];
    match v {
        0 => VariantParams { ts, seg_id, sign_ts: ts.wrapping_add(100), if_off: 0 },
        // other segment info (hence other MACs, other entry values)
        1 => VariantParams { ts: ts ^ 0x0e10, seg_id: seg_id ^ 0x0505, sign_ts: ts.wrapping_add(100), if_off: 0 },
        // same info, same entry values, signed again later (other signature-header timestamp)
        2 => VariantParams { ts, seg_id, sign_ts: ts.wrapping_add(200), if_off: 0 },
        // same info, other interfaces (other entry values)
        _ => VariantParams { ts, seg_id, sign_ts: ts.wrapping_add(100), if_off: 100 },
    }
}

fn unsigned_entries(n: usize, peers: usize, if_off: u16) -> Vec<AsEntry> {
    (0..n)
        .map(|i| {
            let egress = if i + 1 == n { 0 } else { if_off + 10 * i as u16 + 1 };
            AsEntry {
                local: IsdAsn::from_u64(ia(i)),
                next: IsdAsn::from_u64(if i + 1 < n { ia(i + 1) } else { 0 }),
                mtu: 1400 + i as u32,
                hop_entry: HopEntry {
                    ingress_mtu: if i == 0 { 0 } else { 1472 },
                    hop_field: SegmentHopField { expiration_units: 63, cons_ingress: if i == 0 { 0 } else { if_off + 10 * i as u16 }, cons_egress: egress, mac: HopFieldMac([0; 6]) },
                },
                peer_entries: (0..peers)
                    .map(|p| PeerEntry {
                        peer: IsdAsn::from_u64(ia(5)),
                        peer_interface: 500 + 10 * i as u16 + p as u16,
                        peer_mtu: 1300,
                        hop_field: SegmentHopField { expiration_units: 63, cons_ingress: if_off + 10 * i as u16 + 5 + p as u16, cons_egress: egress, mac: HopFieldMac([0; 6]) },
                    })
                    .collect(),
                extensions: vec![],
                unsigned_extensions: vec![],
            }
        })
        .collect()
}

/// AsEntrySignedBody written from seg.proto (not via the library's `signature()`).
pub fn ref_body(e: &AsEntry) -> cp::AsEntrySignedBody {
    let hf = |h: &SegmentHopField| cp::HopField { ingress: h.cons_ingress as u64, egress: h.cons_egress as u64, exp_time: h.expiration_units as u32, mac: h.mac.0.to_vec() };
    cp::AsEntrySignedBody {
        isd_as: e.local.to_u64(),
        next_isd_as: e.next.to_u64(),
        hop_entry: Some(cp::HopEntry { hop_field: Some(hf(&e.hop_entry.hop_field)), ingress_mtu: e.hop_entry.ingress_mtu as u32 }),
        peer_entries: e.peer_entries.iter().map(|p| cp::PeerEntry { peer_isd_as: p.peer.to_u64(), peer_interface: p.peer_interface as u64, peer_mtu: p.peer_mtu as u32, hop_field: Some(hf(&p.hop_field)) }).collect(),
        mtu: e.mtu,
        extensions: None,
    }
}

/// One authentic signed entry together with what it was signed over.
pub struct Rec {
    hb: Vec<u8>,
    sig: Vec<u8>,
    info: (u32, u16),
    prefix: [u8; 32],
    key_idx: usize,
}

fn prefix_digest(entries: &[cp::AsEntry]) -> [u8; 32] {
    let mut h = Sha256::new();
    for e in entries {
        let (hb, sg): (&[u8], &[u8]) = match &e.signed {
            Some(s) => (&s.header_and_body, &s.signature),
            None => (&[], &[]),
        };
        h.update((hb.len() as u64).to_be_bytes());
        h.update(hb);
        h.update((sg.len() as u64).to_be_bytes());
        h.update(sg);
    }
    h.finalize().into()
}

pub struct BaseCtx {
    pub spec: BaseSpec,
    /// reference-signed RPC messages of all variants
    pub msgs: Vec<cp::PathSegment>,
    pub recs: Vec<Rec>,
    pub info0: (u32, u16),
}

/// Builds the variants with the library (MACs + library signatures) and, independently, with the
/// reference signer; cross-checks them byte for byte; checks the segment round trip.
pub fn build_base(w: &World, spec: BaseSpec, agg: &mut Agg) -> BaseCtx {
    let mut msgs = vec![];
    let mut recs = vec![];
    for v in 0..N_VARIANTS {
        let vp = variant_params(&spec, v);
        let entries = unsigned_entries(spec.n, spec.peers, vp.if_off);
        let lib = vpc::catch(|| {
            let mut seg = SignedPathSegment::empty(vp.ts, vp.seg_id);
            for (i, e) in entries.iter().enumerate() {
                let mac_key = [i as u8 + 1; 16];
                seg.add_entry(e.clone(), &w.sk[i], Some(w.kid[i].clone()), &mac_key, vp.sign_ts).map_err(|e| e.to_string())?;
            }
            Ok::<_, String>(seg)
        });
        let lib = match lib {
            Ok(Ok(s)) => s,
            Ok(Err(e)) => vpc::machinery_failure(&format!("library signing failed: {e}")),
            Err(m) => {
                agg.find(panic_class(), format!("library signing panicked: {m}"), json!({"part":"sig","base":spec,"tamper":{"kind":"none"}}));
                vpc::machinery_failure("library signing panicked")
            }
        };
        // reference message from the entry values (with the library-computed MACs)
        let info_bytes = cp::SegmentInformation { timestamp: vp.ts as i64, segment_id: vp.seg_id as u32 }.encode_to_vec();
        let mut rentries: Vec<cp::AsEntry> = vec![];
        for (i, se) in lib.as_entries.iter().enumerate() {
            let mut assoc: Vec<&[u8]> = vec![&info_bytes];
            for p in &rentries {
                let s = p.signed.as_ref().unwrap();
                assoc.push(&s.header_and_body);
                assoc.push(&s.signature);
            }
            let adl: usize = assoc.iter().map(|a| a.len()).sum();
            let header = ref_header(cr::SignatureAlgorithm::EcdsaWithSha256 as i32, w.kid_enc[i].clone(), Some(vp.sign_ts as i64), adl as i32, vec![]);
            let hb = cr::HeaderAndBodyInternal { header: header.encode_to_vec(), body: ref_body(se.entry()).encode_to_vec() }.encode_to_vec();
            let sg = ref_sign(&w.sk[i], &hb, &assoc);
            recs.push(Rec { hb: hb.clone(), sig: sg.clone(), info: (vp.ts, vp.seg_id), prefix: prefix_digest(&rentries), key_idx: i });
            rentries.push(cp::AsEntry { signed: Some(cr::SignedMessage { header_and_body: hb, signature: sg }), unsigned: None });
        }
        let rmsg = cp::PathSegment { segment_info: info_bytes, as_entries: rentries };
        // library signer == reference signer (deterministic RFC 6979 ECDSA)?
        let lmsg = lib.clone().into_rpc();
        if lmsg == rmsg {
            agg.inc("base:library-signature-equals-spec-signature");
        } else {
            let at = lmsg.as_entries.iter().zip(&rmsg.as_entries).position(|(a, b)| a != b);
            agg.find(
                "library-signed-segment-differs-from-spec-signed",
                format!("SignedPathSegment::add_entry + into_rpc does not produce the seg.proto signature input/bytes (first differing entry {at:?}, info equal: {})", lmsg.segment_info == rmsg.segment_info),
                json!({"part":"sig","base":spec,"variant":v,"tamper":{"kind":"none"},"lib_hex":vpc::hex(&lmsg.encode_to_vec()),"ref_hex":vpc::hex(&rmsg.encode_to_vec())}),
            );
        }
        // round trip law for segments
        agg.inc("n:conversions");
        match vpc::catch(|| SignedPathSegment::try_from_rpc(lmsg.clone())) {
            Ok(Ok(back)) if back == lib => agg.inc("segment-roundtrip:equal"),
            Ok(Ok(_)) => agg.find("segment-roundtrip-differs", "try_from_rpc(into_rpc(x)) != x for a library-built signed segment", json!({"part":"sig","base":spec,"variant":v,"tamper":{"kind":"none"}})),
            Ok(Err(e)) => agg.find("segment-roundtrip-err", format!("try_from_rpc(into_rpc(x)) = Err({e})"), json!({"part":"sig","base":spec,"variant":v,"tamper":{"kind":"none"}})),
            Err(m) => agg.find(panic_class(), format!("try_from_rpc panicked on into_rpc(x): {m}"), json!({"part":"sig","base":spec,"variant":v,"tamper":{"kind":"none"}})),
        }
        msgs.push(rmsg);
    }
    let vp0 = variant_params(&spec, 0);
    BaseCtx { spec, msgs, recs, info0: (vp0.ts, vp0.seg_id) }
}

#[derive(Clone, Copy, Debug, Serialize, Deserialize, PartialEq, Eq)]
#[serde(tag = "how", rename_all = "kebab-case")]
pub enum KeySub {
    Other { as_idx: usize },
    Fresh,
    Error,
}

#[derive(Clone, Debug, Serialize, Deserialize, PartialEq, Eq)]
#[serde(tag = "kind", rename_all = "kebab-case")]
pub enum Tamper {
    None,
    /// XOR `mask` into byte `byte` of entry `entry`'s header_and_body (single-bit flips = one-bit masks)
    XorHb { entry: usize, byte: usize, mask: u8 },
    XorSig { entry: usize, byte: usize, mask: u8 },
    XorInfo { byte: usize, mask: u8 },
    Swap { i: usize, j: usize },
    Rotate { by: usize },
    Delete { at: usize },
    Truncate { len: usize },
    Dup { src: usize, at: usize },
    SpliceReplace { variant: usize, src: usize, at: usize },
    SpliceInsert { variant: usize, src: usize, at: usize },
    Key { entry: usize, sub: KeySub },
    MalleateS { entry: usize },
}
impl Tamper {
    fn kind(&self, n: usize) -> &'static str {
        let bit = |m: u8| m.count_ones() == 1;
        match self {
            Tamper::None => "untampered",
            Tamper::XorHb { mask, .. } => if bit(*mask) { "flip-header_and_body" } else { "bytesub-header_and_body" },
            Tamper::XorSig { mask, .. } => if bit(*mask) { "flip-signature" } else { "bytesub-signature" },
            Tamper::XorInfo { mask, .. } => if bit(*mask) { "flip-segment_info" } else { "bytesub-segment_info" },
            Tamper::Swap { .. } => "swap",
            Tamper::Rotate { .. } => "rotate",
            Tamper::Delete { at } => if *at == 0 && n > 1 { "delete-front" } else if *at + 1 == n { "delete-back" } else { "delete-middle" },
            Tamper::Truncate { .. } => "truncate-back",
            Tamper::Dup { .. } => "duplicate",
            Tamper::SpliceReplace { .. } => "splice-replace",
            Tamper::SpliceInsert { .. } => "splice-insert",
            Tamper::Key { sub: KeySub::Other { .. }, .. } => "key-of-other-as",
            Tamper::Key { sub: KeySub::Fresh, .. } => "key-fresh",
            Tamper::Key { sub: KeySub::Error, .. } => "key-provider-error",
            Tamper::MalleateS { .. } => "malleate-s",
        }
    }
}

fn signed_mut(m: &mut cp::PathSegment, e: usize) -> &mut cr::SignedMessage {
    m.as_entries[e].signed.as_mut().unwrap()
}

/// (r, n-s) of a DER signature.
fn malleate(der: &[u8]) -> Option<Vec<u8>> {
    let s = p256::ecdsa::Signature::from_der(der).ok()?;
    let neg = -*s.s();
    let m = p256::ecdsa::Signature::from_scalars(s.r().to_bytes(), neg.to_bytes()).ok()?;
    Some(m.to_der().as_bytes().to_vec())
}

pub fn apply(t: &Tamper, ctx: &BaseCtx) -> cp::PathSegment {
    let mut m = ctx.msgs[0].clone();
    match *t {
        Tamper::None | Tamper::Key { .. } => {}
        Tamper::XorHb { entry, byte, mask } => signed_mut(&mut m, entry).header_and_body[byte] ^= mask,
        Tamper::XorSig { entry, byte, mask } => signed_mut(&mut m, entry).signature[byte] ^= mask,
        Tamper::XorInfo { byte, mask } => m.segment_info[byte] ^= mask,
        Tamper::Swap { i, j } => m.as_entries.swap(i, j),
        Tamper::Rotate { by } => m.as_entries.rotate_left(by),
        Tamper::Delete { at } => {
            m.as_entries.remove(at);
        }
        Tamper::Truncate { len } => m.as_entries.truncate(len),
        Tamper::Dup { src, at } => {
            let e = m.as_entries[src].clone();
            m.as_entries.insert(at, e);
        }
        Tamper::SpliceReplace { variant, src, at } => m.as_entries[at] = ctx.msgs[variant].as_entries[src].clone(),
        Tamper::SpliceInsert { variant, src, at } => m.as_entries.insert(at, ctx.msgs[variant].as_entries[src].clone()),
        Tamper::MalleateS { entry } => {
            let s = signed_mut(&mut m, entry);
            s.signature = malleate(&s.signature).unwrap_or_else(|| vpc::machinery_failure("cannot malleate base signature"));
        }
    }
    m
}

/// All tampers of one base. `masks`: XOR masks applied to every byte (8 one-bit masks or all 255).
pub fn tampers(ctx: &BaseCtx, all_masks: bool, info_only: bool) -> Vec<Tamper> {
    if info_only {
        let masks: Vec<u8> = if all_masks { (1..=255u8).collect() } else { (0..8).map(|b| 1u8 << b).collect() };
        let mut out = vec![Tamper::None];
        for byte in 0..ctx.msgs[0].segment_info.len() {
            for &mask in &masks {
                out.push(Tamper::XorInfo { byte, mask });
            }
        }
        return out;
    }
    let n = ctx.spec.n;
    let m = &ctx.msgs[0];
    let masks: Vec<u8> = if all_masks { (1..=255u8).collect() } else { (0..8).map(|b| 1u8 << b).collect() };
    let mut out = vec![Tamper::None];
    for e in 0..n {
        let s = m.as_entries[e].signed.as_ref().unwrap();
        for byte in 0..s.header_and_body.len() {
            for &mask in &masks {
                out.push(Tamper::XorHb { entry: e, byte, mask });
            }
        }
        for byte in 0..s.signature.len() {
            for &mask in &masks {
                out.push(Tamper::XorSig { entry: e, byte, mask });
            }
        }
    }
    for byte in 0..m.segment_info.len() {
        for &mask in &masks {
            out.push(Tamper::XorInfo { byte, mask });
        }
    }
    for i in 0..n {
        for j in i + 1..n {
            out.push(Tamper::Swap { i, j });
        }
    }
    for by in 1..n {
        out.push(Tamper::Rotate { by });
    }
    for at in 0..n {
        out.push(Tamper::Delete { at });
    }
    for len in 0..n {
        out.push(Tamper::Truncate { len });
    }
    for src in 0..n {
        for at in 0..=n {
            out.push(Tamper::Dup { src, at });
        }
    }
    for variant in 1..N_VARIANTS {
        for src in 0..n {
            for at in 0..n {
                out.push(Tamper::SpliceReplace { variant, src, at });
            }
            for at in 0..=n {
                out.push(Tamper::SpliceInsert { variant, src, at });
            }
        }
    }
    for entry in 0..n {
        for as_idx in 0..N_AS {
            if as_idx != entry {
                out.push(Tamper::Key { entry, sub: KeySub::Other { as_idx } });
            }
        }
        out.push(Tamper::Key { entry, sub: KeySub::Fresh });
        out.push(Tamper::Key { entry, sub: KeySub::Error });
        out.push(Tamper::MalleateS { entry });
    }
    out
}

fn err_name(e: &ValidateError) -> &'static str {
    match e {
        ValidateError::InvalidHeaderAndBody => "InvalidHeaderAndBody",
        ValidateError::InvalidHeader => "InvalidHeader",
        ValidateError::InvalidValidationKeyId => "InvalidValidationKeyId",
        ValidateError::InvalidAssociatedDataLength { .. } => "InvalidAssociatedDataLength",
        ValidateError::InvalidDigestAlgorithm => "InvalidDigestAlgorithm",
        ValidateError::InvalidBody => "InvalidBody",
        ValidateError::InvalidMetadata => "InvalidMetadata",
        ValidateError::KeyMissing(_) => "KeyMissing",
        ValidateError::SignatureMalformed => "SignatureMalformed",
        ValidateError::SignatureVerificationFailed(_) => "SignatureVerificationFailed",
    }
}

/// The verifier's key provider: resolves by key id; `sub` substitutes what is returned for AS `target`.
pub fn provider<'a>(w: &'a World, sub: Option<(usize, KeySub)>) -> impl Fn(&[u8]) -> Result<VerifyingKey, ValidateError> + 'a {
    move |enc: &[u8]| {
        let idx = match w.lookup(enc) {
            Ok(i) => i,
            Err("malformed") => return Err(ValidateError::InvalidValidationKeyId),
            Err(_) => return Err(ValidateError::KeyMissing("unknown key id".into())),
        };
        match sub {
            Some((target, KeySub::Other { as_idx })) if target == idx => Ok(w.vk[as_idx]),
            Some((target, KeySub::Fresh)) if target == idx => Ok(w.fresh),
            Some((target, KeySub::Error)) if target == idx => Err(ValidateError::KeyMissing("trust store error".into())),
            _ => Ok(w.vk[idx]),
        }
    }
}

#[derive(Debug, Clone, PartialEq, Eq)]
pub enum Verdict {
    Valid,
    Err(&'static str),
    Panic(String),
}

fn decode_info(raw: &[u8]) -> Option<(u32, u16)> {
    let i = cp::SegmentInformation::decode(raw).ok()?;
    Some((u32::try_from(i.timestamp).ok()?, u16::try_from(i.segment_id).ok()?))
}

/// Oracle: entry k is expected to validate iff it is byte for byte an authentic record whose signing
/// context (segment info as decoded, all preceding signed entries, resolved key) is the present one.
fn expected(ctx: &BaseCtx, m: &cp::PathSegment, sub: Option<(usize, KeySub)>) -> Vec<bool> {
    let info = decode_info(&m.segment_info);
    (0..m.as_entries.len())
        .map(|k| {
            let Some(s) = &m.as_entries[k].signed else { return false };
            let pd = prefix_digest(&m.as_entries[..k]);
            ctx.recs.iter().any(|r| r.hb == s.header_and_body && r.sig == s.signature && Some(r.info) == info && r.prefix == pd && !matches!(sub, Some((t, _)) if t == r.key_idx))
        })
        .collect()
}

fn sig_relation(orig: &[u8], new: &[u8]) -> String {
    use p256::ecdsa::Signature;
    match (Signature::from_der(orig), Signature::from_der(new)) {
        (Ok(a), Ok(b)) => {
            if a == b {
                "other DER bytes decode to the SAME (r,s): non-canonical DER accepted".into()
            } else if a.r().to_bytes() == b.r().to_bytes() && (-*a.s()).to_bytes() == b.s().to_bytes() {
                "(r, n-s): ECDSA malleability".into()
            } else {
                "a different (r,s) verifies: unexpected".into()
            }
        }
        _ => "tampered signature is not valid DER yet was accepted".into(),
    }
}

pub fn run_case(w: &World, ctx: &BaseCtx, t: &Tamper, agg: &mut Agg, verbose: bool) {
    let n = ctx.spec.n;
    let kind = t.kind(n);
    let m = apply(t, ctx);
    let sub = match t {
        Tamper::Key { entry, sub } => Some((*entry, *sub)),
        _ => None,
    };
    let exp = expected(ctx, &m, sub);
    let wit = || json!({"part":"sig","base":ctx.spec,"tamper":t,"msg_hex":vpc::hex(&m.encode_to_vec())});
    agg.inc("n:sig-cases");
    agg.inc(&format!("n:cases:{kind}"));
    agg.inc("n:conversions");
    if matches!(t, Tamper::XorInfo { .. }) && decode_info(&m.segment_info) == Some(ctx.info0) {
        agg.inc("n:info-flip-noop");
    }
    let seg = match vpc::catch(|| SignedPathSegment::try_from_rpc(m.clone())) {
        Ok(Ok(s)) => s,
        Ok(Err(e)) => {
            agg.inc("convert:Err");
            agg.inc("n:sig-nontrivial");
            agg.inc(&format!("n:nontrivial:{kind}"));
            if verbose {
                println!("  try_from_rpc = Err({e}); expected verdicts {exp:?}");
            }
            // acceptable iff something was tampered (some entry not expected valid) - never for authentic input
            if exp.iter().all(|x| *x) {
                agg.find(format!("authentic-segment-rejected-at-conversion:{kind}"), format!("every entry is authentic in its context, yet try_from_rpc = Err({e})"), wit());
            }
            return;
        }
        Err(msg) => {
            agg.inc("convert:panic");
            agg.find(panic_class(), format!("try_from_rpc panicked ({msg}) on tamper {kind}"), wit());
            return;
        }
    };
    agg.inc("convert:Ok");
    // re-encode law on every converted (also tampered) segment
    match vpc::catch(|| SignedPathSegment::try_from_rpc(seg.clone().into_rpc())) {
        Ok(Ok(b)) if b == seg => {}
        Ok(_) => agg.find("segment-roundtrip-differs", format!("try_from_rpc(into_rpc(s)) != s for s converted from a tampered message ({kind})"), wit()),
        Err(msg) => agg.find(panic_class(), format!("into_rpc/try_from_rpc panicked ({msg})"), wit()),
    }
    let prov = provider(w, sub);
    let mut verdicts = vec![];
    for e in &seg.as_entries {
        agg.inc("n:validations");
        agg.inc("n:sig-validations");
        let v = match vpc::catch(|| e.validate_signature(&prov, &seg)) {
            Ok(Ok(())) => Verdict::Valid,
            Ok(Err(er)) => Verdict::Err(err_name(&er)),
            Err(msg) => Verdict::Panic(format!("{msg} {}", panic_class())),
        };
        agg.inc(match &v {
            Verdict::Valid => "validate:Valid",
            Verdict::Err(n) => match *n {
                "InvalidHeaderAndBody" => "validate:InvalidHeaderAndBody",
                "InvalidHeader" => "validate:InvalidHeader",
                "InvalidValidationKeyId" => "validate:InvalidValidationKeyId",
                "InvalidAssociatedDataLength" => "validate:InvalidAssociatedDataLength",
                "InvalidDigestAlgorithm" => "validate:InvalidDigestAlgorithm",
                "KeyMissing" => "validate:KeyMissing",
                "SignatureMalformed" => "validate:SignatureMalformed",
                "SignatureVerificationFailed" => "validate:SignatureVerificationFailed",
                _ => "validate:other-error",
            },
            Verdict::Panic(_) => "validate:panic",
        });
        verdicts.push(v);
    }
    if verbose {
        println!("  tamper {t:?}\n  expected valid: {exp:?}\n  observed:       {verdicts:?}");
    }
    let nontrivial = verdicts.len() != n || verdicts.iter().any(|v| *v != Verdict::Valid);
    if nontrivial {
        agg.inc("n:sig-nontrivial");
        agg.inc(&format!("n:nontrivial:{kind}"));
    }
    if agg.samples.len() < 2 && nontrivial && !matches!(t, Tamper::XorHb { .. } | Tamper::XorSig { .. } | Tamper::XorInfo { .. }) {
        agg.samples.push(json!({"base": ctx.spec, "tamper": t, "expected_valid": exp, "observed": verdicts.iter().map(|v| format!("{v:?}")).collect::<Vec<_>>()}));
    }
    for (k, v) in verdicts.iter().enumerate() {
        let s = m.as_entries[k].signed.as_ref().unwrap();
        match (v, exp[k]) {
            (Verdict::Panic(p), _) => agg.find(panic_class(), format!("validate_signature panicked on entry {k}: {p}"), wit()),
            (Verdict::Valid, true) | (Verdict::Err(_), false) => {}
            (Verdict::Err(e), true) => agg.find(
                format!("authentic-entry-rejected:{kind}:{e}"),
                format!("entry {k} of {} is byte-identical to a spec-signed entry, follows exactly the entries and segment info it was signed over and the provider returns its key, yet validate_signature = Err({e})", m.as_entries.len()),
                wit(),
            ),
            (Verdict::Valid, false) => {
                if let Tamper::MalleateS { entry } = t {
                    if *entry == k {
                        agg.inc("malleate-s:(r,n-s)-accepted-for-the-entry-itself");
                        continue;
                    }
                }
                // why was it accepted? an equal-valued entry earlier in the segment?
                let earlier_same_bytes = (0..k).find(|&i| m.as_entries[i].signed.as_ref() == Some(s));
                let earlier_same_value = (0..k).find(|&i| seg.as_entries[i].entry() == seg.as_entries[k].entry());
                let (class, why) = if let Some(i) = earlier_same_bytes {
                    ("duplicated-entry-validates-at-later-position".to_string(), format!("a byte-identical copy stands at position {i}; associated_data() takes 'entries before me' BY VALUE (take_while(e.entry != self)), so position {k} is checked against the prefix of position {i}"))
                } else if let Some(i) = earlier_same_value {
                    ("equal-valued-entry-validates-at-later-position".to_string(), format!("position {i} holds an entry with the same decoded AsEntry value (other signed bytes); associated_data() cuts the prefix there, so position {k} is checked against entries[..{i}] instead of entries[..{k}]"))
                } else if matches!(t, Tamper::XorSig { .. }) {
                    (format!("tampered-entry-validates:{kind}"), sig_relation(&ctx.msgs[0].as_entries[k].signed.as_ref().unwrap().signature, &s.signature))
                } else {
                    (format!("tampered-entry-validates:{kind}"), "no equal-valued earlier entry".to_string())
                };
                agg.find(class, format!("entry at position {k} of {} validates although it is not (bytes, segment info, ALL preceding entries, resolved key) what was signed: {why}", m.as_entries.len()), wit());
            }
        }
    }
}

fn base_specs(thorough: bool) -> Vec<(BaseSpec, bool, bool)> {
    // (spec, all 255 byte masks?, segment_info tampers only?)
    let mut v = vec![];
    let max_n = if thorough { 5 } else { 3 };
    let peer_set: &[usize] = if thorough { &[0, 1, 2] } else { &[0, 1] };
    for n in 1..=max_n {
        for &peers in peer_set {
            v.push((BaseSpec { n, peers, flavour: 0 }, false, false));
        }
    }
    if thorough {
        for n in 1..=5 {
            v.push((BaseSpec { n, peers: 1, flavour: 1 }, false, false));
        }
        // every single-byte substitution (all 255 XOR masks per byte)
        for n in 1..=3 {
            v.push((BaseSpec { n, peers: 1, flavour: 0 }, true, false));
        }
    } else {
        v.push((BaseSpec { n: 2, peers: 1, flavour: 1 }, false, false));
    }
    // every (timestamp, segment id) varint shape: the segment_info tampers (quick: bit flips on 2
    // entries; thorough: all byte substitutions, and the full tamper set on 2 entries)
    for flavour in 1..INFO_FLAVOURS.len() as u8 {
        v.push((BaseSpec { n: 2, peers: 0, flavour }, thorough, true));
        if thorough {
            v.push((BaseSpec { n: 5, peers: 1, flavour }, false, true));
            if flavour > 1 {
                v.push((BaseSpec { n: 2, peers: 1, flavour }, false, false));
            }
        }
    }
    v
}

pub fn enumerate(w: &World, thorough: bool, total: &mut Agg) -> String {
    let specs = base_specs(thorough);
    for (spec, all_masks, info_only) in &specs {
        let ctx = build_base(w, *spec, total);
        let ts = tampers(&ctx, *all_masks, *info_only);
        let parts: Vec<Agg> = ts
            .par_chunks(128)
            .map(|chunk| {
                let mut a = Agg::default();
                for t in chunk {
                    run_case(w, &ctx, t, &mut a, false);
                }
                a
            })
            .collect();
        for p in parts {
            total.merge(p);
        }
    }
    format!(
        "sig: base segments n=1..{} entries x peers {} (+ small-varint info flavour{}; + ALL segment_info flips on 2-entry segments for every (timestamp, segment id) varint shape: ids 7,0x7f,0x3fff,0x4000,0x8001,0xffff, timestamps 5,0x0fffffff,0x10000000,0x80000000,u32::MAX), 4 reference-signed variants each; ALL single-bit flips of every header_and_body / signature / segment_info, all swaps, rotations, deletions, back-truncations, duplications (every src x every position), splice replace/insert of every entry of 3 sibling segments at every position, key substitutions (every other AS key, fresh key, error) and (r,n-s) per entry; every entry validated after every tamper",
        if thorough { 5 } else { 3 },
        if thorough { "{0,1,2}" } else { "{0,1}" },
        if thorough { "; all 255 byte substitutions of every byte for n<=3" } else { "" },
    )
}

pub fn replay(w: &World, wit: &Value, agg: &mut Agg) {
    let spec: BaseSpec = serde_json::from_value(wit["base"].clone()).unwrap_or_else(|e| vpc::machinery_failure(&format!("bad base in replay: {e}")));
    let t: Tamper = serde_json::from_value(wit["tamper"].clone()).unwrap_or_else(|e| vpc::machinery_failure(&format!("bad tamper in replay: {e}")));
    println!("replaying sig case: base {spec:?}");
    let ctx = build_base(w, spec, agg);
    run_case(w, &ctx, &t, agg, true);
}
