//! Part `paths`: ScionPath <-> daemon::Path. Round trip over all metadata subsets; RPC totality over
//! field values / vector lengths (one and two at a time).
use std::{sync::Arc, time::Duration};

use prost::Message;
use rayon::prelude::*;
use sciparse::{
    core::view::View,
    dataplane_path::{standard::view::StandardPathView, view::ScionDpPathView},
    identifier::isd_asn::IsdAsn,
    path::{
        ScionPath,
        metadata::{
            InterfaceMetadata, PathMetadata,
            epic::EpicAuths,
            geo::GeoCoordinates,
            link::{LinkMeta, LinkType},
            path_interface::PathInterface,
        },
    },
    reexport::{prost, prost_types},
};
use serde::{Deserialize, Serialize};
use serde_json::{Value, json};
use vpc::refwire::{RHop, RInfo, RStdPath};

use super::{Agg, ia, panic_class, pb};
use pb::daemon::v1 as dm;

pub fn raw_path(h: usize, ts: u32) -> Vec<u8> {
    RStdPath {
        curr_inf: 0,
        curr_hf: 0,
        rsv: 0,
        seg_len: [h as u8, 0, 0],
        infos: vec![RInfo { flags: 1, rsv: 0, seg_id: 7, timestamp: ts }],
        hops: (0..h)
            .map(|i| RHop { flags: 0, exp_time: 63, cons_ingress: if i == 0 { 0 } else { 10 * i as u16 }, cons_egress: if i + 1 == h { 0 } else { 10 * i as u16 + 1 }, mac: [i as u8 + 1; 6] })
            .collect(),
    }
    .to_bytes()
}

/// interfaces of a path over `h` ASes: egress of AS i, ingress of AS i+1, ...
fn interfaces(h: usize) -> Vec<(u64, u16)> {
    let mut v = vec![];
    for i in 0..h - 1 {
        v.push((ia(i), 10 * i as u16 + 1));
        v.push((ia(i + 1), 10 * (i as u16 + 1)));
    }
    v
}

const M_LAT: u16 = 1;
const M_BW: u16 = 2;
const M_GEO: u16 = 4;
const M_LINK: u16 = 8;
const M_IHOPS: u16 = 16;
const M_NOTES: u16 = 32;
const M_EPIC: u16 = 64;
const M_NEXT: u16 = 128;
const MASK_NAMES: [(u16, &str); 8] = [(M_LAT, "latency"), (M_BW, "bandwidth"), (M_GEO, "geo"), (M_LINK, "link-type"), (M_IHOPS, "internal-hops"), (M_NOTES, "notes"), (M_EPIC, "epic-auth"), (M_NEXT, "next-hop")];

#[derive(Clone, Copy, Debug, Serialize, Deserialize, PartialEq, Eq)]
#[serde(rename_all = "kebab-case")]
pub enum MetaMode {
    /// metadata with the interface list; vectors per mask, in the only layout daemon.proto can carry
    /// (latency/bandwidth on interfaces 0..N-2, link type on even, internal hops on odd non-final interfaces)
    Full,
    /// `metadata: None`
    NoMetadata,
    /// `metadata: Some(..)` with `interfaces: None`
    NoInterfaces,
    /// the AS-local empty path
    Local,
}

#[derive(Clone, Copy, Debug, Serialize, Deserialize, PartialEq, Eq)]
pub struct PathSpec {
    pub h: usize,
    pub mask: u16,
    pub expiration: u64,
    pub mode: MetaMode,
}

fn dp_view(raw: &[u8]) -> ScionDpPathView {
    let (v, rest) = StandardPathView::try_from_slice(raw).unwrap_or_else(|e| vpc::machinery_failure(&format!("reference raw path rejected: {e}")));
    assert!(rest.is_empty());
    v.to_boxed().into()
}

pub fn build_path(s: &PathSpec) -> ScionPath {
    let src = IsdAsn::from_u64(ia(0));
    if s.mode == MetaMode::Local {
        return ScionPath::local(src).unwrap();
    }
    let dst = IsdAsn::from_u64(ia(s.h - 1));
    let ifs = interfaces(s.h);
    let n = ifs.len();
    let on = |m: u16| s.mask & m != 0;
    let im: Vec<InterfaceMetadata> = ifs
        .iter()
        .enumerate()
        .map(|(i, (a, id))| InterfaceMetadata {
            interface: PathInterface::new(IsdAsn::from_u64(*a), *id),
            geo_info: on(M_GEO).then(|| GeoCoordinates::new(47.0 + i as f32, 8.5 + i as f32, Some(format!("site {i}")))),
            latency: (on(M_LAT) && i + 1 < n).then(|| Duration::new(0, 1_000_000 * (i as u32 + 1))),
            bandwidth: (on(M_BW) && i + 1 < n).then_some(1000 * (i as u64 + 1)),
            link: if i % 2 == 0 {
                on(M_LINK).then(|| LinkMeta::Egress([LinkType::Direct, LinkType::MultiHop, LinkType::OpenNet][(i / 2) % 3]))
            } else if i + 1 < n {
                on(M_IHOPS).then_some(LinkMeta::Ingress { internal_hop_count: i as u32 + 1 })
            } else {
                None
            },
        })
        .collect();
    let meta = match s.mode {
        MetaMode::NoMetadata => None,
        MetaMode::NoInterfaces => Some(PathMetadata { expiration: s.expiration, mtu: 1400, interfaces: None, epic_auth: None, notes: None }),
        _ => Some(PathMetadata {
            expiration: s.expiration,
            mtu: 1400,
            interfaces: Some(im),
            epic_auth: on(M_EPIC).then(|| EpicAuths::new(vec![1; 16], vec![2; 16])),
            notes: on(M_NOTES).then(|| (0..s.h).map(|i| format!("note of AS {i}")).collect()),
        }),
    };
    ScionPath::new(src, dst, dp_view(&raw_path(s.h, 1_700_000_000)), meta, on(M_NEXT).then(|| "10.0.0.1:30041".parse().unwrap()))
}

fn feq(a: f32, b: f32) -> bool {
    a.to_bits() == b.to_bits()
}

/// Field-wise comparison (floats by bit pattern so that NaN == NaN). Returns "<verb>-<field>" labels.
pub fn path_diff(a: &ScionPath, b: &ScionPath) -> Vec<String> {
    let mut d: Vec<String> = vec![];
    let mut push = |s: String| {
        if !d.contains(&s) {
            d.push(s)
        }
    };
    fn verb<T>(a: &Option<T>, b: &Option<T>) -> &'static str {
        match (a, b) {
            (Some(_), None) => "loses",
            (None, Some(_)) => "invents",
            _ => "alters",
        }
    }
    if a.src_ia() != b.src_ia() || a.dst_ia() != b.dst_ia() {
        push("alters-src-dst".into());
    }
    if a.next_hop() != b.next_hop() {
        push(format!("{}-next-hop", verb(&a.next_hop(), &b.next_hop())));
    }
    {
        use sciparse::dataplane_path::view::ScionDpPathViewExt;
        if a.dp_path().as_slice() != b.dp_path().as_slice() {
            push("alters-raw-path".into());
        }
    }
    match (a.metadata(), b.metadata()) {
        (None, None) => {}
        (Some(_), None) => push("loses-metadata".into()),
        (None, Some(_)) => push("invents-metadata".into()),
        (Some(x), Some(y)) => {
            if x.expiration != y.expiration {
                push("alters-expiration".into());
            }
            if x.mtu != y.mtu {
                push("alters-mtu".into());
            }
            if x.epic_auth != y.epic_auth {
                push(format!("{}-epic-auth", verb(&x.epic_auth, &y.epic_auth)));
            }
            if x.notes != y.notes {
                push(format!("{}-notes", verb(&x.notes, &y.notes)));
            }
            match (&x.interfaces, &y.interfaces) {
                (None, None) => {}
                (Some(p), Some(q)) if p.len() == q.len() => {
                    for (m, n) in p.iter().zip(q) {
                        if m.interface != n.interface {
                            push("alters-interfaces".into());
                        }
                        if m.latency != n.latency {
                            push(format!("{}-latency", verb(&m.latency, &n.latency)));
                        }
                        if m.bandwidth != n.bandwidth {
                            push(format!("{}-bandwidth", verb(&m.bandwidth, &n.bandwidth)));
                        }
                        let geq = match (&m.geo_info, &n.geo_info) {
                            (None, None) => true,
                            (Some(g), Some(k)) => feq(g.latitude, k.latitude) && feq(g.longitude, k.longitude) && g.address == k.address,
                            _ => false,
                        };
                        if !geq {
                            push(format!("{}-geo", verb(&m.geo_info, &n.geo_info)));
                        }
                        if m.link != n.link {
                            let what = match m.link.or(n.link) {
                                Some(LinkMeta::Ingress { .. }) => "internal-hops",
                                _ => "link-type",
                            };
                            push(format!("{}-{what}", verb(&m.link, &n.link)));
                        }
                    }
                }
                (p, q) => push(format!("{}-interfaces", verb(p, q))),
            }
        }
    }
    let has_nan = |p: &ScionPath| p.metadata().and_then(|m| m.interfaces.as_ref()).is_some_and(|v| v.iter().any(|i| i.geo_info.as_ref().is_some_and(|g| g.latitude.is_nan() || g.longitude.is_nan())));
    if d.is_empty() && a != b && !has_nan(a) {
        d.push("alters-other".into());
    }
    d
}

/// The law `ScionPath::try_from_rpc(p.to_rpc()) == p`; findings are classed per differing field.
fn check_law(p: &ScionPath, wit: &dyn Fn() -> Value, ctxt: &str, agg: &mut Agg) {
    agg.inc("n:conversions");
    let rpc = match vpc::catch(|| p.to_rpc()) {
        Ok(r) => r,
        Err(m) => return agg.find(panic_class(), format!("ScionPath::to_rpc panicked ({m}) {ctxt}"), wit()),
    };
    let (src, dst) = (p.src_ia(), p.dst_ia());
    agg.inc("n:conversions");
    match vpc::catch(|| ScionPath::try_from_rpc(rpc.clone(), src, dst)) {
        Err(m) => agg.find(panic_class(), format!("ScionPath::try_from_rpc(to_rpc(p)) panicked ({m}) {ctxt}"), wit()),
        Ok(Err(e)) => {
            agg.inc("path-roundtrip:Err");
            let why = if p.metadata().and_then(|m| m.interfaces.as_ref()).is_none() { "without-interface-metadata" } else { "other" };
            agg.find(format!("path-roundtrip-err:{why}"), format!("try_from_rpc(to_rpc(p)) = Err({e}) {ctxt}"), wit())
        }
        Ok(Ok(q)) => {
            let d = path_diff(p, &q);
            if d.is_empty() {
                agg.inc("path-roundtrip:equal");
            } else {
                agg.inc("path-roundtrip:differs");
                for f in d {
                    agg.find(format!("path-roundtrip-{f}"), format!("try_from_rpc(to_rpc(p)) != p: round trip {f} {ctxt}"), wit());
                }
            }
        }
    }
}

fn run_rt(s: &PathSpec, agg: &mut Agg, verbose: bool) {
    agg.inc("n:path-rt-cases");
    let p = match vpc::catch(|| build_path(s)) {
        Ok(p) => p,
        Err(m) => return agg.find(panic_class(), format!("ScionPath::new panicked ({m})"), json!({"part":"path-rt","spec":s})),
    };
    let names: Vec<&str> = MASK_NAMES.iter().filter(|(m, _)| s.mask & m != 0).map(|x| x.1).collect();
    if verbose {
        println!("  path spec {s:?} populated: {names:?}\n  to_rpc = {:?}", vpc::catch(|| p.to_rpc()));
    }
    check_law(&p, &|| json!({"part":"path-rt","spec":s,"populated":names}), &format!("(constructed path over {} ASes, populated {names:?}, mode {:?}, expiration {})", s.h, s.mode, s.expiration), agg);
}

// ---------------------------------------------------------------------------------------------
// RPC totality

#[derive(Clone)]
pub struct PathCase {
    pub msg: dm::Path,
    pub src: u64,
    pub dst: u64,
}

/// Spec-shaped daemon::Path (vector lengths per the comments of daemon.proto), written by hand.
fn spec_rpc(h: usize) -> PathCase {
    let ifs = interfaces(h);
    let n = ifs.len();
    PathCase {
        msg: dm::Path {
            raw: raw_path(h, 1_700_000_000),
            interface: Some(dm::Interface { address: Some(dm::Underlay { address: "10.0.0.1:30041".into() }) }),
            interfaces: ifs.iter().map(|(a, id)| dm::PathInterface { isd_as: *a, id: *id as u64 }).collect(),
            mtu: 1400,
            expiration: Some(prost_types::Timestamp { seconds: 1_700_021_000, nanos: 0 }),
            latency: (0..n - 1).map(|i| prost_types::Duration { seconds: 0, nanos: 1_000_000 * (i as i32 + 1) }).collect(),
            bandwidth: (0..n - 1).map(|i| 1000 * (i as u64 + 1)).collect(),
            geo: (0..n).map(|i| dm::GeoCoordinates { latitude: 47.0 + i as f32, longitude: 8.5, address: format!("site {i}") }).collect(),
            link_type: (0..n / 2).map(|i| 1 + (i as i32 % 3)).collect(),
            internal_hops: (0..n / 2 - 1).map(|i| i as u32 + 2).collect(),
            notes: (0..h).map(|i| format!("note {i}")).collect(),
            epic_auths: Some(dm::EpicAuths { auth_phvf: vec![1; 16], auth_lhvf: vec![2; 16] }),
            discovery_information: Default::default(),
        },
        src: ia(0),
        dst: ia(h - 1),
    }
}

#[derive(Clone)]
struct FieldMut {
    field: String,
    value: String,
    f: Arc<dyn Fn(&mut PathCase) + Send + Sync>,
}

fn vals<T: Clone + std::fmt::Debug + Send + Sync + 'static>(out: &mut Vec<FieldMut>, field: &str, vs: Vec<T>, set: impl Fn(&mut PathCase, T) + Send + Sync + Clone + 'static) {
    for v in vs {
        let set = set.clone();
        let vv = v.clone();
        out.push(FieldMut { field: field.to_string(), value: format!("{v:?}"), f: Arc::new(move |c| set(c, vv.clone())) });
    }
}

/// resize a vector to `len` by truncating / repeating the last element (or a default)
fn resize<T: Clone + Default>(v: &mut Vec<T>, len: usize) {
    let fill = v.last().cloned().unwrap_or_default();
    v.resize(len, fill);
}

fn lens(expected: usize) -> Vec<usize> {
    let mut v = vec![0, expected.saturating_sub(1), expected, expected + 1];
    v.dedup();
    v
}

fn field_muts(h: usize) -> Vec<FieldMut> {
    let n = 2 * (h - 1);
    let base_raw = raw_path(h, 1_700_000_000);
    let mut o = vec![];
    let mut raws = vec![vec![], raw_path(h, 0), raw_path(h, u32::MAX), base_raw[..base_raw.len() - 1].to_vec(), [base_raw.clone(), vec![0]].concat(), vec![0; 4], raw_path(h + 1, 1_700_000_000)];
    raws.dedup();
    vals(&mut o, "raw", raws, |c, v| c.msg.raw = v);
    vals(
        &mut o,
        "interface",
        vec![None, Some(None), Some(Some("".to_string())), Some(Some("garbage".to_string())), Some(Some("[::1]:65535".to_string())), Some(Some("10.0.0.1:65536".to_string()))],
        |c, v: Option<Option<String>>| c.msg.interface = v.map(|a| dm::Interface { address: a.map(|address| dm::Underlay { address }) }),
    );
    vals(&mut o, "interfaces.len", [lens(n), vec![n + 2]].concat(), |c, l| resize(&mut c.msg.interfaces, l));
    for (name, idx) in [("interfaces[0]", 0usize), ("interfaces[last]", usize::MAX)] {
        vals(&mut o, &format!("{name}.id"), vec![0u64, 65535, 65536, u64::MAX], move |c, v| {
            let l = c.msg.interfaces.len();
            if let Some(i) = c.msg.interfaces.get_mut(idx.min(l.wrapping_sub(1))) {
                i.id = v
            }
        });
        vals(&mut o, &format!("{name}.isd_as"), vec![0u64, u64::MAX], move |c, v| {
            let l = c.msg.interfaces.len();
            if let Some(i) = c.msg.interfaces.get_mut(idx.min(l.wrapping_sub(1))) {
                i.isd_as = v
            }
        });
    }
    vals(&mut o, "mtu", vec![0u32, 65535, 65536, u32::MAX], |c, v| c.msg.mtu = v);
    vals(&mut o, "expiration", vec![None, Some(0i64), Some(u32::MAX as i64), Some(u32::MAX as i64 + 1), Some(i64::MAX), Some(-1), Some(i64::MIN)], |c, v: Option<i64>| {
        c.msg.expiration = v.map(|seconds| prost_types::Timestamp { seconds, nanos: c.msg.expiration.map(|t| t.nanos).unwrap_or(0) })
    });
    vals(&mut o, "expiration.nanos", vec![999_999_999i32, i32::MAX, -1, i32::MIN], |c, v| {
        if let Some(t) = c.msg.expiration.as_mut() {
            t.nanos = v
        }
    });
    vals(&mut o, "latency.len", lens(n - 1), |c, l| resize(&mut c.msg.latency, l));
    vals(&mut o, "latency[0].seconds", vec![0i64, -1, i64::MAX, i64::MIN, u32::MAX as i64 + 1], |c, v| {
        if let Some(x) = c.msg.latency.first_mut() {
            x.seconds = v
        }
    });
    vals(&mut o, "latency[0].nanos", vec![0i32, 999_999_999, 1_000_000_000, i32::MAX, -1, i32::MIN], |c, v| {
        if let Some(x) = c.msg.latency.first_mut() {
            x.nanos = v
        }
    });
    vals(&mut o, "latency[last].seconds", vec![-1i64, i64::MIN], |c, v| {
        if let Some(x) = c.msg.latency.last_mut() {
            x.seconds = v
        }
    });
    vals(&mut o, "bandwidth.len", lens(n - 1), |c, l| resize(&mut c.msg.bandwidth, l));
    vals(&mut o, "bandwidth[0]", vec![0u64, 1, u64::MAX], |c, v| {
        if let Some(x) = c.msg.bandwidth.first_mut() {
            *x = v
        }
    });
    vals(&mut o, "geo.len", lens(n), |c, l| resize(&mut c.msg.geo, l));
    vals(&mut o, "geo[0].latitude", vec![0f32, 90.0, f32::MAX, f32::INFINITY, f32::NEG_INFINITY, f32::NAN, -0.0], |c, v| {
        if let Some(x) = c.msg.geo.first_mut() {
            x.latitude = v
        }
    });
    vals(&mut o, "geo[0].zeroed-address", vec!["".to_string(), "x".to_string()], |c, v| {
        if let Some(x) = c.msg.geo.first_mut() {
            *x = dm::GeoCoordinates { latitude: 0.0, longitude: 0.0, address: v }
        }
    });
    vals(&mut o, "link_type.len", lens(n / 2), |c, l| resize(&mut c.msg.link_type, l));
    vals(&mut o, "link_type[0]", vec![0i32, 3, 4, 255, 256, -1, i32::MAX, i32::MIN], |c, v| {
        if let Some(x) = c.msg.link_type.first_mut() {
            *x = v
        }
    });
    vals(&mut o, "internal_hops.len", lens(n / 2 - 1), |c, l| resize(&mut c.msg.internal_hops, l));
    vals(&mut o, "internal_hops[0]", vec![0u32, u32::MAX], |c, v| {
        if let Some(x) = c.msg.internal_hops.first_mut() {
            *x = v
        }
    });
    vals(&mut o, "notes.len", lens(h), |c, l| resize(&mut c.msg.notes, l));
    vals(&mut o, "epic_auths", vec![None, Some(0usize), Some(16), Some(17)], |c, v: Option<usize>| c.msg.epic_auths = v.map(|l| dm::EpicAuths { auth_phvf: vec![7; l], auth_lhvf: vec![8; l] }));
    vals(&mut o, "discovery_information", vec![1usize], |c, _| {
        c.msg.discovery_information.insert(ia(0), dm::DiscoveryInformation { control_service_addresses: vec!["x".into()], discovery_service_addresses: vec![] });
    });
    let last = ia(h - 1);
    vals(&mut o, "src/dst", vec![(ia(0), ia(0)), (0u64, 0u64), (0, last), (ia(0), 0), (u64::MAX, last)], |c, (s, d)| {
        c.src = s;
        c.dst = d
    });
    o
}

fn run_rpc_case(c: &PathCase, fields: &[String], agg: &mut Agg, verbose: bool) {
    agg.inc("n:path-rpc-cases");
    agg.inc("n:conversions");
    let wit = || json!({"part":"path-rpc","mutated":fields,"msg_hex":vpc::hex(&c.msg.encode_to_vec()),"src":c.src,"dst":c.dst});
    let (src, dst) = (IsdAsn::from_u64(c.src), IsdAsn::from_u64(c.dst));
    match vpc::catch(|| ScionPath::try_from_rpc(c.msg.clone(), src, dst)) {
        Err(m) => {
            agg.inc("path-rpc:panic");
            if verbose {
                println!("  try_from_rpc panicked: {m} at {}", vpc::last_panic_location());
            }
            agg.find(panic_class(), format!("ScionPath::try_from_rpc panicked ({m}) on a daemon::Path with mutated {fields:?}"), wit())
        }
        Ok(Err(e)) => {
            agg.inc("path-rpc:Err");
            if verbose {
                println!("  try_from_rpc = Err({e})");
            }
        }
        Ok(Ok(p)) => {
            agg.inc("path-rpc:Ok");
            // lossless: fields that were consumed (metadata present) must fit their target type
            if p.metadata().is_some() {
                let mut oor = vec![];
                if c.msg.mtu > u16::MAX as u32 {
                    oor.push("path.mtu");
                }
                if c.msg.interfaces.iter().any(|i| i.id > u16::MAX as u64) {
                    oor.push("path.interfaces.id");
                }
                if c.msg.expiration.is_some_and(|t| t.seconds < 0) {
                    oor.push("path.expiration");
                }
                for f in oor {
                    agg.find(format!("rpc-out-of-range-field-accepted:{f}"), format!("daemon::Path whose {f} does not fit the target type converts Ok (value silently changed) - mutated {fields:?}"), wit());
                }
            }
            if verbose {
                println!("  try_from_rpc = Ok({p:?})");
            }
            check_law(&p, &wit, &format!("(p = try_from_rpc of a daemon::Path with mutated {fields:?})"), agg);
        }
    }
}

pub fn enumerate(thorough: bool, total: &mut Agg) -> String {
    // 1. round trip of constructed paths
    let mut specs = vec![PathSpec { h: 2, mask: 0, expiration: 0, mode: MetaMode::Local }];
    let hs: &[usize] = if thorough { &[2, 3, 4, 5] } else { &[2, 3, 4] };
    // ordered so that the first witness of a class is the smallest: by popcount of the mask, then h
    let mut masks: Vec<u16> = (0..256).collect();
    masks.sort_by_key(|m| (m.count_ones(), *m));
    for &mask in &masks {
        for &h in hs {
            specs.push(PathSpec { h, mask, expiration: 1_700_021_000, mode: MetaMode::Full });
        }
    }
    for &h in hs {
        for expiration in [0, i64::MAX as u64, i64::MAX as u64 + 1, u64::MAX] {
            specs.push(PathSpec { h, mask: 0, expiration, mode: MetaMode::Full });
        }
        specs.push(PathSpec { h, mask: 0, expiration: 1_700_021_000, mode: MetaMode::NoMetadata });
        specs.push(PathSpec { h, mask: 0, expiration: 1_700_021_000, mode: MetaMode::NoInterfaces });
    }
    let parts: Vec<Agg> = specs
        .par_chunks(16)
        .map(|ch| {
            let mut a = Agg::default();
            for s in ch {
                run_rt(s, &mut a, false);
            }
            a
        })
        .collect();
    for p in parts {
        total.merge(p);
    }
    // 2. RPC totality: one and two fields at a time
    let rpc_hs: &[usize] = if thorough { &[2, 3, 4] } else { &[3] };
    let mut nf = 0;
    for &h in rpc_hs {
        let base = spec_rpc(h);
        let mut a = Agg::default();
        run_rpc_case(&base, &[], &mut a, false);
        if a.get("path-rpc:Ok") != 1 {
            a.find("spec-shaped-daemon-path-rejected", "a daemon::Path with all vectors at their daemon.proto lengths is not converted", json!({"part":"path-rpc","mutated":[],"msg_hex":vpc::hex(&base.msg.encode_to_vec()),"src":base.src,"dst":base.dst}));
        }
        total.merge(a);
        let fm = field_muts(h);
        nf = fm.len();
        let mut cases: Vec<(usize, Option<usize>)> = (0..fm.len()).map(|i| (i, None)).collect();
        for i in 0..fm.len() {
            for j in i + 1..fm.len() {
                if fm[i].field != fm[j].field {
                    cases.push((i, Some(j)));
                }
            }
        }
        let parts: Vec<Agg> = cases
            .par_chunks(64)
            .map(|ch| {
                let mut a = Agg::default();
                for (i, j) in ch {
                    let mut c = base.clone();
                    let mut names = vec![format!("{}={}", fm[*i].field, fm[*i].value)];
                    (fm[*i].f)(&mut c);
                    if let Some(j) = j {
                        (fm[*j].f)(&mut c);
                        names.push(format!("{}={}", fm[*j].field, fm[*j].value));
                    }
                    run_rpc_case(&c, &names, &mut a, false);
                }
                a
            })
            .collect();
        for p in parts {
            total.merge(p);
        }
    }
    format!(
        "paths: round trip of constructed ScionPaths over h={hs:?} ASes x all 256 subsets of {{latency,bandwidth,geo,link type,internal hops,notes,epic auth,next hop}} + expiration {{0,i64::MAX,i64::MAX+1,u64::MAX}} + no-metadata/no-interfaces/local; daemon::Path mutations on h={rpc_hs:?}: {nf} (field,value) settings (values absent/0/max in range/first out of range/type max; vector lengths 0,exp-1,exp,exp+1), ALL singles and ALL pairs of different fields, each converted and, when Ok, re-encoded and re-converted"
    )
}

pub fn replay(w: &Value, agg: &mut Agg) {
    if w["part"] == "path-rt" {
        let s: PathSpec = serde_json::from_value(w["spec"].clone()).unwrap_or_else(|e| vpc::machinery_failure(&format!("bad spec: {e}")));
        run_rt(&s, agg, true);
    } else {
        let msg = dm::Path::decode(&vpc::unhex(w["msg_hex"].as_str().unwrap_or(""))[..]).unwrap_or_else(|e| vpc::machinery_failure(&format!("bad msg_hex: {e}")));
        let c = PathCase { msg, src: w["src"].as_u64().unwrap_or(0), dst: w["dst"].as_u64().unwrap_or(0) };
        let names: Vec<String> = w["mutated"].as_array().map(|a| a.iter().map(|x| x.as_str().unwrap_or("").to_string()).collect()).unwrap_or_default();
        println!("replaying daemon::Path {:?} src={:#x} dst={:#x}", c.msg, c.src, c.dst);
        run_rpc_case(&c, &names, agg, true);
    }
}
