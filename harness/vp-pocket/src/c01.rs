//! C01 - every path the SDK offers is forwardable end to end, and so is its reverse.
//!
//! For every topology of the R-topo enumerator (+ curated shapes): the REAL pocketscion
//! `ScionTopology` (real trust material, the per-AS forwarding keys of the `Topo`), the real
//! `SegmentRegistry::from_topology`, and for EVERY ordered AS pair the real path lookup
//! (`registry.paths(src, dst, valid_after, topo)` = real list-segment plan -> real
//! `to_path_segment`/`update_macs` -> real `combinator::combine`; for other hop-expiry units the same
//! three real functions are called with that unit). EVERY returned path is wrapped into a real
//! `ScionUdpPacket` and walked: each AS step is judged by R-router (`vpc::refrouter`) with that AS's
//! own key; the delivered packet's path is turned into a `ScionPath`, reversed with the real
//! `ScionPath::try_reverse`, rewrapped and walked back. The real simulator walks the same packets;
//! its verdicts are recorded, a disagreement on a path R-router accepts belongs to C13.
//!
//! Oracle: R-router delivers at dst (reply: at src); the traversed (AS, interface) pairs equal the
//! path's metadata interface list in order; step count = number of ASes on the path.
//! Completeness: if R-combine over the R-seg segments that the real registry also holds yields a
//! route for (src, dst), the lookup returns at least one path.
use std::{
    collections::{BTreeMap, BTreeSet},
    sync::Mutex,
};

use pocketscion::network::scion::{
    routing::{ScionNetworkTime, spec::SpecRoutingLogic},
    segment::registry::SegmentRegistry,
    simulator::ScionNetworkSim,
    topology::ScionTopology,
};
use rayon::prelude::*;
use sciparse::{
    address::socket_addr::ScionSocketAddr,
    core::{encode::WireEncode, view::View},
    dataplane_path::{standard::view::StandardPathView, view::{ScionDpPathView, ScionDpPathViewExt}},
    identifier::isd::Isd,
    packet::{model::ScionUdpPacket, view::ScionRawPacketView},
    path::{ScionPath, combinator::combine},
    segment::{Entry, SignedPathSegment},
};
use vpc::{
    Value, json, refcombine, refmac,
    refrouter::{self, RejectClass, Verdict},
    refseg,
    reftopo::{AsIdx, Topo},
    reftopo_enum,
    refwire::{RHeader, RPath},
};

use crate::bridge;

/// Smallest witness per class (same idea as in c13).
#[derive(Default)]
struct Findings(Mutex<BTreeMap<String, (usize, u64, String, Value)>>);
impl Findings {
    fn report(&self, class: &str, metric: usize, what: String, witness: &dyn Fn() -> Value) {
        let mut m = self.0.lock().unwrap();
        match m.get_mut(class) {
            Some(e) => {
                e.1 += 1;
                if metric < e.0 {
                    *e = (metric, e.1, what, witness());
                }
            }
            None => {
                m.insert(class.to_string(), (metric, 1, what, witness()));
            }
        }
    }
    fn flush(&self, run: &vpc::Run) {
        for (class, (_, n, what, w)) in self.0.lock().unwrap().iter() {
            run.violation(class, &format!("{what} [{n} occurrences in this run; smallest witness kept]"), w.clone());
        }
    }
}

#[derive(Default)]
struct Stats {
    outcomes: BTreeMap<String, u64>,
    states: u64,
    transitions: u64,
    walks: u64,
    paths: u64,
    pairs: u64,
}
impl Stats {
    fn bump(&mut self, k: &str) {
        *self.outcomes.entry(k.to_string()).or_default() += 1;
    }
    fn merge(&mut self, o: Stats) {
        for (k, v) in o.outcomes {
            *self.outcomes.entry(k).or_default() += v;
        }
        self.states += o.states;
        self.transitions += o.transitions;
        self.walks += o.walks;
        self.paths += o.paths;
        self.pairs += o.pairs;
    }
}

fn ia_str(t: &Topo, a: AsIdx) -> String {
    let n = &t.ases[a];
    format!("{}-{:x}:{:x}:{:x}", n.isd, (n.asn >> 32) & 0xffff, (n.asn >> 16) & 0xffff, n.asn & 0xffff)
}

/// The lookup pipeline of `SegmentRegistry::paths` with a chosen hop-expiry unit (same three real
/// functions, `paths()` itself hard-codes 255).
fn lookup(reg: &SegmentRegistry, real: &ScionTopology, t: &Topo, src: AsIdx, dst: AsIdx, valid_after: chrono::DateTime<chrono::Utc>, exp: u8) -> Result<(Vec<ScionPath>, Vec<SignedPathSegment>), String> {
    let (s, d) = (bridge::ia_of(t, src), bridge::ia_of(t, dst));
    let segs = reg.endhost_list_segments(s, s, d).map_err(|e| format!("{e:#}"))?;
    let ps = segs.into_path_segments(real, valid_after, 0, exp).map_err(|e| format!("{e:#}"))?;
    let cores: Vec<SignedPathSegment> = ps.iter_cores().cloned().collect();
    let non_cores: Vec<SignedPathSegment> = ps.iter_non_cores().cloned().collect();
    let all: Vec<SignedPathSegment> = cores.iter().chain(non_cores.iter()).cloned().collect();
    Ok((combine(s, d, cores, non_cores), all))
}

struct PathInfo {
    /// metadata interface list as (AS index, interface id)
    ifs: Vec<(AsIdx, u16)>,
    bytes: Vec<u8>,
}

fn wrap(t: &Topo, p: &ScionPath, src: AsIdx, dst: AsIdx) -> Result<Vec<u8>, String> {
    let sa: ScionSocketAddr = format!("[{},10.0.0.1]:40001", ia_str(t, src)).parse().map_err(|e| format!("src addr: {e:?}"))?;
    let da: ScionSocketAddr = format!("[{},10.0.0.2]:40002", ia_str(t, dst)).parse().map_err(|e| format!("dst addr: {e:?}"))?;
    ScionUdpPacket::new(sa, da, p.dp_path().to_model(), b"c01".to_vec()).try_encode_to_vec().map_err(|e| format!("encode: {e:?}"))
}

fn meta_ifs(t: &Topo, p: &ScionPath) -> Option<Vec<(AsIdx, u16)>> {
    let m = p.metadata()?;
    let l = m.interfaces.as_ref()?;
    let mut v = vec![];
    for i in l {
        v.push((t.as_by_ia(i.interface.isd_asn.0)?, i.interface.id));
    }
    Some(v)
}

/// Outcome of one R-router walk against the oracle.
struct Judged {
    ok: bool,
    /// class of the failure
    fail: Option<String>,
    detail: String,
    delivered_bytes: Option<Vec<u8>>,
    #[allow(dead_code)]
    steps: usize,
    saw_xover_noncore: bool,
    saw_peering: bool,
    segments: usize,
    trace: Vec<String>,
}

fn judge(t: &Topo, start: AsIdx, want_dst: AsIdx, bytes: &[u8], now: u32, ifs: &[(AsIdx, u16)], stats: &mut Stats) -> Judged {
    let visits = refrouter::walk(t, start, 0, bytes, now, &|_| false, 70);
    stats.walks += 1;
    stats.transitions += visits.len() as u64;
    stats.states += visits.len() as u64;
    let mut j = Judged { ok: false, fail: None, detail: String::new(), delivered_bytes: None, steps: visits.len(), saw_xover_noncore: false, saw_peering: false, segments: 0, trace: vec![] };
    if let Ok((h, _)) = RHeader::parse(bytes) {
        if let RPath::Std(p) = &h.path {
            j.segments = p.num_inf();
        }
    }
    let mut travelled: Vec<(AsIdx, u16)> = vec![];
    for v in &visits {
        j.saw_peering |= v.step.peering;
        if v.step.xover && !t.ases[v.at].core {
            j.saw_xover_noncore = true;
        }
        if v.ingress != 0 {
            travelled.push((v.at, v.ingress));
        }
        if let Some(e) = v.egress {
            travelled.push((v.at, e));
        }
        j.trace.push(format!("AS{}({}) in {} -> {}", v.at, ia_str(t, v.at), v.ingress, v.step.verdict.class_name()));
    }
    let last = visits.last().expect("at least one visit");
    match &last.step.verdict {
        Verdict::Delivered { at, packet } if *at == want_dst => {
            j.delivered_bytes = Some(packet.clone());
            if travelled != ifs {
                j.fail = Some("delivered-over-other-interfaces-than-metadata".into());
                j.detail = format!("travelled {travelled:?}, metadata lists {ifs:?}");
            } else if visits.len() != ifs.len() / 2 + 1 {
                j.fail = Some("step-count-differs-from-as-count".into());
                j.detail = format!("{} steps, {} ASes on the path", visits.len(), ifs.len() / 2 + 1);
            } else {
                j.ok = true;
            }
        }
        Verdict::Delivered { at, .. } => {
            j.fail = Some("delivered-at-wrong-as".into());
            j.detail = format!("delivered at AS{at}, destination is AS{want_dst}");
        }
        v => {
            let where_ = if last.step.peering {
                "peering-hop"
            } else if last.step.xover {
                "cross-over"
            } else {
                "plain-hop"
            };
            j.fail = Some(format!("not-forwardable:{}@{}", v.class_name(), where_));
            j.detail = format!("R-router at AS{} ({}) ingress {}: {:?} events={:?}", last.at, ia_str(t, last.at), last.ingress, short(v), last.step.events);
        }
    }
    j
}
fn short(v: &Verdict) -> String {
    match v {
        Verdict::Forward { egress_if, next_as, next_if, .. } => format!("Forward(egress {egress_if} -> AS{next_as}#{next_if})"),
        Verdict::Delivered { at, .. } => format!("Delivered(AS{at})"),
        o => format!("{o:?}"),
    }
}

/// The real simulator's complete traversal of the same packet: (delivered at dst?, description).
fn sim_walk(real: &ScionTopology, t: &Topo, src: AsIdx, dst: AsIdx, bytes: &[u8], now: u32) -> (bool, String) {
    let mut b = bytes.to_vec();
    let r = vpc::catch(|| {
        let (view, _) = match ScionRawPacketView::try_from_mut_slice(&mut b) {
            Ok(v) => v,
            Err(e) => return (false, format!("parse-reject {e:?}")),
        };
        match ScionNetworkSim::simulate_traversal::<SpecRoutingLogic>(real, view, ScionNetworkTime::from_timestamp_secs(now), bridge::ia_of(t, src), 0, false) {
            Ok(o) => {
                let ok = o.at_as == bridge::ia_of(t, dst) && matches!(o.action, pocketscion::network::scion::routing::LocalAsRoutingAction::ForwardLocal);
                (ok, format!("{} at {}", action_name(&o.action), o.at_as))
            }
            Err(e) => (false, format!("error {e:#}")),
        }
    });
    r.unwrap_or_else(|p| (false, format!("panic {p}")))
}
fn action_name(a: &pocketscion::network::scion::routing::LocalAsRoutingAction) -> String {
    use pocketscion::network::scion::routing::LocalAsRoutingAction as L;
    match a {
        L::ForwardLocal => "deliver".into(),
        L::SendSCMPErrorResponse(e) => match e {
            sciparse::payload::scmp::model::ScmpErrorMessage::ParameterProblem(p) => format!("scmp-parameter-problem({:?})", p.code),
            sciparse::payload::scmp::model::ScmpErrorMessage::ExternalInterfaceDown(_) => "scmp-external-interface-down".into(),
            _ => "scmp-other".into(),
        },
        L::IngressSCMPHandleRequest { .. } | L::EgressSCMPHandleRequest { .. } => "router-alert".into(),
        L::ForwardExternal { .. } => "forward-external".into(),
    }
}

/// Does some peer entry of the real segments carry a MAC chained from beta_i (its own AS entry's
/// accumulator) instead of beta_{i+1} as the specification says? Returns (spec-conform, beta_i-chained, neither).
fn peer_mac_chaining(t: &Topo, segs: &[SignedPathSegment]) -> (u64, u64, u64) {
    let (mut ok, mut from_i, mut neither) = (0, 0, 0);
    for s in segs {
        let ts = s.info().timestamp;
        let mut beta = s.info().segment_id;
        for e in &s.as_entries {
            let e = e.get();
            let Some(a) = t.as_by_ia(e.local.0) else { continue };
            let key = t.ases[a].key;
            let hf = &e.hop_entry.hop_field;
            let mac: [u8; 6] = *hf.mac.as_bytes();
            let beta_next = refmac::beta_step(beta, &mac);
            for p in &e.peer_entries {
                let pm: [u8; 6] = *p.hop_field.mac.as_bytes();
                let with = |b: u16| refmac::hop_mac(&key, b, ts, p.hop_field.expiration_units, p.hop_field.cons_ingress, p.hop_field.cons_egress) == pm;
                if with(beta_next) {
                    ok += 1;
                } else if with(beta) {
                    from_i += 1;
                } else {
                    neither += 1;
                }
            }
            beta = beta_next;
        }
    }
    (ok, from_i, neither)
}

/// (AS, if) walk of a registry link segment from its Display form `A#x -> B#y;B#z -> C#w;`.
fn registry_walks(reg: &SegmentRegistry, t: &Topo) -> BTreeSet<Vec<(u64, u16, u64, u16)>> {
    let mut out = BTreeSet::new();
    let parse_if = |s: &str| -> Option<(u64, u16)> {
        let (ia, ifid) = s.trim().split_once('#')?;
        let ia: sciparse::identifier::isd_asn::IsdAsn = ia.parse().ok()?;
        Some((ia.0, ifid.parse().ok()?))
    };
    let mut add = |s: String| {
        let mut w = vec![];
        for l in s.split(';') {
            if l.trim().is_empty() {
                continue;
            }
            if let Some((a, b)) = l.split_once("->") {
                if let (Some(a), Some(b)) = (parse_if(a), parse_if(b)) {
                    w.push((a.0, a.1, b.0, b.1));
                }
            }
        }
        out.insert(w);
    };
    for seg in reg.core_segments().iter_segments_filtered(|_| true) {
        add(seg.to_string());
    }
    let isds: BTreeSet<u16> = t.ases.iter().map(|a| a.isd).collect();
    for isd in isds {
        if let Some(store) = reg.isd_segments(&Isd(isd)) {
            for seg in store.iter_segments_filtered(|_| true) {
                add(seg.to_string());
            }
        }
    }
    out
}
fn rseg_walk(t: &Topo, s: &refseg::RSegment) -> Vec<(u64, u16, u64, u16)> {
    let mut w = vec![];
    for k in 0..s.entries.len() - 1 {
        let (a, b) = (&s.entries[k], &s.entries[k + 1]);
        w.push((t.ases[a.as_idx].ia(), a.cons_egress, t.ases[b.as_idx].ia(), b.cons_ingress));
    }
    w
}

struct Cfg {
    /// (valid_after offset in seconds before now, hop expiry units)
    variants: Vec<(i64, u8)>,
    /// walk clocks: false = timestamp only, true = {timestamp, expiry-1}
    two_clocks: bool,
}

const NOW: i64 = 1_700_000_000;

fn check_topology(run: &vpc::Run, findings: &Findings, t: &Topo, cfg: &Cfg) -> Stats {
    let mut st = Stats::default();
    let real = match vpc::catch(|| bridge::build_topology(t)) {
        Ok(Ok(r)) => r,
        Ok(Err(e)) => {
            findings.report("harness:pocketscion-rejects-reference-topology", t.ases.len(), format!("ScionTopologyBuilder refused topology {}: {e}", t.name), &|| json!({"topology": bridge::topo_to_json(t)}));
            return st;
        }
        Err(p) => {
            findings.report(&format!("panic@{}", vpc::last_panic_location()), t.ases.len(), format!("building topology {} panicked: {p}", t.name), &|| json!({"topology": bridge::topo_to_json(t)}));
            return st;
        }
    };
    let reg = match vpc::catch(|| SegmentRegistry::from_topology(&real)) {
        Ok(r) => r,
        Err(p) => {
            findings.report(&format!("panic@{}", vpc::last_panic_location()), t.ases.len(), format!("SegmentRegistry::from_topology panicked on {}: {p}", t.name), &|| json!({"topology": bridge::topo_to_json(t)}));
            return st;
        }
    };
    // reference segments restricted to those the real registry holds too
    let rsegs = refseg::beacon(t, NOW as u32);
    let held = registry_walks(&reg, t);
    let in_reg = |s: &refseg::RSegment| held.contains(&rseg_walk(t, s));
    let n_ref = rsegs.up_down.len() + rsegs.core.len();
    let n_both = rsegs.up_down.iter().chain(rsegs.core.iter()).filter(|s| in_reg(s)).count();
    if n_both == n_ref && held.len() == n_ref {
        st.bump("registry-segments==reference-beaconing");
    } else {
        st.bump("registry-segments!=reference-beaconing(completeness judged on the common ones)");
    }
    let metric_base = (t.ases.len() * 100 + t.links.len()) * 10_000;
    let n = t.ases.len();
    for src in 0..n {
        for dst in 0..n {
            if src == dst {
                continue;
            }
            st.pairs += 1;
            // ---- completeness reference
            let plan = rsegs.plan_sets(t, src, dst);
            let ups: Vec<&refseg::RSegment> = plan.up.iter().map(|&i| &rsegs.up_down[i]).filter(|s| in_reg(s)).collect();
            let cores: Vec<&refseg::RSegment> = plan.core.iter().chain(plan.core_rev.iter()).map(|&i| &rsegs.core[i]).filter(|s| in_reg(s)).collect();
            let downs: Vec<&refseg::RSegment> = plan.down.iter().map(|&i| &rsegs.up_down[i]).filter(|s| in_reg(s)).collect();
            let routes = refcombine::combine(t, src, dst, &ups, &cores, &downs);
            for (vi, &(before, exp)) in cfg.variants.iter().enumerate() {
                let valid_after = chrono::DateTime::<chrono::Utc>::from_timestamp(NOW - before, 0).unwrap();
                let ts = (NOW - before) as u32;
                let looked = vpc::catch(|| {
                    if vi == 0 {
                        // the real entry point (expiry unit 255, SegID 0) + the segments for diagnostics
                        let p = reg.paths(bridge::ia_of(t, src), bridge::ia_of(t, dst), valid_after, &real).map_err(|e| format!("{e:#}"));
                        let segs = lookup(&reg, &real, t, src, dst, valid_after, exp).map(|x| x.1).unwrap_or_default();
                        p.map(|p| (p, segs))
                    } else {
                        lookup(&reg, &real, t, src, dst, valid_after, exp)
                    }
                });
                let (paths, segs) = match looked {
                    Ok(Ok(x)) => x,
                    Ok(Err(e)) => {
                        st.bump("lookup:error");
                        if !routes.is_empty() {
                            findings.report("no-path-offered-although-segments-join:lookup-error", metric_base, format!("path lookup AS{src}->AS{dst} fails ({e}) although {} route(s) can be joined from the registry's segments", routes.len()), &|| {
                                json!({"topology": bridge::topo_to_json(t), "src": src, "dst": dst, "valid_after": NOW - before, "exp": exp, "error": e, "reference_routes": routes.keys().map(|h| format!("{h:?}")).collect::<Vec<_>>()})
                            });
                        }
                        continue;
                    }
                    Err(p) => {
                        findings.report(&format!("panic@{}", vpc::last_panic_location()), metric_base, format!("path lookup AS{src}->AS{dst} panicked: {p}"), &|| json!({"topology": bridge::topo_to_json(t), "src": src, "dst": dst}));
                        continue;
                    }
                };
                if paths.is_empty() {
                    st.bump("lookup:no-path");
                    if !routes.is_empty() {
                        findings.report("no-path-offered-although-segments-join", metric_base, format!("path lookup AS{src}->AS{dst} returns no path although {} route(s) can be joined from the registry's segments", routes.len()), &|| {
                            json!({"topology": bridge::topo_to_json(t), "src": src, "dst": dst, "valid_after": NOW - before, "exp": exp, "reference_routes": routes.keys().map(|h| format!("{h:?}")).collect::<Vec<_>>()})
                        });
                    } else {
                        st.bump("completeness:no-route-and-no-path");
                    }
                    continue;
                }
                st.bump("lookup:paths-offered");
                if routes.is_empty() {
                    st.bump("completeness:paths-offered-where-reference-joins-none");
                } else {
                    st.bump("completeness:route-exists-and-paths-offered");
                }
                let chaining = peer_mac_chaining(t, &segs);
                for (pi, p) in paths.iter().enumerate() {
                    st.paths += 1;
                    let wit = |extra: Value| json!({"topology": bridge::topo_to_json(t), "src": src, "dst": dst, "valid_after": NOW - before, "exp": exp, "path_index": pi, "detail": extra});
                    let Some(ifs) = meta_ifs(t, p) else {
                        findings.report("path-without-interface-metadata", metric_base, format!("path {pi} AS{src}->AS{dst} carries no usable interface list"), &|| wit(json!(null)));
                        continue;
                    };
                    let bytes = match vpc::catch(|| wrap(t, p, src, dst)) {
                        Ok(Ok(b)) => b,
                        Ok(Err(e)) => {
                            findings.report("path-cannot-be-put-into-a-packet", metric_base, format!("path {pi} AS{src}->AS{dst}: {e}"), &|| wit(json!(null)));
                            continue;
                        }
                        Err(pn) => {
                            findings.report(&format!("panic@{}", vpc::last_panic_location()), metric_base, format!("wrapping path panicked: {pn}"), &|| wit(json!(null)));
                            continue;
                        }
                    };
                    let info = PathInfo { ifs, bytes };
                    // clocks
                    let mut clocks = vec![ts];
                    if cfg.two_clocks {
                        if let Ok((h, _)) = RHeader::parse(&info.bytes) {
                            if let RPath::Std(sp) = &h.path {
                                let mut e = u64::MAX;
                                for (hi, hop) in sp.hops.iter().enumerate() {
                                    let its = sp.infos[sp.seg_of(hi).unwrap_or(0)].timestamp;
                                    e = e.min(refrouter::last_valid_second(its, hop.exp_time));
                                }
                                clocks.push(e as u32 - 1);
                            }
                        }
                    }
                    for (ci, &now) in clocks.iter().enumerate() {
                        let fwd = judge(t, src, dst, &info.bytes, now, &info.ifs, &mut st);
                        let kind = if fwd.saw_peering {
                            "peering"
                        } else if fwd.saw_xover_noncore {
                            "shortcut"
                        } else {
                            match fwd.segments {
                                1 => "one-segment",
                                2 => "two-segment",
                                _ => "three-segment",
                            }
                        };
                        if ci == 0 {
                            st.bump(&format!("path-kind:{kind}"));
                        }
                        // the real simulator on the same packet (recorded; judged by C13)
                        let (sim_ok, sim_desc) = sim_walk(&real, t, src, dst, &info.bytes, now);
                        st.walks += 1;
                        match (fwd.ok, sim_ok) {
                            (true, true) => st.bump("forward:reference-delivers,simulator-delivers"),
                            (true, false) => st.bump(&format!("forward:reference-delivers,simulator-refuses({kind})[C13]")),
                            (false, true) => st.bump("forward:reference-refuses,simulator-delivers"),
                            (false, false) => st.bump("forward:reference-refuses,simulator-refuses"),
                        }
                        if !fwd.ok {
                            let mut class = fwd.fail.clone().unwrap();
                            if class == "not-forwardable:bad-mac@peering-hop" && chaining.1 > 0 && chaining.0 == 0 {
                                class = "peer-mac-chained-from-beta-i".into();
                            }
                            st.bump(&format!("forward-fail:{class}"));
                            findings.report(&class, metric_base + info.bytes.len(), format!("offered path {pi} AS{src}->AS{dst} ({kind}) is not forwardable: {}", fwd.detail), &|| {
                                wit(json!({"direction": "forward", "packet": vpc::hex(&info.bytes), "now": now, "metadata_interfaces": format!("{:?}", info.ifs), "trace": fwd.trace, "simulator": sim_desc,
                                    "peer_entry_macs": {"verify_with_beta_i_plus_1(spec)": chaining.0, "verify_with_beta_i": chaining.1, "neither": chaining.2}}))
                            });
                            continue;
                        }
                        // ---- reverse
                        let delivered = fwd.delivered_bytes.clone().unwrap();
                        let rev = vpc::catch(|| -> Result<(ScionPath, Vec<u8>), String> {
                            let (h, hl) = RHeader::parse(&delivered).map_err(|e| format!("delivered packet unparsable: {e}"))?;
                            let po = 12 + 16 + h.dst_host.len() + h.src_host.len();
                            let pb: Box<[u8]> = delivered[po..hl].to_vec().into_boxed_slice();
                            let view = StandardPathView::try_from_boxed(pb).map_err(|e| format!("delivered path is not a standard path view: {e:?}"))?;
                            let mut sp = ScionPath::new(bridge::ia_of(t, src), bridge::ia_of(t, dst), ScionDpPathView::Standard(view), p.metadata().cloned(), None);
                            sp.try_reverse().map_err(|e| format!("try_reverse: {e:?}"))?;
                            let b = wrap(t, &sp, dst, src)?;
                            Ok((sp, b))
                        });
                        let (rp, rbytes) = match rev {
                            Ok(Ok(x)) => x,
                            Ok(Err(e)) => {
                                st.bump("reverse-fail:cannot-reverse");
                                findings.report("reverse:path-cannot-be-reversed", metric_base + info.bytes.len(), format!("delivered path {pi} AS{src}->AS{dst} cannot be reversed: {e}"), &|| wit(json!({"packet": vpc::hex(&info.bytes), "delivered": vpc::hex(&delivered), "now": now})));
                                continue;
                            }
                            Err(pn) => {
                                findings.report(&format!("panic@{}", vpc::last_panic_location()), metric_base, format!("reversing the delivered path panicked: {pn}"), &|| wit(json!({"packet": vpc::hex(&info.bytes), "delivered": vpc::hex(&delivered)})));
                                continue;
                            }
                        };
                        let rifs: Vec<(AsIdx, u16)> = match meta_ifs(t, &rp) {
                            Some(v) => v,
                            None => info.ifs.iter().rev().cloned().collect(),
                        };
                        let expect_rifs: Vec<(AsIdx, u16)> = info.ifs.iter().rev().cloned().collect();
                        if rifs != expect_rifs {
                            findings.report("reverse:metadata-interfaces-not-mirrored", metric_base + info.bytes.len(), format!("reversed path lists {rifs:?}, the forward path mirrored is {expect_rifs:?}"), &|| wit(json!({"packet": vpc::hex(&info.bytes)})));
                        }
                        let back = judge(t, dst, src, &rbytes, now, &expect_rifs, &mut st);
                        let (rsim_ok, rsim_desc) = sim_walk(&real, t, dst, src, &rbytes, now);
                        st.walks += 1;
                        match (back.ok, rsim_ok) {
                            (true, true) => st.bump("reverse:reference-delivers,simulator-delivers"),
                            (true, false) => st.bump(&format!("reverse:reference-delivers,simulator-refuses({kind})[C13]")),
                            (false, true) => st.bump("reverse:reference-refuses,simulator-delivers"),
                            (false, false) => st.bump("reverse:reference-refuses,simulator-refuses"),
                        }
                        if !back.ok {
                            let class = format!("reverse:{}", back.fail.clone().unwrap());
                            st.bump(&format!("reverse-fail:{class}"));
                            findings.report(&class, metric_base + info.bytes.len(), format!("reply over the reversed path {pi} AS{dst}->AS{src} ({kind}) is not forwardable: {}", back.detail), &|| {
                                wit(json!({"direction": "reverse", "forward_packet": vpc::hex(&info.bytes), "delivered": vpc::hex(&delivered), "reply_packet": vpc::hex(&rbytes), "now": now, "trace": back.trace, "simulator": rsim_desc}))
                            });
                        }
                    }
                }
            }
        }
    }
    let _ = run;
    st
}

pub fn run(args: &vpc::Args) -> ! {
    vpc::quiet_panics();
    if let Some(f) = &args.replay {
        replay(args, f);
    }
    let run = vpc::Run::new(args);
    let thorough = run.tier == vpc::Tier::Thorough;
    // (topologies, config)
    let mut jobs: Vec<(Topo, bool)> = vec![]; // bool = small (n<=3): all variants and both clocks
    for n in 1..=3 {
        jobs.extend(reftopo_enum::enumerate(n, 2).into_iter().map(|t| (t, true)));
    }
    let n_small = jobs.len();
    let mut bound = String::from("all R-topo shapes n<=3 (core-link multiplicity<=2, both interface numberings)");
    if thorough {
        jobs.extend(reftopo_enum::enumerate(4, 2).into_iter().map(|t| (t, false)));
        bound.push_str(" + all n=4 (multiplicity<=2)");
        jobs.extend(reftopo_enum::enumerate(5, 1).into_iter().map(|t| (t, false)));
        bound.push_str(" + all n=5 (multiplicity 1)");
    }
    let n_enum = jobs.len();
    jobs.extend(reftopo_enum::curated().into_iter().map(|t| (t, false)));
    if let Ok(only) = std::env::var("VP_ONLY") {
        jobs.retain(|(t, _)| t.name.contains(&only));
    }
    let small_cfg = Cfg { variants: vec![(0, 255), (337, 255), (0, 63), (337, 63), (0, 0), (337, 0)], two_clocks: true };
    let big_cfg = Cfg { variants: vec![(0, 255)], two_clocks: false };
    let findings = Findings::default();
    let total = Mutex::new(Stats::default());
    let t_build = std::time::Instant::now();
    jobs.par_iter().for_each(|(t, small)| {
        let st = check_topology(&run, &findings, t, if *small { &small_cfg } else { &big_cfg });
        total.lock().unwrap().merge(st);
    });
    let _ = t_build;
    let st = total.into_inner().unwrap();
    for (k, v) in &st.outcomes {
        run.outcome_n(k, *v);
    }
    findings.flush(&run);
    let kinds = |k: &str| st.outcomes.get(&format!("path-kind:{k}")).copied().unwrap_or(0);
    // Path kinds are classified from what the forwarding walk saw; when paths of a kind are refused before
    // their cross-over (a violation that is reported above) the kind cannot be observed: the non-vacuity
    // guard only applies to runs without violations.
    if std::env::var("VP_ONLY").is_err() && run.violation_count() == 0 && (kinds("shortcut") == 0 || kinds("peering") == 0 || kinds("three-segment") == 0) {
        vpc::machinery_failure(&format!("vacuous: shortcut={} peering={} three-segment={}", kinds("shortcut"), kinds("peering"), kinds("three-segment")));
    }
    run.sample(1, || json!({"topologies": jobs.len(), "pairs": st.pairs, "paths": st.paths}));
    let bound = format!(
        "{} topologies: {bound} = {} enumerated + {} curated (incl. the repository's 16-AS default graph); every ordered AS pair ({}); every returned path ({}) forward and reversed; n<=3: valid_after in {{now, now-337s}} x hop expiry units {{255,63,0}} x walk clock {{timestamp, expiry-1}}, larger: valid_after=now, unit 255, clock=timestamp",
        jobs.len(),
        n_enum,
        jobs.len().saturating_sub(n_enum),
        st.pairs,
        st.paths
    );
    let _ = n_small;
    run.finish(
        "model_checking",
        json!({
            "states": st.states,
            "transitions": st.transitions,
            "traces_validated_against_impl": st.walks,
            "exhaustive": true,
            "bound": bound,
            "topologies": jobs.len(),
            "ordered_pairs": st.pairs,
            "paths_walked": st.paths,
        }),
        &[
            "the judge is R-router (vpc::refrouter), written from draft-dekater-scion-dataplane / scionproto router semantics; hop MACs are verified with R-mac and the per-AS key given to the real topology",
            "a reply is sent over ScionPath::try_reverse of the path as it arrived at the destination (SegIDs as accumulated, pointers at the last hop), which is how a SCION endpoint answers",
            "completeness is judged against R-combine over the R-seg segments that the real registry holds as well (walk-by-walk comparison of the registry's link segments)",
            "a disagreement between the real simulator and R-router on a path R-router accepts is counted ([C13]) but attributed to C13",
        ],
    )
}

fn replay(args: &vpc::Args, f: &std::path::Path) -> ! {
    let v = vpc::read_replay(f);
    let w = &v["witness"];
    let t = bridge::topo_from_json(&w["topology"]).unwrap_or_else(|e| vpc::machinery_failure(&format!("replay topology: {e}")));
    let (src, dst) = (w["src"].as_u64().unwrap_or(0) as usize, w["dst"].as_u64().unwrap_or(0) as usize);
    let before = NOW - w["valid_after"].as_i64().unwrap_or(NOW);
    let exp = w["exp"].as_u64().unwrap_or(255) as u8;
    println!("REPLAY {} class={}\n  topology {} ({} ASes, {} links); lookup AS{src} ({}) -> AS{dst} ({}), valid_after now-{before}s, hop expiry unit {exp}", f.display(), v["class"], t.name, t.ases.len(), t.links.len(), ia_str(&t, src), ia_str(&t, dst));
    for l in &t.links {
        println!("  link AS{}#{} -- AS{}#{} {:?}", l.a, l.a_if, l.b, l.b_if, l.kind);
    }
    unsafe { std::env::set_var("VERIF_ROOT", "/root/scratch/c01-replay-out") };
    let a2 = vpc::Args { prop: args.prop.clone(), tier: args.tier, seed: args.seed, replay: None, extra: vec![] };
    let run = vpc::Run::new(&a2);
    let findings = Findings::default();
    // re-run the lookup for this pair only, on the same topology, and print every walk
    let mut only = t.clone();
    only.name = format!("{}(replay)", t.name);
    let cfg = Cfg { variants: vec![(before, exp)], two_clocks: true };
    let st = check_topology(&run, &findings, &only, &cfg);
    for (k, n) in &st.outcomes {
        println!("  {n:>6} {k}");
    }
    let m = findings.0.lock().unwrap();
    for (class, (_, n, what, wit)) in m.iter() {
        println!("  FINDING [{class}] x{n}: {what}");
        if let Some(tr) = wit["detail"]["trace"].as_array() {
            for s in tr {
                println!("      {}", s.as_str().unwrap_or(""));
            }
        }
    }
    let hit = m.contains_key(v["class"].as_str().unwrap_or(""));
    println!("REPLAY-RESULT classes={} original-class-reproduced={hit}", m.len());
    let _ = std::fs::remove_dir_all("/root/scratch/c01-replay-out");
    std::process::exit(if m.is_empty() { 0 } else { 1 })
}

#[allow(dead_code)]
fn _unused(_: RejectClass) {}
