//! C13 - the simulated dataplane enforces the SCION forwarding rules and matches a reference router.
//!
//! Explicit-state exploration. A state is (AS, ingress interface, packet bytes) under a clock and a
//! link-state assignment; a transition is ONE real `ScionNetworkSim` step (`iter::<SpecRoutingLogic>`
//! `.next()`) executed in lock-step with R-router (`vpc::refrouter::step`) on the same bytes.
//!
//! Initial states per topology (R-topo enumerator + curated shapes), built from the AUTHENTIC hop
//! fields of every R-seg segment (regular and peer hop fields, R-mac MACs with the per-AS keys the
//! real topology is given too):
//!   * piece = contiguous run (1..=4 hop fields) of one segment, optionally with the run's first
//!     (construction order) hop replaced by one of that AS's peer hop fields; in either order; with
//!     either ConsDir flag; Peering flag set/unset on peer pieces; SegID = the value that verifies
//!     the first traversed hop without an ingress update, the value that verifies it after a
//!     non-cons-dir ingress update, or a foreign value.
//!   * level 1: every 1-piece packet, injected at every hop-field position h at the AS owning hop h
//!     with ingress 0 and with every external interface of that AS, and with h = 0 at every other AS
//!     with ingress 0.
//!   * level 2: every ordered pair of pieces (a,b) (on topologies with more than `PAIR_FULL_LIMIT`
//!     pieces: every pair whose first piece some router carried to its last hop field; a non-peering
//!     one-hop first piece is left to level 1: the simulator drops it whatever follows), injected at
//!     the join (a's last hop field) at its AS with ingress 0 and every interface, and at the natural
//!     start (position 0, first AS, ingress 0). Positions inside b are level-1 states of b.
//!   * level 3: every (a,b,c) whose prefix (a,b) some router carried, from an injection inside a, to
//!     b's last hop field, injected at those same points (a router never looks beyond the hop field
//!     after the current one, so the pruned packets behave like their prefix until they die).
//!   * clock = after every segment timestamp; all links up.
//!   * every packet R-router delivers end to end from its natural start ("valid") additionally:
//!     clock in {ts-1, ts, exp-1, exp, exp+1} x link states {all up, each single link down, all
//!     subsets when the topology has <= 4 links}; and every single-field corruption of every on-path
//!     state of it (hop flags/exp/ingress/egress/MAC, info flags/rsv/SegID/timestamp, CurrINF,
//!     CurrHF, SegLens, meta RSV, DstIA, SrcIA) at clock ts and clock exp+1 (thorough: all five
//!     clocks, and clock ts x each single link down).
//! Violation classes: a disagreement is named after the smallest set of named deviations
//! (`vpc::refrouter::Quirks`) under which the reference reproduces the simulator on that state, plus
//! the kind of effect; a disagreement no deviation set explains is `unexplained:...`.
//! Oracles: see `compare` in bridge.rs (per step: next AS, interface and bytes; verdict class) and
//! `safety` below (reference-independent).
use std::{
    collections::{BTreeMap, BTreeSet, HashSet},
    sync::Mutex,
};

use pocketscion::network::scion::topology::ScionTopology;
use rayon::prelude::*;
use vpc::{
    Value, json,
    refrouter::{self, Event, RejectClass, Step, Verdict},
    refseg::{self, RSegment},
    reftopo::{AsIdx, Topo},
    reftopo_enum,
    refwire::{self, RHeader, RHop, RInfo, RPath, RStdPath},
};

use crate::bridge::{self, Agreement, SimVerdict};

pub const BASE_TS: u32 = 1_700_000_000;
const PAIR_FULL_LIMIT: usize = 400;
const N4_PIECE_CAP: usize = 1000;
const CLOCK_NAMES: [&str; 5] = ["ts-1", "ts", "exp-1", "exp", "exp+1"];

// ------------------------------------------------------------------------------------------
// pieces and packets
// ------------------------------------------------------------------------------------------

#[derive(Clone, Debug)]
pub struct Piece {
    pub hops: Vec<RHop>,
    pub owners: Vec<AsIdx>,
    pub flags: u8,
    pub seg_id: u16,
    pub ts: u32,
    /// (segment ordinal, first entry, last entry, reversed, peer index or -1, segid kind)
    pub desc: (usize, usize, usize, bool, i32, &'static str),
}
impl Piece {
    fn describe(&self) -> String {
        let (o, i, j, rev, peer, k) = self.desc;
        format!("seg{o}[{i}..={j}]{}{} C={} P={} segid={k}", if rev { " reversed" } else { "" }, if peer >= 0 { format!(" peer-hop#{peer}@{i}") } else { String::new() }, self.flags & 1, (self.flags >> 1) & 1)
    }
}

fn regular_hop(e: &refseg::REntry) -> RHop {
    RHop { flags: 0, exp_time: e.exp_time, cons_ingress: e.cons_ingress, cons_egress: e.cons_egress, mac: e.mac }
}

pub fn pieces_of(segs: &refseg::RSegs) -> Vec<Piece> {
    let mut out: Vec<Piece> = vec![];
    let mut seen: BTreeSet<Vec<u8>> = BTreeSet::new();
    for s in segs.up_down.iter().chain(segs.core.iter()) {
        let n = s.entries.len();
        for i in 0..n {
            for j in i..n.min(i + 4) {
                // variants: -1 = regular hops only; k = entry i's k-th peer hop replaces hop i
                let npeers = s.entries[i].peers.len() as i32;
                for peer in -1..npeers {
                    let mut cons: Vec<RHop> = s.entries[i..=j].iter().map(regular_hop).collect();
                    if peer >= 0 {
                        let p = &s.entries[i].peers[peer as usize];
                        cons[0] = RHop { flags: 0, exp_time: p.exp_time, cons_ingress: p.local_if, cons_egress: p.cons_egress, mac: p.mac };
                    }
                    let owners_cons: Vec<AsIdx> = s.entries[i..=j].iter().map(|e| e.as_idx).collect();
                    for rev in [false, true] {
                        if rev && i == j {
                            continue;
                        }
                        let (hops, owners): (Vec<RHop>, Vec<AsIdx>) = if rev { (cons.iter().rev().cloned().collect(), owners_cons.iter().rev().cloned().collect()) } else { (cons.clone(), owners_cons.clone()) };
                        // index (construction order) of the first traversed hop
                        let f = if rev { j } else { i };
                        let first_is_peer = peer >= 0 && f == i;
                        // SegID that verifies hop f as it stands
                        let m0 = if first_is_peer { s.beta_at(f + 1) } else { s.beta_at(f) };
                        // SegID that verifies hop f after the non-cons-dir ingress update (SegID ^= MAC_f[0..2])
                        let m1 = m0 ^ u16::from_be_bytes([hops[0].mac[0], hops[0].mac[1]]);
                        for c in [1u8, 0u8] {
                            let pflags: &[u8] = if peer >= 0 { &[2, 0] } else { &[0] };
                            for &pf in pflags {
                                let mut cands: Vec<(u16, &'static str)> = vec![(m0, "match")];
                                if c == 0 {
                                    cands.push((m1, "match-after-ingress-update"));
                                }
                                cands.push((m0 ^ 0x8001, "foreign"));
                                for (sid, kind) in cands {
                                    let p = Piece { hops: hops.clone(), owners: owners.clone(), flags: c | pf, seg_id: sid, ts: s.timestamp, desc: (s.ordinal, i, j, rev, peer, kind) };
                                    let mut key = vec![p.flags];
                                    key.extend_from_slice(&p.seg_id.to_be_bytes());
                                    key.extend_from_slice(&p.ts.to_be_bytes());
                                    for h in &p.hops {
                                        key.extend_from_slice(&h.to_bytes());
                                    }
                                    if seen.insert(key) {
                                        out.push(p);
                                    }
                                }
                            }
                        }
                    }
                }
            }
        }
    }
    out
}

/// A SCION/UDP packet carrying the given pieces as segments. SrcIA = owner of the first hop,
/// DstIA = owner of the last hop.
pub fn build_packet(t: &Topo, pieces: &[&Piece]) -> Vec<u8> {
    let mut path = RStdPath { curr_inf: 0, curr_hf: 0, rsv: 0, seg_len: [0; 3], infos: vec![], hops: vec![] };
    for (k, p) in pieces.iter().enumerate() {
        path.seg_len[k] = p.hops.len() as u8;
        path.infos.push(RInfo { flags: p.flags, rsv: 0, seg_id: p.seg_id, timestamp: p.ts });
        path.hops.extend(p.hops.iter().cloned());
    }
    let src = pieces[0].owners[0];
    let last = pieces[pieces.len() - 1];
    let dst = last.owners[last.owners.len() - 1];
    let mut l4 = vec![0x9c, 0x40, 0x9c, 0x41, 0, 12, 0, 0, b'v', b'p', b'1', b'3'];
    let hdr = RHeader {
        version: 0,
        traffic_class: 0,
        flow_id: 1,
        next_hdr: refwire::PROTO_UDP,
        hdr_len: 0,
        payload_len: l4.len() as u16,
        path_type: refwire::PT_SCION,
        dst_tl: 0,
        src_tl: 0,
        rsv: 0,
        dst_ia: t.ases[dst].ia(),
        src_ia: t.ases[src].ia(),
        dst_host: vec![10, 0, 0, 2],
        src_host: vec![10, 0, 0, 1],
        path: RPath::Std(path),
    }
    .with_natural_hdr_len();
    let ck = refwire::checksum(hdr.dst_ia, hdr.src_ia, &hdr.dst_host, &hdr.src_host, refwire::PROTO_UDP, &l4);
    l4[6..8].copy_from_slice(&ck.to_be_bytes());
    let mut b = hdr.to_bytes_raw();
    b.extend_from_slice(&l4);
    b
}

const PATH_OFF: usize = 12 + 16 + 4 + 4;

fn set_pointer(pkt: &mut [u8], curr_inf: u8, curr_hf: u8) {
    pkt[PATH_OFF] = (curr_inf << 6) | (curr_hf & 63);
}
fn parse_path(pkt: &[u8]) -> Option<RStdPath> {
    match RHeader::parse(pkt).ok()?.0.path {
        RPath::Std(p) => Some(p),
        _ => None,
    }
}

// ------------------------------------------------------------------------------------------
// lock-step walk
// ------------------------------------------------------------------------------------------

#[derive(Default, Clone, Copy)]
pub struct IdHasher(u64);
impl std::hash::Hasher for IdHasher {
    fn finish(&self) -> u64 {
        self.0
    }
    fn write(&mut self, b: &[u8]) {
        for x in b {
            self.0 = (self.0 << 8) | *x as u64;
        }
    }
    fn write_u64(&mut self, v: u64) {
        self.0 = v;
    }
}
pub type StateSet = HashSet<u64, std::hash::BuildHasherDefault<IdHasher>>;

/// Names of the fast outcome counters (index = position).
const FAST: [&str; 43] = [
    "ref:delivered", "ref:forward", "ref:expired", "ref:bad-mac", "ref:bad-ingress", "ref:bad-egress", "ref:bad-segment-change", "ref:bad-link-pair", "ref:link-down", "ref:non-local-delivery", "ref:alert-ingress", "ref:alert-egress", "ref:drop",
    "sim:forward", "sim:delivered", "sim:alert-ingress", "sim:alert-egress", "sim:drop", "sim:scmp-param-erroneous-header-field", "sim:scmp-param-non-local-delivery", "sim:scmp-param-invalid-path", "sim:scmp-param-unknown-hop-cons-ingress-if", "sim:scmp-param-unknown-hop-cons-egress-if", "sim:scmp-param-invalid-hop-mac", "sim:scmp-param-path-expired", "sim:scmp-param-invalid-segment-change", "sim:scmp-param-other", "sim:scmp-external-interface-down", "sim:other-scmp", "sim:forward-external", "sim:parse-reject", "sim:iter-error", "sim:panic",
    "cmp:same", "cmp:allowed:two-faults-coexist", "cmp:allowed:future-timestamp", "cmp:allowed:one-hop-segment", "cmp:allowed:router-alert-on-segment-change", "cmp:allowed:other", "cmp:diverge",
    "obs:scmp-error-quotes-packet-as-received", "obs:scmp-error-quotes-packet-with-advanced-pointer", "obs:scmp-error-quotes-packet-with-updated-segid-or-flags",
];
fn ref_idx(v: &Verdict) -> usize {
    match v {
        Verdict::Delivered { .. } => 0,
        Verdict::Forward { .. } => 1,
        Verdict::Reject { class, .. } => match class {
            RejectClass::Expired => 2,
            RejectClass::BadMac => 3,
            RejectClass::BadIngress => 4,
            RejectClass::BadEgress => 5,
            RejectClass::BadSegmentChange => 6,
            RejectClass::BadLinkPair => 7,
            RejectClass::LinkDown => 8,
            RejectClass::NonLocalDelivery => 9,
        },
        Verdict::Alert { egress: false, .. } => 10,
        Verdict::Alert { egress: true, .. } => 11,
        Verdict::Drop(_) => 12,
    }
}
fn sim_idx(v: &SimVerdict) -> usize {
    match v {
        SimVerdict::Forward { .. } => 13,
        SimVerdict::Delivered => 14,
        SimVerdict::AlertIngress(_) => 15,
        SimVerdict::AlertEgress(_) => 16,
        SimVerdict::Drop => 17,
        SimVerdict::Param { code, .. } => match code {
            0 => 18,
            35 => 19,
            48 => 20,
            49 => 21,
            50 => 22,
            51 => 23,
            52 => 24,
            53 => 25,
            _ => 26,
        },
        SimVerdict::IfDown { .. } => 27,
        SimVerdict::OtherScmp(_) => 28,
        SimVerdict::ForwardExternal => 29,
        SimVerdict::ParseReject(_) => 30,
        SimVerdict::IterError(_) => 31,
        SimVerdict::Panic(_) => 32,
    }
}

pub struct Loc {
    pub fast: [u64; 43],
    pub outcomes: BTreeMap<String, u64>,
    pub transitions: u64,
    pub walks: u64,
    pub states: StateSet,
}
impl Default for Loc {
    fn default() -> Self {
        Loc { fast: [0; 43], outcomes: BTreeMap::new(), transitions: 0, walks: 0, states: StateSet::default() }
    }
}
impl Loc {
    fn bump(&mut self, k: String) {
        *self.outcomes.entry(k).or_default() += 1;
    }
    fn merge(&mut self, o: Loc) {
        for (k, v) in o.outcomes {
            *self.outcomes.entry(k).or_default() += v;
        }
        for i in 0..43 {
            self.fast[i] += o.fast[i];
        }
        self.transitions += o.transitions;
        self.walks += o.walks;
        if self.states.is_empty() {
            self.states = o.states;
        } else {
            self.states.extend(o.states);
        }
    }
    pub fn all_outcomes(&self) -> BTreeMap<String, u64> {
        let mut m = self.outcomes.clone();
        for i in 0..43 {
            if self.fast[i] > 0 {
                *m.entry(FAST[i].to_string()).or_default() += self.fast[i];
            }
        }
        m
    }
}

/// Best (smallest) witness per violation class, reported to `Run` once at the end.
#[derive(Default)]
pub struct Findings(Mutex<BTreeMap<String, (usize, u64, String, Value)>>);
impl Findings {
    /// `metric`: smaller = better witness. The witness is only built when it would be kept.
    pub fn report(&self, class: &str, metric: usize, what: &dyn Fn() -> String, witness: &dyn Fn() -> Value) {
        let mut m = self.0.lock().unwrap();
        match m.get_mut(class) {
            Some(e) => {
                e.1 += 1;
                if metric < e.0 {
                    e.0 = metric;
                    e.2 = what();
                    e.3 = witness();
                }
            }
            None => {
                m.insert(class.to_string(), (metric, 1, what(), witness()));
            }
        }
    }
    pub fn flush(&self, run: &vpc::Run) {
        for (class, (_, n, what, w)) in self.0.lock().unwrap().iter() {
            run.violation(class, &format!("{what} [{n} occurrences in this run; smallest witness kept]"), w.clone());
        }
    }
    pub fn len(&self) -> usize {
        self.0.lock().unwrap().len()
    }
}

pub struct Env<'a> {
    pub findings: &'a Findings,
    #[allow(dead_code)]
    pub run: &'a vpc::Run,
    pub t: &'a Topo,
    pub real: &'a ScionTopology,
    pub down: &'a [bool],
    pub now: u32,
    pub verbose: bool,
    /// the walk starts from a packet the reference delivers end to end (preferred as witness)
    pub valid_origin: bool,
}

#[derive(Clone, Debug, Default)]
pub struct WalkOut {
    /// some visited state pointed at the packet's last hop field
    pub reached_last_hop: bool,
    /// R-router delivered the packet
    pub r_delivered_at: Option<AsIdx>,
    pub r_final: String,
    pub steps: usize,
    /// (AS, ingress, bytes) of every state on R-router's walk
    pub r_states: Vec<(AsIdx, u16, Vec<u8>)>,
    /// kinds of R-router steps seen: "xover", "peering"
    pub saw_xover: bool,
    pub saw_peering: bool,
    pub segments: usize,
}

fn state_key(env: &Env, at: AsIdx, ingress: u16, bytes: &[u8]) -> u64 {
    let mut h = vpc::fnv64(bytes);
    h ^= (at as u64).wrapping_mul(0x9E3779B97F4A7C15) ^ ((ingress as u64) << 40) ^ ((env.now as u64) << 8);
    let mut m: u64 = 0;
    for (i, d) in env.down.iter().enumerate() {
        if *d {
            m |= 1 << (i % 64);
        }
    }
    h ^ m.wrapping_mul(0xD6E8FEB86659FD93)
}

fn down_list(down: &[bool]) -> Vec<usize> {
    down.iter().enumerate().filter(|(_, d)| **d).map(|(i, _)| i).collect()
}

/// Narrow canonical class of a divergence: the smallest set of named deviations (`Quirks`) under
/// which R-router reproduces the simulator's behaviour on this state, plus the kind of effect.
/// A divergence no deviation set explains is "unexplained:..." (and carries what was seen).
fn classify(env: &Env, at: AsIdx, ingress: u16, bytes: &[u8], r: &Step, sim: &SimVerdict, sim_bytes: &[u8], why: &str) -> String {
    if let SimVerdict::Panic(m) = sim {
        return format!("panic@{}", m.rsplit(" @ ").next().unwrap_or("?"));
    }
    let effect = match (r.verdict.is_accept(), sim.is_accept()) {
        (true, false) => "refuses-what-the-reference-forwards",
        (false, true) => "forwards-what-the-reference-refuses",
        (true, true) => {
            if why.contains("bytes") {
                "packet-bytes-differ"
            } else {
                "different-next-hop"
            }
        }
        (false, false) => "other-error-class",
    };
    let down = env.down;
    let link_down = |li: usize| down[li];
    let egress_hint = egress_of(bytes, r);
    // only deviations that can change anything on this state need to be tried
    let mut relevant = 0u32;
    if let Some(p) = parse_path(bytes) {
        let (ch, ci) = (p.curr_hf as usize, p.curr_inf as usize);
        if ch < p.hops.len() && p.seg_of(ch) == Some(ci) {
            let seg_end = ch + 1 < p.hops.len() && p.seg_of(ch + 1) != Some(ci);
            let cons = p.infos[ci].cons_dir();
            let t_in = if cons { p.hops[ch].cons_ingress } else { p.hops[ch].cons_egress };
            if seg_end {
                relevant |= 1 | 2 | 8;
            }
            if ingress != 0 && t_in == 0 {
                relevant |= 4;
            }
            if p.infos[ci].peering() {
                relevant |= 16;
            }
            if p.seg_range(ci).len() == 1 {
                relevant |= 32;
            }
            if !seg_end && ingress != 0 {
                relevant |= 64;
            }
        }
    }
    let mut masks: Vec<u32> = (1u32..128).filter(|m| m & !relevant == 0).collect();
    masks.sort_by_key(|m| (m.count_ones(), *m));
    for m in masks {
        let q = refrouter::Quirks::from_mask(m);
        let rq = refrouter::step_with(env.t, at, ingress, bytes, env.now, &link_down, &q);
        let hint = egress_of(bytes, &rq).or(egress_hint);
        if !matches!(bridge::compare(env.t, at, &rq, sim, sim_bytes, hint), Agreement::Diverge(_)) {
            return format!("{}:{}", refrouter::Quirks::names(m).join("+"), effect);
        }
    }
    format!("unexplained:ref={}:sim={}{}", r.verdict.class_name(), sim.class_name(), if r.xover { ":xover" } else { "" })
}

/// Lock-step walk from one initial state. `origin` describes how the packet was made (for the
/// witness).
pub fn walk(env: &Env, loc: &mut Loc, start: AsIdx, ingress: u16, pkt: &[u8], origin: &dyn Fn() -> Value, want_states: bool) -> WalkOut {
    let mut out = WalkOut::default();
    loc.walks += 1;
    let p0 = parse_path(pkt);
    let total_hops = p0.as_ref().map(|p| p.hops.len()).unwrap_or(0);
    out.segments = p0.as_ref().map(|p| p.num_inf()).unwrap_or(0);
    let (mut at, mut ing, mut bytes) = (start, ingress, pkt.to_vec());
    let down = env.down;
    let link_down = |li: usize| down[li];
    let mut step_no = 0usize;
    // the reference has forwarded the packet at every step so far
    let mut r_alive = true;
    // a packet can be handled at most once per hop field; +2 lets an over-long walk show itself
    let bound = total_hops.max(1) + 2;
    loop {
        if step_no > total_hops.max(1) {
            env.findings.report("safety:walk-longer-than-hop-field-count", metric(env, pkt), &|| format!("{step_no} AS steps on a path of {total_hops} hop fields"), &|| witness(env, start, ingress, pkt, step_no, at, ing, &bytes, None, None, origin));
        }
        if step_no >= bound {
            break;
        }
        loc.states.insert(state_key(env, at, ing, &bytes));
        if step_no > 0 && bytes.len() > PATH_OFF && (bytes[PATH_OFF] & 63) as usize + 1 == total_hops {
            out.reached_last_hop = true;
        }
        if want_states && r_alive {
            out.r_states.push((at, ing, bytes.clone()));
        }
        // --- the two routers on the same state
        let r = refrouter::step(env.t, at, ing, &bytes, env.now, &link_down);
        let mut sim_bytes = bytes.clone();
        let sim = bridge::sim_step(env.real, bridge::ia_of(env.t, at), ing, &mut sim_bytes, env.now);
        loc.transitions += 1;
        step_no += 1;
        out.saw_xover |= r.xover;
        out.saw_peering |= r.peering;
        let egress_hint = if matches!(r.verdict, Verdict::Reject { class: RejectClass::LinkDown, .. }) { egress_of(&bytes, &r) } else { None };
        let agree = bridge::compare(env.t, at, &r, &sim, &sim_bytes, egress_hint);
        loc.fast[ref_idx(&r.verdict)] += 1;
        loc.fast[sim_idx(&sim)] += 1;
        if env.verbose {
            println!("  step {step_no}: AS{at} ({}) ingress {ing}\n    packet   {}\n    reference: {} events={:?} dontcare={:?}\n    simulator: {}\n    -> {:?}", ia_str(env.t, at), vpc::hex(&bytes), short(&r.verdict), r.events, r.dontcare, short_sim(&sim), agree);
        }
        // --- reference-independent safety of the simulator's action
        safety(env, loc, at, ing, &bytes, &sim, start, ingress, pkt, step_no, origin);
        match &agree {
            Agreement::Same => loc.fast[33] += 1,
            Agreement::Allowed(w) => {
                let i = match *w {
                    "two-faults-coexist" => 34,
                    "future-timestamp" => 35,
                    "one-hop-segment" => 36,
                    "router-alert-on-segment-change" => 37,
                    _ => 38,
                };
                loc.fast[i] += 1;
            }
            Agreement::Diverge(why) => {
                loc.fast[39] += 1;
                let class = classify(env, at, ing, &bytes, &r, &sim, &sim_bytes, why);
                if env.verbose {
                    println!("    DIVERGENCE class={class}");
                }
                loc.bump(format!("diverge:{class}"));
                env.findings.report(&class, metric(env, pkt), &|| format!("simulator and reference router disagree at AS{at} ({}) ingress {ing}: {why}", ia_str(env.t, at)), &|| witness(env, start, ingress, pkt, step_no, at, ing, &bytes, Some(&r), Some(&sim), origin));
            }
        }
        // --- successor
        match (&r.verdict, &sim) {
            (Verdict::Forward { next_as, next_if, packet, .. }, _) => {
                // follow the reference (on agreement both are in the same state)
                at = *next_as;
                ing = *next_if;
                bytes = packet.clone();
            }
            (rv, SimVerdict::Forward { next_ia, next_if, .. }) => {
                // only the simulator forwards: follow it to see how far the packet gets
                if r_alive {
                    out.r_final = rv.class_name();
                }
                r_alive = false;
                match env.t.as_by_ia(*next_ia) {
                    Some(n) => {
                        at = n;
                        ing = *next_if;
                        bytes = sim_bytes;
                    }
                    None => break,
                }
            }
            (rv, _) => {
                if r_alive {
                    out.r_final = rv.class_name();
                    if let Verdict::Delivered { at, .. } = rv {
                        out.r_delivered_at = Some(*at);
                    }
                }
                break;
            }
        }
    }
    out.steps = step_no;
    out
}

fn egress_of(bytes: &[u8], r: &Step) -> Option<u16> {
    let p = parse_path(bytes)?;
    let mut h = p.curr_hf as usize;
    let mut i = p.curr_inf as usize;
    if r.xover {
        h += 1;
        i += 1;
    }
    let hop = p.hops.get(h)?;
    let inf = p.infos.get(i)?;
    Some(if inf.cons_dir() { hop.cons_egress } else { hop.cons_ingress })
}

/// Witness size: topology size first, then packet length.
fn metric(env: &Env, pkt: &[u8]) -> usize {
    (if env.valid_origin { 0 } else { 1 << 40 }) + (env.t.ases.len() * 100 + env.t.links.len()) * 10_000 + pkt.len()
}
fn ia_str(t: &Topo, a: AsIdx) -> String {
    let n = &t.ases[a];
    format!("{}-{:x}:{:x}:{:x}{}", n.isd, (n.asn >> 32) & 0xffff, (n.asn >> 16) & 0xffff, n.asn & 0xffff, if n.core { " core" } else { "" })
}
fn short(v: &Verdict) -> String {
    match v {
        Verdict::Forward { egress_if, next_as, next_if, .. } => format!("Forward(egress {egress_if} -> AS{next_as}#{next_if})"),
        Verdict::Delivered { at, .. } => format!("Delivered(AS{at})"),
        o => format!("{o:?}"),
    }
}
fn short_sim(v: &SimVerdict) -> String {
    match v {
        SimVerdict::Param { code, .. } => format!("SCMP ParameterProblem({} {})", code, bridge::param_name(*code)),
        SimVerdict::IfDown { ia, if_id, .. } => format!("SCMP ExternalInterfaceDown({ia:x}#{if_id})"),
        o => format!("{o:?}"),
    }
}

#[allow(clippy::too_many_arguments)]
fn witness(env: &Env, start: AsIdx, ingress: u16, pkt: &[u8], step_no: usize, at: AsIdx, ing: u16, bytes: &[u8], r: Option<&Step>, sim: Option<&SimVerdict>, origin: &dyn Fn() -> Value) -> Value {
    json!({
        "topology": bridge::topo_to_json(env.t),
        "inject": {"as": start, "ia": ia_str(env.t, start), "ingress": ingress},
        "packet": vpc::hex(pkt),
        "now": env.now,
        "links_down": down_list(env.down),
        "origin": origin(),
        "diverged_at": {"step": step_no, "as": at, "ia": ia_str(env.t, at), "ingress": ing, "packet": vpc::hex(bytes)},
        "reference": r.map(|r| json!({"verdict": short(&r.verdict), "events": format!("{:?}", r.events), "dontcare": r.dontcare, "notes": r.notes, "xover": r.xover, "peering": r.peering})),
        "simulator": sim.map(short_sim),
    })
}

#[allow(clippy::too_many_arguments)]
fn safety(env: &Env, loc: &mut Loc, at: AsIdx, ing: u16, bytes: &[u8], sim: &SimVerdict, start: AsIdx, ingress: u16, pkt: &[u8], step_no: usize, origin: &dyn Fn() -> Value) {
    match sim {
        SimVerdict::Delivered => {
            let here = env.t.ases[at].ia();
            let dst_now = if bytes.len() >= 20 { Some(u64::from_be_bytes(bytes[12..20].try_into().unwrap())) } else { None };
            if dst_now != Some(here) {
                env.findings.report("safety:delivered-outside-destination-as", metric(env, pkt), &|| format!("simulator delivers locally at AS{at} but DstIA is {:x?}", dst_now), &|| witness(env, start, ingress, pkt, step_no, at, ing, bytes, None, Some(sim), origin));
            }
        }
        SimVerdict::Forward { egress_if, next_ia, next_if } => match env.t.neighbour(at, *egress_if) {
            None => env.findings.report("safety:forward-over-nonexistent-interface", metric(env, pkt), &|| format!("simulator forwards over interface {egress_if} which AS{at} does not have"), &|| witness(env, start, ingress, pkt, step_no, at, ing, bytes, None, Some(sim), origin)),
            Some((n, nif, _, li)) => {
                if env.down[li] {
                    env.findings.report("safety:forward-over-down-link", metric(env, pkt), &|| format!("simulator forwards over link {li} which is down"), &|| witness(env, start, ingress, pkt, step_no, at, ing, bytes, None, Some(sim), origin));
                }
                if env.t.ases[n].ia() != *next_ia || nif != *next_if {
                    env.findings.report("safety:forward-arrives-at-wrong-neighbour", metric(env, pkt), &|| "next (AS, interface) is not the other end of the egress link".to_string(), &|| witness(env, start, ingress, pkt, step_no, at, ing, bytes, None, Some(sim), origin));
                }
            }
        },
        SimVerdict::Panic(m) => {
            let class = format!("panic@{}", m.rsplit(" @ ").next().unwrap_or("?"));
            env.findings.report(&class, metric(env, pkt), &|| format!("the simulator step panicked: {m}"), &|| witness(env, start, ingress, pkt, step_no, at, ing, bytes, None, Some(sim), origin));
        }
        SimVerdict::IterError(e) => {
            env.findings.report("simulator-internal-error", metric(env, pkt), &|| format!("ScionNetworkSim step returned an error instead of a verdict: {e}"), &|| witness(env, start, ingress, pkt, step_no, at, ing, bytes, None, Some(sim), origin));
        }
        _ => {}
    }
    // observation only (not part of the property text): does an SCMP error quote the packet as received?
    if let Some(q) = sim.quoted() {
        let n = q.len().min(bytes.len());
        if q[..n] == bytes[..n] {
            loc.fast[40] += 1;
        } else {
            let ptr_moved = q.len() > PATH_OFF && q[PATH_OFF] != bytes[PATH_OFF];
            loc.fast[if ptr_moved { 41 } else { 42 }] += 1;
        }
    }
}

// ------------------------------------------------------------------------------------------
// corruptions
// ------------------------------------------------------------------------------------------

/// Every single-field corruption of `pkt` (name, bytes).
fn corruptions(t: &Topo, pkt: &[u8]) -> Vec<(String, Vec<u8>)> {
    let mut out = vec![];
    let Some(p) = parse_path(pkt) else { return out };
    let ninf = p.num_inf();
    let nh = p.hops.len();
    let mut put = |name: String, f: &dyn Fn(&mut Vec<u8>)| {
        let mut b = pkt.to_vec();
        f(&mut b);
        if b != pkt {
            out.push((name, b));
        }
    };
    let io = |i: usize| PATH_OFF + 4 + 8 * i;
    let ho = |h: usize| PATH_OFF + 4 + 8 * ninf + 12 * h;
    for h in 0..nh {
        let o = ho(h);
        for bit in [0x01u8, 0x02, 0x04, 0x80] {
            put(format!("hop{h}.flags^{bit:#x}"), &|b| b[o] ^= bit);
        }
        put(format!("hop{h}.exp+1"), &|b| b[o + 1] = b[o + 1].wrapping_add(1));
        put(format!("hop{h}.exp-1"), &|b| b[o + 1] = b[o + 1].wrapping_sub(1));
        put(format!("hop{h}.cons_ingress^1"), &|b| b[o + 3] ^= 1);
        put(format!("hop{h}.cons_ingress=0"), &|b| {
            b[o + 2] = 0;
            b[o + 3] = 0
        });
        put(format!("hop{h}.cons_egress^1"), &|b| b[o + 5] ^= 1);
        put(format!("hop{h}.cons_egress=0"), &|b| {
            b[o + 4] = 0;
            b[o + 5] = 0
        });
        put(format!("hop{h}.swap-ingress-egress"), &|b| {
            b.swap(o + 2, o + 4);
            b.swap(o + 3, o + 5)
        });
        put(format!("hop{h}.mac[0]^1"), &|b| b[o + 6] ^= 1);
        put(format!("hop{h}.mac[2]^1"), &|b| b[o + 8] ^= 1);
        put(format!("hop{h}.mac[5]^0x80"), &|b| b[o + 11] ^= 0x80);
    }
    for i in 0..ninf {
        let o = io(i);
        for bit in [0x01u8, 0x02, 0x04] {
            put(format!("info{i}.flags^{bit:#x}"), &|b| b[o] ^= bit);
        }
        put(format!("info{i}.rsv^1"), &|b| b[o + 1] ^= 1);
        put(format!("info{i}.segid^1"), &|b| b[o + 3] ^= 1);
        put(format!("info{i}.segid^0x8000"), &|b| b[o + 2] ^= 0x80);
        put(format!("info{i}.timestamp+1"), &|b| {
            let v = u32::from_be_bytes(b[o + 4..o + 8].try_into().unwrap()).wrapping_add(1);
            b[o + 4..o + 8].copy_from_slice(&v.to_be_bytes())
        });
        put(format!("info{i}.timestamp-1"), &|b| {
            let v = u32::from_be_bytes(b[o + 4..o + 8].try_into().unwrap()).wrapping_sub(1);
            b[o + 4..o + 8].copy_from_slice(&v.to_be_bytes())
        });
    }
    for v in 0..4u8 {
        put(format!("curr_inf={v}"), &|b| b[PATH_OFF] = (b[PATH_OFF] & 0x3f) | (v << 6));
    }
    for v in (0..=nh as u8).chain([63u8]) {
        put(format!("curr_hf={v}"), &|b| b[PATH_OFF] = (b[PATH_OFF] & 0xc0) | (v & 63));
    }
    put("meta.rsv^1".into(), &|b| b[PATH_OFF + 1] ^= 0x04);
    for k in 0..3usize {
        for (nm, f) in [("+1", 1i8), ("-1", -1i8), ("=0", 0i8)] {
            put(format!("seg_len[{k}]{nm}"), &|b| {
                let meta = u32::from_be_bytes(b[PATH_OFF..PATH_OFF + 4].try_into().unwrap());
                let sh = 12 - 6 * k as u32;
                let cur = (meta >> sh) & 63;
                let new = match f {
                    0 => 0,
                    d => (cur as i32 + d as i32).rem_euclid(64) as u32,
                };
                let m2 = (meta & !(63 << sh)) | (new << sh);
                b[PATH_OFF..PATH_OFF + 4].copy_from_slice(&m2.to_be_bytes());
            });
        }
    }
    for (a, n) in t.ases.iter().enumerate() {
        put(format!("dst_ia=AS{a}"), &|b| b[12..20].copy_from_slice(&n.ia().to_be_bytes()));
        put(format!("src_ia=AS{a}"), &|b| b[20..28].copy_from_slice(&n.ia().to_be_bytes()));
    }
    put("dst_ia=unknown".into(), &|b| b[12..20].copy_from_slice(&0x0009_ff00_0000_0999u64.to_be_bytes()));
    put("src_ia=unknown".into(), &|b| b[20..28].copy_from_slice(&0x0009_ff00_0000_0999u64.to_be_bytes()));
    put("dst_ia=wildcard".into(), &|b| b[12..20].copy_from_slice(&0u64.to_be_bytes()));
    out
}

// ------------------------------------------------------------------------------------------
// per-topology exploration
// ------------------------------------------------------------------------------------------

#[derive(Default)]
pub struct TopoReport {
    pub loc: Loc,
    pub nstates: u64,
    pub pieces: usize,
    pub packets: [u64; 3],
    pub valid: usize,
    pub valid_shortcut: usize,
    pub valid_peering: usize,
    pub valid_3seg: usize,
    pub corrupted: u64,
    pub pair_mode_full: bool,
    pub skipped: Option<String>,
}

fn link_sets(nlinks: usize) -> Vec<Vec<bool>> {
    let mut v = vec![vec![false; nlinks]];
    if nlinks <= 4 {
        for m in 1u32..(1 << nlinks) {
            v.push((0..nlinks).map(|i| m & (1 << i) != 0).collect());
        }
    } else {
        for i in 0..nlinks {
            let mut d = vec![false; nlinks];
            d[i] = true;
            v.push(d);
        }
    }
    v
}

/// Injection points of a packet: (pointer position, AS, ingress interface).
fn injections(t: &Topo, owners: &[AsIdx], positions: &[usize]) -> Vec<(usize, AsIdx, u16)> {
    let mut v = vec![];
    for &h in positions {
        let o = owners[h];
        v.push((h, o, 0u16));
        for (ifid, _, _, _, _) in t.interfaces(o) {
            v.push((h, o, ifid));
        }
        if h == 0 {
            for a in 0..t.ases.len() {
                if a != o {
                    v.push((0, a, 0));
                }
            }
        }
    }
    v
}

struct Made {
    bytes: Vec<u8>,
    owners: Vec<AsIdx>,
    seg_start: Vec<usize>,
}
fn make(t: &Topo, ps: &[&Piece]) -> Made {
    let bytes = build_packet(t, ps);
    let mut owners = vec![];
    let mut seg_start = vec![];
    for p in ps {
        seg_start.push(owners.len());
        owners.extend(p.owners.iter().cloned());
    }
    Made { bytes, owners, seg_start }
}

type Inj = (usize, AsIdx, u16);

/// Walk one made packet from the given injection points; returns the injection points from which
/// some router carried the packet (by forwarding) to its last hop field.
fn explore_packet(env: &Env, loc: &mut Loc, m: &Made, inj: &[Inj], origin: &dyn Fn() -> Value, valid_out: &mut Vec<(Vec<u8>, AsIdx, WalkOut)>) -> Vec<Inj> {
    let mut reached = vec![];
    let seg_of = |h: usize| m.seg_start.iter().rposition(|s| *s <= h).unwrap_or(0);
    for &(h, a, ifid) in inj {
        let mut b = m.bytes.clone();
        set_pointer(&mut b, seg_of(h) as u8, h as u8);
        let natural = h == 0 && ifid == 0 && a == m.owners[0];
        let o = || json!({"made_from": origin(), "pointer": h});
        let w = walk(env, loc, a, ifid, &b, &o, false);
        if w.reached_last_hop {
            reached.push((h, a, ifid));
        }
        if natural && w.r_delivered_at.is_some() {
            valid_out.push((b, a, w));
        }
    }
    reached
}

pub fn explore_topology(run: &vpc::Run, findings: &Findings, t: &Topo, levels: usize, deep: bool) -> TopoReport {
    let mut rep = TopoReport::default();
    let real = match vpc::catch(|| bridge::build_topology(t)) {
        Ok(Ok(r)) => r,
        Ok(Err(e)) => {
            rep.skipped = Some(e);
            return rep;
        }
        Err(p) => {
            rep.skipped = Some(format!("panic: {p}"));
            return rep;
        }
    };
    let segs = refseg::beacon(t, BASE_TS);
    let nsegs = segs.up_down.len() + segs.core.len();
    let pieces = pieces_of(&segs);
    rep.pieces = pieces.len();
    let up = vec![false; t.links.len()];
    let now0 = BASE_TS + 17 * nsegs as u32 + 5;
    let env = Env { findings, run, t, real: &real, down: &up, now: now0, verbose: false, valid_origin: false };
    let valid: Mutex<Vec<(Vec<u8>, AsIdx, WalkOut)>> = Mutex::new(vec![]);
    let total = Mutex::new(Loc::default());

    // ---- level 1
    let surv1: Vec<usize> = (0..pieces.len())
        .into_par_iter()
        .filter_map(|a| {
            let mut loc = Loc::default();
            let mut v = vec![];
            let m = make(t, &[&pieces[a]]);
            let pos: Vec<usize> = (0..m.owners.len()).collect();
            let reached = explore_packet(&env, &mut loc, &m, &injections(t, &m.owners, &pos), &|| json!([pieces[a].describe()]), &mut v);
            total.lock().unwrap().merge(loc);
            valid.lock().unwrap().extend(v);
            // a one-hop piece is at its last hop from the start
            (!reached.is_empty() || m.owners.len() == 1).then_some(a)
        })
        .collect();
    rep.packets[0] = pieces.len() as u64;

    // ---- level 2
    let full = pieces.len() <= PAIR_FULL_LIMIT;
    rep.pair_mode_full = full;
    // a non-peering one-hop first segment is dropped by the simulator and left open by the
    // specification whatever follows it: level 1 covers it
    let firsts: Vec<usize> = if full { (0..pieces.len()).collect() } else { surv1.clone() };
    let firsts: Vec<usize> = firsts.into_iter().filter(|&a| pieces[a].hops.len() > 1 || pieces[a].flags & 2 != 0).collect();
    let mut surv2: Vec<(usize, usize, Vec<Inj>)> = vec![];
    if levels >= 2 {
        let res: Vec<Vec<(usize, usize, Vec<Inj>)>> = firsts
            .par_iter()
            .map(|&a| {
                let mut loc = Loc::default();
                let mut v = vec![];
                let mut s = vec![];
                for b in 0..pieces.len() {
                    let m = make(t, &[&pieces[a], &pieces[b]]);
                    // the join (a's last hop) on every interface of its AS, and the natural start
                    let join = m.seg_start[1] - 1;
                    let mut inj = injections(t, &m.owners, &[join]);
                    if join != 0 {
                        inj.push((0, m.owners[0], 0));
                    }
                    inj.retain(|(h, a0, _)| *h == join && *a0 == m.owners[join] || *h == 0 && *a0 == m.owners[0]);
                    let reached = explore_packet(&env, &mut loc, &m, &inj, &|| json!([pieces[a].describe(), pieces[b].describe()]), &mut v);
                    if !reached.is_empty() {
                        s.push((a, b, reached));
                    }
                }
                total.lock().unwrap().merge(loc);
                valid.lock().unwrap().extend(v);
                s
            })
            .collect();
        rep.packets[1] = (firsts.len() * pieces.len()) as u64;
        surv2 = res.into_iter().flatten().collect();
    }

    // ---- level 3
    if levels >= 3 {
        surv2.par_iter().for_each(|(a, b, inj)| {
            let (a, b) = (*a, *b);
            let mut loc = Loc::default();
            let mut v = vec![];
            for c in 0..pieces.len() {
                let m = make(t, &[&pieces[a], &pieces[b], &pieces[c]]);
                explore_packet(&env, &mut loc, &m, inj, &|| json!([pieces[a].describe(), pieces[b].describe(), pieces[c].describe()]), &mut v);
            }
            total.lock().unwrap().merge(loc);
            valid.lock().unwrap().extend(v);
        });
        rep.packets[2] = (surv2.len() * pieces.len()) as u64;
    }

    // ---- valid packets: clocks x link states, and single-field corruptions of every on-path state
    let mut valid = valid.into_inner().unwrap();
    valid.sort_by(|a, b| a.0.cmp(&b.0));
    valid.dedup_by(|a, b| a.0 == b.0);
    rep.valid = valid.len();
    for (_, _, w) in &valid {
        if w.saw_peering {
            rep.valid_peering += 1;
        }
        if w.segments == 3 {
            rep.valid_3seg += 1;
        }
    }
    let lsets = link_sets(t.links.len());
    let reals: Vec<ScionTopology> = lsets.iter().map(|d| bridge::with_links_down(&real, t, d)).collect();
    let single_down: Vec<usize> = (0..lsets.len()).filter(|&i| lsets[i].iter().filter(|d| **d).count() == 1).collect();
    let shortcut_count = Mutex::new(0usize);
    let corrupted = Mutex::new(0u64);
    valid.par_iter().for_each(|(pkt, src, _)| {
        let mut loc = Loc::default();
        let p = parse_path(pkt).expect("valid packet parses");
        let t0 = p.infos.iter().map(|i| i.timestamp).max().unwrap();
        let mut e = u64::MAX;
        for (h, hop) in p.hops.iter().enumerate() {
            let ts = p.infos[p.seg_of(h).unwrap()].timestamp;
            e = e.min(refrouter::last_valid_second(ts, hop.exp_time));
        }
        let e = e as u32;
        let clocks = [t0 - 1, t0, e - 1, e, e + 1];
        // the reference walk at t0, links up: on-path states
        let env0 = Env { findings, run, t, real: &real, down: &up, now: t0, verbose: false, valid_origin: true };
        let w0 = walk(&env0, &mut loc, *src, 0, pkt, &|| json!({"valid_packet": vpc::hex(pkt)}), true);
        // a shortcut = cross-over at a non-core AS
        if w0.saw_xover {
            let mut sc = false;
            for (a, ing, b) in &w0.r_states {
                let st = refrouter::step(t, *a, *ing, b, t0, &|_| false);
                if st.xover && !t.ases[*a].core {
                    sc = true;
                }
            }
            if sc {
                *shortcut_count.lock().unwrap() += 1;
            }
        }
        for (ci, &now) in clocks.iter().enumerate() {
            for (li, d) in lsets.iter().enumerate() {
                if ci == 1 && li == 0 {
                    continue; // done above
                }
                let env = Env { findings, run, t, real: &reals[li], down: d, now, verbose: false, valid_origin: false };
                walk(&env, &mut loc, *src, 0, pkt, &|| json!({"valid_packet": vpc::hex(pkt), "clock": CLOCK_NAMES[ci]}), false);
            }
        }
        let mut ncorr = 0u64;
        for (k, (a, ing, bytes)) in w0.r_states.iter().enumerate() {
            for (name, cb) in corruptions(t, bytes) {
                ncorr += 1;
                let o = || json!({"valid_packet": vpc::hex(pkt), "on_path_state": k, "corruption": name});
                let cclocks: &[u32] = if deep { &clocks } else { &clocks[1..=1] };
                for &now in cclocks {
                    let env = Env { findings, run, t, real: &real, down: &up, now, verbose: false, valid_origin: false };
                    walk(&env, &mut loc, *a, *ing, &cb, &o, false);
                }
                if deep {
                    for &li in &single_down {
                        let env = Env { findings, run, t, real: &reals[li], down: &lsets[li], now: t0, verbose: false, valid_origin: false };
                        walk(&env, &mut loc, *a, *ing, &cb, &o, false);
                    }
                } else {
                    // one combined fault: the corruption met at the first second after the earliest expiry
                    let env = Env { findings, run, t, real: &real, down: &up, now: clocks[4], verbose: false, valid_origin: false };
                    walk(&env, &mut loc, *a, *ing, &cb, &o, false);
                }
            }
        }
        *corrupted.lock().unwrap() += ncorr;
        total.lock().unwrap().merge(loc);
    });
    rep.valid_shortcut = shortcut_count.into_inner().unwrap();
    rep.corrupted = corrupted.into_inner().unwrap();
    rep.loc = total.into_inner().unwrap();
    // keep the count, free the set (the reports of all topologies live until the end of the run)
    rep.nstates = rep.loc.states.len() as u64;
    rep.loc.states = StateSet::default();
    rep
}

// ------------------------------------------------------------------------------------------
// entry point
// ------------------------------------------------------------------------------------------

fn quick_curated() -> Vec<Topo> {
    let want = ["cur-shortcut-common-noncore", "cur-peering-leaf", "cur-peering-cross-isd"];
    reftopo_enum::curated().into_iter().filter(|t| want.contains(&t.name.as_str())).collect()
}

pub fn run(args: &vpc::Args) -> ! {
    vpc::quiet_panics();
    if let Some(f) = &args.replay {
        replay(args, f);
    }
    if std::env::var("VP_COUNT").is_ok() {
        for (n, m) in [(3, 2), (4, 1), (4, 2), (5, 1)] {
            let ts = reftopo_enum::enumerate(n, m);
            let mut ps: Vec<usize> = ts.iter().map(|t| pieces_of(&refseg::beacon(t, BASE_TS)).len()).collect();
            ps.sort();
            let sq: u128 = ps.iter().map(|p| (*p as u128) * (*p as u128)).sum();
            println!("n={n} mult<={m}: {} topologies, pieces min/median/max = {}/{}/{}, sum of squares {}", ts.len(), ps[0], ps[ps.len() / 2], ps[ps.len() - 1], sq);
        }
        std::process::exit(0);
    }
    let run = vpc::Run::new(args);
    let thorough = run.tier == vpc::Tier::Thorough;
    let mut topos: Vec<Topo> = vec![];
    for n in 1..=3 {
        topos.extend(reftopo_enum::enumerate(n, 2));
    }
    let mut bound_topos = String::from("all R-topo shapes n<=3 with core-link multiplicity<=2");
    if thorough {
        // n = 4: every shape with multiplicity 1, and the multiplicity-2 shapes whose authentic
        // material stays below N4_PIECE_CAP pieces (pairs grow with the square of it)
        let m1 = reftopo_enum::enumerate(4, 1);
        let same = |a: &Topo, b: &Topo| a.ases == b.ases && a.links == b.links;
        let m2: Vec<Topo> = reftopo_enum::enumerate(4, 2).into_par_iter().filter(|t| !m1.iter().any(|x| same(x, t)) && pieces_of(&refseg::beacon(t, BASE_TS)).len() <= N4_PIECE_CAP).collect();
        bound_topos.push_str(&format!(", all n=4 shapes with multiplicity 1 ({}), the n=4 multiplicity-2 shapes with <= {} pieces ({})", m1.len(), N4_PIECE_CAP, m2.len()));
        topos.extend(m1);
        topos.extend(m2);
    }
    bound_topos.push_str(", both interface numberings each");
    let enumerated = topos.len();
    if thorough {
        topos.extend(reftopo_enum::curated().into_iter().filter(|t| t.name != "cur-repo-default-graph"));
    } else {
        topos.extend(quick_curated());
    }
    if let Ok(only) = std::env::var("VP_ONLY") {
        topos = reftopo_enum::curated().into_iter().chain((1..=4).flat_map(|n| reftopo_enum::enumerate(n, 2))).filter(|t| t.name.contains(&only)).collect();
    }
    let ntopos = topos.len();
    let findings = Findings::default();
    let done = std::sync::atomic::AtomicUsize::new(0);
    let reports: Vec<(String, TopoReport)> = topos
        .par_iter()
        .map(|t| {
            let r = explore_topology(&run, &findings, t, 3, thorough);
            let d = done.fetch_add(1, std::sync::atomic::Ordering::Relaxed) + 1;
            if std::env::var("VP_DEBUG").is_ok() && d % 50 == 0 {
                eprintln!("[{:.0}s] {d}/{ntopos} topologies", run.elapsed_s());
            }
            (t.name.clone(), r)
        })
        .collect();

    if std::env::var("VP_DEBUG").is_ok() {
        for (name, r) in &reports {
            eprintln!("{name}: pieces={} packets={:?} valid={} corrupted={} walks={} transitions={} states={}", r.pieces, r.packets, r.valid, r.corrupted, r.loc.walks, r.loc.transitions, r.nstates);
        }
    }
    let mut states = 0u64;
    let mut transitions = 0u64;
    let mut walks = 0u64;
    let (mut pk, mut valid, mut vs, mut vp, mut v3, mut corr) = ([0u64; 3], 0usize, 0usize, 0usize, 0usize, 0u64);
    let mut skipped = vec![];
    let mut pruned_pairs = vec![];
    let mut outcomes: BTreeMap<String, u64> = BTreeMap::new();
    for (name, r) in &reports {
        if let Some(s) = &r.skipped {
            skipped.push(json!({"topology": name, "why": s}));
            continue;
        }
        states += r.nstates;
        transitions += r.loc.transitions;
        walks += r.loc.walks;
        for k in 0..3 {
            pk[k] += r.packets[k];
        }
        valid += r.valid;
        vs += r.valid_shortcut;
        vp += r.valid_peering;
        v3 += r.valid_3seg;
        corr += r.corrupted;
        if !r.pair_mode_full {
            pruned_pairs.push(name.clone());
        }
        for (k, v) in &r.loc.all_outcomes() {
            *outcomes.entry(k.clone()).or_default() += v;
        }
    }
    for (k, v) in &outcomes {
        run.outcome_n(k, *v);
    }
    run.outcome_n("walk:valid-packets(delivered-by-reference)", valid as u64);
    run.outcome_n("walk:valid-shortcut-packets", vs as u64);
    run.outcome_n("walk:valid-peering-packets", vp as u64);
    run.outcome_n("walk:valid-3-segment-packets", v3 as u64);
    findings.flush(&run);
    if !skipped.is_empty() {
        run.violation("harness:pocketscion-rejects-reference-topology", "ScionTopologyBuilder refused a topology of the enumerator", json!({"skipped": skipped}));
    }
    let vacuous = valid == 0 || vs == 0 || vp == 0 || v3 == 0;
    if vacuous && std::env::var("VP_ONLY").is_err() {
        vpc::machinery_failure(&format!("vacuous exploration: valid={valid} shortcut={vs} peering={vp} 3-segment={v3}"));
    }
    for (name, r) in reports.iter().take(3) {
        run.sample(3, || json!({"topology": name, "pieces": r.pieces, "packets_per_level": r.packets, "valid": r.valid, "transitions": r.loc.transitions}));
    }
    let bound = format!(
        "{} topologies ({} = {}, + {} curated); per topology all authentic pieces (runs 1..4 of every R-seg segment, both orders, both ConsDir, peer-hop variants with/without Peering flag, SegID match / match-after-ingress-update / foreign); packets: {} 1-piece (every position x owner AS x {{0, every interface}}, position 0 at every AS), {} 2-piece ({}; injected at the join x {{0, every interface}} and at the natural start), {} 3-piece (prefix carried to its last hop by some router); clock after all timestamps, links up; {} valid packets x 5 clocks x link sets (all subsets <=4 links, else all-up + singles); {} single-field corruptions of on-path states x ({})",
        ntopos,
        bound_topos,
        enumerated,
        ntopos - enumerated,
        pk[0],
        pk[1],
        if pruned_pairs.is_empty() { "all ordered pairs with a first piece of >=2 hops or a peering first piece".to_string() } else { format!("all such ordered pairs, except on {} topologies with >{} pieces: first piece carried to its last hop", pruned_pairs.len(), PAIR_FULL_LIMIT) },
        pk[2],
        valid,
        corr,
        if thorough { "5 clocks, links up; clock ts x each single link down" } else { "clock ts and clock exp+1, links up" }
    );
    run.finish(
        "model_checking",
        json!({
            "states": states,
            "transitions": transitions,
            "traces_validated_against_impl": walks,
            "exhaustive": true,
            "bound": bound,
            "topologies": ntopos,
            "packets_per_level": pk,
            "valid_packets": {"total": valid, "shortcut": vs, "peering": vp, "three_segment": v3},
            "corrupted_states": corr,
        }),
        &[
            "R-router (vpc::refrouter) is written from draft-dekater-scion-dataplane / scionproto router semantics; where the specification fixes no order of checks (two faults coexist) or no behaviour (future timestamp, router alert on a segment-change hop, one-hop non-peering segment) only accept-vs-refuse is compared",
            "every AS is one border router owning all its interfaces (as in pocketscion's simulator); AS-internal transit between sibling routers is not modelled",
            "packets carry a UDP payload; router-alert flags hand the packet to the router (terminal for the step) in both models",
            "SCMP error quoting (does the error quote the packet as received) is recorded as obs:* outcomes, not judged: the property text does not state it",
        ],
    )
}

fn replay(args: &vpc::Args, f: &std::path::Path) -> ! {
    let v = vpc::read_replay(f);
    let w = &v["witness"];
    let t = bridge::topo_from_json(&w["topology"]).unwrap_or_else(|e| vpc::machinery_failure(&format!("replay topology: {e}")));
    let real = bridge::build_topology(&t).unwrap_or_else(|e| vpc::machinery_failure(&format!("replay topology build: {e}")));
    let mut down = vec![false; t.links.len()];
    for d in w["links_down"].as_array().cloned().unwrap_or_default() {
        down[d.as_u64().unwrap() as usize] = true;
    }
    let real = bridge::with_links_down(&real, &t, &down);
    let pkt = vpc::unhex(w["packet"].as_str().unwrap_or(""));
    let start = w["inject"]["as"].as_u64().unwrap_or(0) as usize;
    let ingress = w["inject"]["ingress"].as_u64().unwrap_or(0) as u16;
    let now = w["now"].as_u64().unwrap_or(0) as u32;
    println!("REPLAY {} class={}\n  topology {} ({} ASes, {} links), inject at AS{start} ingress {ingress}, now {now}, links down {:?}\n  origin: {}", f.display(), v["class"], t.name, t.ases.len(), t.links.len(), w["links_down"], w["origin"]);
    for (i, a) in t.ases.iter().enumerate() {
        println!("  AS{i}: {}", ia_str(&t, i));
        let _ = a;
    }
    for l in &t.links {
        println!("  link AS{}#{} -- AS{}#{} {:?}", l.a, l.a_if, l.b, l.b_if, l.kind);
    }
    // the replay run records into a scratch Run so that nothing under /verif/replays is overwritten
    let a2 = vpc::Args { prop: args.prop.clone(), tier: args.tier, seed: args.seed, replay: None, extra: vec![] };
    unsafe { std::env::set_var("VERIF_ROOT", "/root/scratch/c13-replay-out") };
    let run = vpc::Run::new(&a2);
    let findings = Findings::default();
    let env = Env { findings: &findings, run: &run, t: &t, real: &real, down: &down, now, verbose: true, valid_origin: false };
    let mut loc = Loc::default();
    let out = walk(&env, &mut loc, start, ingress, &pkt, &|| json!("replay"), false);
    findings.flush(&run);
    println!("REPLAY-RESULT steps={} reference-final={} delivered-by-reference={:?} divergence-classes={}", out.steps, out.r_final, out.r_delivered_at, findings.len());
    let _ = std::fs::remove_dir_all("/root/scratch/c13-replay-out");
    std::process::exit(if run.violation_count() > 0 { 1 } else { 0 })
}

#[allow(dead_code)]
fn _unused(_: &RSegment, _: &Event) {}
