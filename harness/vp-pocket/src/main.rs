mod bridge;
mod c01;
mod c13;

fn main() {
    let args = vpc::Args::parse();
    match args.prop.as_str() {
        "C01" => c01::run(&args),
        "C13" => c13::run(&args),
        p => vpc::machinery_failure(&format!("property {p} is not served by this binary")),
    }
}
