//! C09 — the SNAP tunnel carries traffic only for identities authorised at that moment.
//!
//! Explicit-state exploration (BFS over event histories, canonical-state de-duplication) in which
//! every transition runs the REAL code: `snap_tun::server::SnapTunServer` (sans-IO), the real
//! `snap_control::server::identity_registry::IdentityRegistry` and real `ana_gotatun::noise::Tunn`
//! clients (one per (address, identity)). The only substituted piece is the 3-line
//! `impl SnapTunAuthorization for IdentityRegistry` glue: [`Authz`] forwards to that very impl but
//! with `base + logical clock` instead of the server's `Instant::now()`, so time belongs to the
//! explorer, and it records which identity the server asked about.
//!
//! Nothing random or wall-clock dependent enters a state key or a verdict: ciphertexts, ephemeral
//! keys and timestamps are never inspected, only accept/reject outcomes and decrypted plaintext.
//! Every verdict has the form "a payload flowed although the reference says unauthorised / to the
//! wrong identity" or "registry answer differs from the reference at logical time t"; a refused
//! handshake or refused packet is never a violation (it is counted, and where it makes the abstract
//! state uncertain the branch is cut and reported as not exhaustive).
use std::{
    collections::{BTreeMap, VecDeque},
    net::SocketAddr,
    sync::{
        Arc, Mutex,
        atomic::{AtomicU64, Ordering},
    },
    time::{Duration, Instant},
};

use ana_gotatun::{
    noise::{Tunn, TunnResult, rate_limiter::RateLimiter},
    packet::{Packet, WgKind},
    x25519,
};
use snap_control::server::identity_registry::IdentityRegistry;
use snap_tun::server::{HandleIncomingPacketResult, SnapTunAuthorization, SnapTunServer};
use vpc::{Value, json, rayon::prelude::*};

const IDS: [&str; 3] = ["A", "B", "C"];
const KEYS: [&str; 2] = ["K1", "K2"];
const ADDRS: [&str; 2] = ["X", "Y"];
const LIVES: [u32; 2] = [1, 3];
/// Never reached: with a fresh server + rate limiter per replayed history at most `depth`
/// handshakes are ever counted, so the under-load/cookie path cannot influence outcomes.
const RATE_LIMIT: u64 = 1 << 40;

// ---------------------------------------------------------------------------------------------
// Events
// ---------------------------------------------------------------------------------------------

#[derive(Clone, Copy, PartialEq, Eq, Debug)]
enum Ev {
    Reg { k: usize, i: usize, l: u32 },
    Tick,
    Purge,
    Hs { a: usize, i: usize },
    In { a: usize },
    Out { a: usize },
    Timers,
}

impl Ev {
    fn text(&self) -> String {
        match *self {
            Ev::Reg { k, i, l } => format!("Reg {} {} {}", KEYS[k], IDS[i], l),
            Ev::Tick => "Tick".into(),
            Ev::Purge => "Purge".into(),
            Ev::Hs { a, i } => format!("Hs {} {}", ADDRS[a], IDS[i]),
            Ev::In { a } => format!("In {}", ADDRS[a]),
            Ev::Out { a } => format!("Out {}", ADDRS[a]),
            Ev::Timers => "Timers".into(),
        }
    }
    fn parse(s: &str) -> Option<Ev> {
        let t: Vec<&str> = s.split_whitespace().collect();
        let pos = |set: &[&str], x: &str| set.iter().position(|y| *y == x);
        Some(match t.as_slice() {
            ["Reg", k, i, l] => Ev::Reg { k: pos(&KEYS, k)?, i: pos(&IDS, i)?, l: l.parse().ok()? },
            ["Tick"] => Ev::Tick,
            ["Purge"] => Ev::Purge,
            ["Hs", a, i] => Ev::Hs { a: pos(&ADDRS, a)?, i: pos(&IDS, i)? },
            ["In", a] => Ev::In { a: pos(&ADDRS, a)? },
            ["Out", a] => Ev::Out { a: pos(&ADDRS, a)? },
            ["Timers"] => Ev::Timers,
            _ => return None,
        })
    }
}

fn all_events() -> Vec<Ev> {
    let mut v = vec![];
    for k in 0..KEYS.len() {
        for i in 0..IDS.len() {
            for l in LIVES {
                v.push(Ev::Reg { k, i, l });
            }
        }
    }
    v.push(Ev::Tick);
    v.push(Ev::Purge);
    for a in 0..ADDRS.len() {
        for i in 0..IDS.len() {
            v.push(Ev::Hs { a, i });
        }
    }
    for a in 0..ADDRS.len() {
        v.push(Ev::In { a });
    }
    for a in 0..ADDRS.len() {
        v.push(Ev::Out { a });
    }
    v.push(Ev::Timers);
    v
}

fn hist_text(h: &[Ev]) -> Vec<String> {
    h.iter().map(Ev::text).collect()
}

// ---------------------------------------------------------------------------------------------
// Reference model (independent of the subject): the registry as two plain maps, plus the
// harness' bookkeeping of who owns the tunnel of an address and which clients hold a session.
// ---------------------------------------------------------------------------------------------

#[derive(Clone, Copy, PartialEq, Eq, Debug)]
enum Loss {
    Never,
    Superseded,
    Purged,
}

#[derive(Clone)]
struct Ref {
    now: u32,
    /// token key -> identity ("at most one identity per key")
    key_to_id: BTreeMap<usize, usize>,
    /// identity -> expiry, logical seconds ("at most one key per identity": every identity in here
    /// is the image of exactly one key)
    expiry: BTreeMap<usize, u32>,
    /// diagnostic only (never in keys/verdict decisions): why an identity has no entry
    loss: [Loss; 3],
    /// per address: identity whose handshake created the tunnel (first completed handshake)
    owner: [Option<usize>; 2],
    /// per (address, identity): 0 no client, 1 handshake attempted, 2 WireGuard session established
    client: [[u8; 3]; 2],
}

impl Ref {
    fn new() -> Ref {
        Ref { now: 0, key_to_id: BTreeMap::new(), expiry: BTreeMap::new(), loss: [Loss::Never; 3], owner: [None; 2], client: [[0; 3]; 2] }
    }
    /// authorised iff registered and expiry strictly after now
    fn auth(&self, i: usize) -> bool {
        matches!(self.expiry.get(&i), Some(e) if *e > self.now)
    }
    fn why_unauth(&self, i: usize) -> &'static str {
        match self.expiry.get(&i) {
            Some(e) if *e == self.now => "at-expiry-instant",
            Some(e) if *e < self.now => "after-expiry",
            Some(_) => "authorised",
            None => match self.loss[i] {
                Loss::Never => "never-registered",
                Loss::Superseded => "superseded",
                Loss::Purged => "purged-after-expiry",
            },
        }
    }
    /// newest registration wins; returns (class, identity-had-an-entry-before)
    fn reg(&mut self, k: usize, i: usize, l: u32) -> (&'static str, bool) {
        let had = self.expiry.contains_key(&i);
        // one key per identity: the identity leaves whatever other key it was under
        let old_key = self.key_to_id.iter().find(|(_, v)| **v == i).map(|(kk, _)| *kk);
        let mut class = if had { "reg:refresh" } else { "reg:new" };
        if let Some(ok) = old_key {
            if ok != k {
                self.key_to_id.remove(&ok);
                class = "reg:identity-moves-key";
            }
        }
        // one identity per key: whoever was under this key is superseded
        if let Some(prev) = self.key_to_id.get(&k).copied() {
            if prev != i {
                self.expiry.remove(&prev);
                self.loss[prev] = Loss::Superseded;
                class = if class == "reg:identity-moves-key" { "reg:moves-key+supersedes" } else { "reg:supersedes" };
            }
        }
        self.key_to_id.insert(k, i);
        self.expiry.insert(i, self.now + l);
        (class, had)
    }
    fn purge(&mut self) -> usize {
        let gone: Vec<usize> = self.expiry.iter().filter(|(_, e)| **e <= self.now).map(|(i, _)| *i).collect();
        for i in &gone {
            self.expiry.remove(i);
            self.loss[*i] = Loss::Purged;
            self.key_to_id.retain(|_, v| v != i);
        }
        gone.len()
    }
    /// Canonical state key. Relative lifetimes only (absolute time is irrelevant), no ciphertext,
    /// no counters.
    fn key(&self) -> String {
        let mut s = String::new();
        for k in 0..KEYS.len() {
            s.push_str(&format!("{}={} ", KEYS[k], self.key_to_id.get(&k).map_or("-", |i| IDS[*i])));
        }
        s.push('|');
        for i in 0..IDS.len() {
            match self.expiry.get(&i) {
                Some(e) => s.push_str(&format!(" {}:{}", IDS[i], e.saturating_sub(self.now))),
                None => s.push_str(&format!(" {}:-", IDS[i])),
            }
        }
        for a in 0..ADDRS.len() {
            s.push_str(&format!(" | {}:owner={} clients={}{}{}", ADDRS[a], self.owner[a].map_or("-", |i| IDS[i]), self.client[a][0], self.client[a][1], self.client[a][2]));
        }
        s
    }
}

// ---------------------------------------------------------------------------------------------
// The system under test
// ---------------------------------------------------------------------------------------------

struct Consts {
    id_secret: [[u8; 32]; 3],
    id_pub: [[u8; 32]; 3],
    server_secret: [u8; 32],
    server_pub: x25519::PublicKey,
    addrs: [SocketAddr; 2],
    server_addr: SocketAddr,
}

impl Consts {
    fn new() -> Consts {
        let id_secret = [[0xA1u8; 32], [0xB2u8; 32], [0xC3u8; 32]];
        let id_pub = id_secret.map(|s| *x25519::PublicKey::from(&x25519::StaticSecret::from(s)).as_bytes());
        let server_secret = [0x02u8; 32];
        let server_pub = x25519::PublicKey::from(&x25519::StaticSecret::from(server_secret));
        Consts {
            id_secret,
            id_pub,
            server_secret,
            server_pub,
            addrs: ["192.168.1.1:1234".parse().unwrap(), "192.168.1.2:4321".parse().unwrap()],
            server_addr: "10.0.0.1:5001".parse().unwrap(),
        }
    }
    fn label(&self, public: &[u8; 32]) -> String {
        match self.id_pub.iter().position(|p| p == public) {
            Some(i) => IDS[i].to_string(),
            None => format!("?{}", vpc::hex(&public[..4])),
        }
    }
}

/// The authorization adapter: the REAL registry decides, at the explorer's logical time.
struct Authz {
    registry: Arc<IdentityRegistry>,
    base: Instant,
    clock: AtomicU64,
    asked: Mutex<Vec<[u8; 32]>>,
}

impl SnapTunAuthorization for Authz {
    /// the identity the server asked about (lets the oracle check attribution of `Forwarded`)
    type SessionData = [u8; 32];

    fn is_authorized(&self, _servers_wall_clock: Instant, identity: &[u8; 32]) -> Option<Arc<[u8; 32]>> {
        self.asked.lock().unwrap().push(*identity);
        let now = self.base + Duration::from_secs(self.clock.load(Ordering::SeqCst));
        // the production glue (`impl SnapTunAuthorization for IdentityRegistry`)
        <IdentityRegistry as SnapTunAuthorization>::is_authorized(&self.registry, now, identity).map(|_| Arc::new(*identity))
    }
}

/// What one step did, in schedule-independent terms.
#[derive(Default)]
struct StepOut {
    /// deterministic description of everything observed (used for the de-dup validation)
    obs: Vec<String>,
    /// coarse outcome classes (evidence counters)
    classes: Vec<String>,
    /// (narrow class, text)
    viols: Vec<(String, String)>,
    /// the abstract state after this step is uncertain (legal but unexpected refusal): cut branch
    diverged: Option<String>,
}

impl StepOut {
    fn viol(&mut self, class: String, what: String) {
        if !self.viols.iter().any(|(c, _)| *c == class) {
            self.viols.push((class, what));
        }
    }
}

struct Sys<'c> {
    c: &'c Consts,
    registry: Arc<IdentityRegistry>,
    authz: Arc<Authz>,
    server: SnapTunServer<Authz>,
    clients: [[Option<Tunn>; 3]; 2],
    client_rl: Arc<RateLimiter>,
    seq: u32,
    rf: Ref,
}

fn tunn_err(r: &TunnResult) -> String {
    match r {
        TunnResult::Done => "Done".into(),
        TunnResult::Err(e) => format!("Err({e:?})"),
        TunnResult::WriteToNetwork(k) => format!("WriteToNetwork({k:?})"),
        TunnResult::WriteToTunnel(p) => format!("WriteToTunnel({}B)", p.len()),
    }
}

enum SrvIn {
    Forwarded { plaintext: Vec<u8>, session: [u8; 32] },
    Other(String),
    Panic(String),
}

impl<'c> Sys<'c> {
    fn new(c: &'c Consts) -> Sys<'c> {
        let registry = Arc::new(IdentityRegistry::new());
        let authz = Arc::new(Authz { registry: registry.clone(), base: Instant::now(), clock: AtomicU64::new(0), asked: Mutex::new(vec![]) });
        let rl = Arc::new(RateLimiter::new(&c.server_pub, RATE_LIMIT));
        let server = SnapTunServer::new(x25519::StaticSecret::from(c.server_secret), rl, authz.clone());
        // clients never verify cookies; their limiter is only a constructor argument of Tunn
        let client_rl = Arc::new(RateLimiter::new(&c.server_pub, RATE_LIMIT));
        Sys { c, registry, authz, server, clients: Default::default(), client_rl, seq: 0, rf: Ref::new() }
    }

    fn real_now(&self) -> Instant {
        self.authz.base + Duration::from_secs(self.rf.now as u64)
    }

    fn client(&mut self, a: usize, i: usize) -> &mut Tunn {
        if self.clients[a][i].is_none() {
            let t = Tunn::new(
                x25519::StaticSecret::from(self.c.id_secret[i]),
                self.c.server_pub,
                None,
                None,
                (1 + a * 3 + i) as u32,
                self.client_rl.clone(),
                self.c.server_addr,
            );
            self.clients[a][i] = Some(t);
        }
        self.clients[a][i].as_mut().unwrap()
    }

    fn take_asked(&self) -> Vec<[u8; 32]> {
        std::mem::take(&mut *self.authz.asked.lock().unwrap())
    }
    fn asked_text(&self, asked: &[[u8; 32]]) -> String {
        asked.iter().map(|p| self.c.label(p)).collect::<Vec<_>>().join(",")
    }

    /// One packet from address `a` into the real server.
    fn server_in(&mut self, a: usize, pkt: Packet, q: &mut VecDeque<WgKind>) -> SrvIn {
        let from = self.c.addrs[a];
        let server = &mut self.server;
        match vpc::catch(|| server.handle_incoming_packet_with_session(pkt, from, q)) {
            Err(msg) => SrvIn::Panic(format!("{msg} @{}", vpc::last_panic_location())),
            Ok(HandleIncomingPacketResult::Forwarded { packet, session_data, .. }) => SrvIn::Forwarded { plaintext: packet.to_vec(), session: *session_data },
            Ok(HandleIncomingPacketResult::Result { result }) => SrvIn::Other(tunn_err(&result)),
        }
    }

    // ----- oracles on payload flows -----------------------------------------------------------

    /// A payload sent by client (a, j) was handed to the SCION side.
    fn check_inbound_flow(&self, out: &mut StepOut, a: usize, j: usize, sent: Option<&[u8]>, plaintext: &[u8], session: &[u8; 32], asked: &[[u8; 32]]) {
        let rf = &self.rf;
        if !rf.auth(j) {
            out.viol(
                format!("inbound-delivered-while-unauthorised:{}", rf.why_unauth(j)),
                format!("payload of identity {} from {} was Forwarded at t={} although the identity is not authorised ({})", IDS[j], ADDRS[a], rf.now, rf.why_unauth(j)),
            );
        }
        if let Some(sent) = sent {
            if sent != plaintext {
                out.viol("inbound-plaintext-differs-from-sent".into(), format!("Forwarded plaintext {:?} is not what client {}@{} encrypted", String::from_utf8_lossy(plaintext), IDS[j], ADDRS[a]));
            }
        }
        if *session != self.c.id_pub[j] {
            out.viol(
                "inbound-attributed-to-other-identity".into(),
                format!("payload authenticated by identity {} at {} was Forwarded with the session of identity {}", IDS[j], ADDRS[a], self.c.label(session)),
            );
        }
        if asked.iter().any(|p| *p != self.c.id_pub[j]) {
            // the authorisation that admitted this payload was (also) evaluated for someone else
            if asked.last() != Some(&self.c.id_pub[j]) {
                out.viol(
                    "inbound-authorised-by-other-identity".into(),
                    format!("payload authenticated by identity {} at {} was admitted on an authorisation query for [{}]", IDS[j], ADDRS[a], self.asked_text(asked)),
                );
            }
        }
    }

    /// Ciphertext carrying a non-empty payload was produced towards address `a`; `recipients` are
    /// the clients that could decrypt it.
    fn check_outbound_flow(&self, out: &mut StepOut, a: usize, recipients: &[(usize, Vec<u8>)], sent: Option<&[u8]>, session: Option<&[u8; 32]>) {
        let rf = &self.rf;
        let mut subjects: Vec<usize> = recipients.iter().map(|(r, _)| *r).collect();
        if subjects.is_empty() {
            // nobody could decrypt: judge by the tunnel's owner / the identity the server named
            if let Some(o) = rf.owner[a] {
                subjects.push(o);
            } else if let Some(s) = session.and_then(|s| self.c.id_pub.iter().position(|p| p == s)) {
                subjects.push(s);
            }
        }
        for r in subjects {
            if !rf.auth(r) {
                out.viol(
                    format!("outbound-encrypted-while-unauthorised:{}", rf.why_unauth(r)),
                    format!("a payload was encrypted towards {} for identity {} at t={} although the identity is not authorised ({})", ADDRS[a], IDS[r], rf.now, rf.why_unauth(r)),
                );
            }
            if let Some(s) = session {
                if *s != self.c.id_pub[r] {
                    out.viol(
                        "outbound-attributed-to-other-identity".into(),
                        format!("ciphertext towards {} decrypts under identity {} but was accounted to the session of {}", ADDRS[a], IDS[r], self.c.label(s)),
                    );
                }
            }
        }
        if let Some(sent) = sent {
            for (r, pt) in recipients {
                if pt != sent {
                    out.viol("outbound-plaintext-differs-from-sent".into(), format!("client {}@{} decrypted {:?}", IDS[*r], ADDRS[a], String::from_utf8_lossy(pt)));
                }
            }
        }
    }

    /// Deliver one server->network packet for address `a` to the given clients. Returns, per
    /// client, what it made of it; client replies are fed back into the server (from `a`).
    fn deliver(&mut self, out: &mut StepOut, a: usize, targets: &[usize], pkt: WgKind, q: &mut VecDeque<WgKind>, sent: Option<&[u8]>, session: Option<&[u8; 32]>) -> (String, bool) {
        let kind = format!("{pkt:?}");
        let bytes: Vec<u8> = Packet::from(pkt).to_vec();
        let mut recipients = vec![];
        let mut desc = vec![];
        let mut resp_completed = false;
        for &j in targets {
            let Some(client) = self.clients[a][j].as_mut() else { continue };
            let Ok(wg) = Packet::copy_from(&bytes[..]).try_into_wg() else { continue };
            let is_resp = matches!(wg, WgKind::HandshakeResp(_));
            match vpc::catch(|| client.handle_incoming_packet(wg)) {
                Err(m) => desc.push(format!("{}:client-panic({m})", IDS[j])),
                Ok(TunnResult::WriteToTunnel(p)) => {
                    if p.is_empty() {
                        desc.push(format!("{}:keepalive", IDS[j]));
                    } else {
                        desc.push(format!("{}:payload({})", IDS[j], String::from_utf8_lossy(&p)));
                        recipients.push((j, p.to_vec()));
                    }
                }
                Ok(TunnResult::WriteToNetwork(reply)) => {
                    if is_resp {
                        resp_completed = true;
                    }
                    let rk = format!("{reply:?}");
                    let _ = self.take_asked();
                    let r = self.server_in(a, Packet::from(reply), q);
                    let asked = self.take_asked();
                    let rd = match r {
                        SrvIn::Forwarded { plaintext, session } => {
                            self.check_inbound_flow(out, a, j, None, &plaintext, &session, &asked);
                            format!("Forwarded({})", String::from_utf8_lossy(&plaintext))
                        }
                        SrvIn::Other(s) => s,
                        SrvIn::Panic(m) => {
                            out.viol(format!("panic@{}", vpc::last_panic_location()), m.clone());
                            format!("panic({m})")
                        }
                    };
                    desc.push(format!("{}:reply {rk} -> server {rd} asked[{}]", IDS[j], self.asked_text(&asked)));
                }
                Ok(r) => desc.push(format!("{}:{}", IDS[j], tunn_err(&r))),
            }
        }
        if !recipients.is_empty() {
            self.check_outbound_flow(out, a, &recipients, sent, session);
        }
        (format!("{kind}=>[{}]", desc.join("; ")), resp_completed)
    }

    /// Drain the server's send queue for address `a` towards `targets`.
    fn pump(&mut self, out: &mut StepOut, a: usize, targets: &[usize], q: &mut VecDeque<WgKind>) -> bool {
        let mut completed = false;
        let mut rounds = 0;
        while let Some(p) = q.pop_front() {
            rounds += 1;
            if rounds > 16 {
                out.diverged = Some("packet ping-pong did not settle in 16 rounds".into());
                break;
            }
            let (d, c) = self.deliver(out, a, targets, p, q, None, None);
            completed |= c;
            out.obs.push(format!("net {d}"));
        }
        completed
    }

    // ----- the transition relation ------------------------------------------------------------

    fn step(&mut self, ev: Ev) -> StepOut {
        let mut out = StepOut::default();
        let _ = self.take_asked();
        match ev {
            Ev::Reg { k, i, l } => {
                let (class, had) = self.rf.reg(k, i, l);
                let now = self.real_now();
                let reg = &self.registry;
                let id = self.c.id_pub[i];
                match vpc::catch(|| reg.register(now, KEYS[k], id, Duration::from_secs(l as u64))) {
                    Ok(was_new) => out.obs.push(format!("register -> was_new={was_new} (reference: {})", !had)),
                    Err(m) => out.viol(format!("panic@{}", vpc::last_panic_location()), m),
                }
                out.classes.push(class.into());
            }
            Ev::Tick => {
                self.rf.now += 1;
                self.authz.clock.store(self.rf.now as u64, Ordering::SeqCst);
                let lapsed = (0..3).filter(|i| self.rf.expiry.get(i) == Some(&self.rf.now)).count();
                out.classes.push(if lapsed > 0 { "tick:registration-lapses" } else { "tick:no-lapse" }.into());
            }
            Ev::Purge => {
                let n = self.rf.purge();
                let now = self.real_now();
                let reg = &self.registry;
                if let Err(m) = vpc::catch(|| reg.remove_expired(now)) {
                    out.viol(format!("panic@{}", vpc::last_panic_location()), m);
                }
                out.classes.push(if n > 0 { "purge:removes-expired" } else { "purge:nothing-expired" }.into());
            }
            Ev::Hs { a, i } => self.hs(&mut out, a, i),
            Ev::In { a } => self.data_in(&mut out, a),
            Ev::Out { a } => self.data_out(&mut out, a),
            Ev::Timers => {
                let server = &mut self.server;
                match vpc::catch(|| server.update_timers()) {
                    Err(m) => out.viol(format!("panic@{}", vpc::last_panic_location()), m),
                    Ok(list) => {
                        out.classes.push(if list.is_empty() { "timers:nothing-due" } else { "timers:emits-packets" }.into());
                        for (addr, pkt) in list {
                            let Some(a) = self.c.addrs.iter().position(|x| *x == addr) else { continue };
                            let targets: Vec<usize> = (0..3).filter(|j| self.rf.client[a][*j] == 2).collect();
                            let mut q = VecDeque::new();
                            let (d, _) = self.deliver(&mut out, a, &targets, pkt, &mut q, None, None);
                            out.obs.push(format!("timer-net {d}"));
                            self.pump(&mut out, a, &targets, &mut q);
                        }
                    }
                }
            }
        }
        // registry conformance, after every step, for every identity
        let now = self.real_now();
        let mut av = String::new();
        for i in 0..3 {
            let reg = &self.registry;
            let id = self.c.id_pub[i];
            let real = match vpc::catch(|| reg.has_authorization(now, &id)) {
                Ok(b) => b,
                Err(m) => {
                    out.viol(format!("panic@{}", vpc::last_panic_location()), m);
                    continue;
                }
            };
            let want = self.rf.auth(i);
            av.push(if real { '1' } else { '0' });
            if real != want {
                let class = if real { format!("registry-authorises:{}", self.rf.why_unauth(i)) } else { "registry-refuses-live-registration".to_string() };
                out.viol(class, format!("has_authorization(t={}, {}) = {real}, reference = {want} ({})", self.rf.now, IDS[i], self.rf.why_unauth(i)));
            }
        }
        out.obs.push(format!("auth[ABC]={av}"));
        out
    }

    fn hs(&mut self, out: &mut StepOut, a: usize, i: usize) {
        let owner = self.rf.owner[a];
        let predicted = match owner {
            None => self.rf.auth(i),
            Some(o) => o == i && self.rf.auth(o),
        };
        let client = self.client(a, i);
        let init = match vpc::catch(|| client.format_handshake_initiation(true)) {
            Ok(Some(p)) => p,
            Ok(None) => {
                out.diverged = Some("client produced no handshake initiation".into());
                return;
            }
            Err(m) => {
                out.diverged = Some(format!("client panicked: {m}"));
                return;
            }
        };
        let mut q = VecDeque::new();
        let r = self.server_in(a, init.into_bytes(), &mut q);
        let asked = self.take_asked();
        let first = match r {
            SrvIn::Forwarded { plaintext, session } => {
                // a handshake message can never carry a payload
                self.check_inbound_flow(out, a, i, None, &plaintext, &session, &asked);
                "Forwarded?!".to_string()
            }
            SrvIn::Other(s) => s,
            SrvIn::Panic(m) => {
                out.viol(format!("panic@{}", vpc::last_panic_location()), m.clone());
                format!("panic({m})")
            }
        };
        out.obs.push(format!("init -> server {first} asked[{}] queued={}", self.asked_text(&asked), q.len()));
        let completed = self.pump(out, a, &[i], &mut q);
        let st = &mut self.rf.client[a][i];
        if completed {
            *st = 2;
            if owner.is_none() {
                self.rf.owner[a] = Some(i);
            }
        } else if *st == 0 {
            *st = 1;
        }
        let class = match (completed, predicted, owner) {
            (true, true, None) => "hs:completed-new-tunnel".to_string(),
            (true, true, Some(_)) => "hs:completed-rehandshake".to_string(),
            (true, false, _) => format!("hs:completed-UNPREDICTED(owner={},requester {})", owner.map_or("-", |o| IDS[o]), self.rf.why_unauth(i)),
            (false, false, None) => "hs:refused-requester-unauthorised".to_string(),
            (false, false, Some(o)) if o != i && !self.rf.auth(o) => "hs:refused-foreign-tunnel-owner-unauthorised".to_string(),
            (false, false, Some(o)) if o != i => "hs:refused-foreign-tunnel".to_string(),
            (false, false, Some(_)) => "hs:refused-owner-unauthorised".to_string(),
            (false, true, _) => {
                out.diverged = Some(format!("handshake refused although expected to complete: {first}"));
                "hs:REFUSED-THOUGH-EXPECTED".to_string()
            }
        };
        out.obs.push(format!("handshake completed={completed} (reference expectation: {predicted})"));
        out.classes.push(class);
    }

    fn data_in(&mut self, out: &mut StepOut, a: usize) {
        let senders: Vec<usize> = (0..3).filter(|j| self.rf.client[a][*j] == 2).collect();
        for j in senders {
            self.seq += 1;
            let payload = format!("C09 inbound payload from identity {} at {} #{}", IDS[j], ADDRS[a], self.seq).into_bytes();
            let client = self.clients[a][j].as_mut().expect("established client exists");
            let ct = match vpc::catch(|| client.handle_outgoing_packet(Packet::copy_from(&payload[..]))) {
                Ok(Some(WgKind::Data(d))) => d,
                other => {
                    out.diverged = Some(format!("established client did not encrypt: {:?}", other.map(|o| o.map(|k| format!("{k:?}")))));
                    return;
                }
            };
            let mut q = VecDeque::new();
            let r = self.server_in(a, ct.into_bytes(), &mut q);
            let asked = self.take_asked();
            let authorised = self.rf.auth(j);
            let class = match r {
                SrvIn::Forwarded { plaintext, session } => {
                    self.check_inbound_flow(out, a, j, Some(&payload), &plaintext, &session, &asked);
                    out.obs.push(format!("in {} -> Forwarded tag={:?} session={} asked[{}]", IDS[j], String::from_utf8_lossy(&plaintext), self.c.label(&session), self.asked_text(&asked)));
                    if authorised { "in:forwarded-authorised".to_string() } else { format!("in:FORWARDED-UNAUTHORISED({})", self.rf.why_unauth(j)) }
                }
                SrvIn::Other(s) => {
                    out.obs.push(format!("in {} -> {s} asked[{}]", IDS[j], self.asked_text(&asked)));
                    if authorised {
                        // non-vacuity side: authorised + established session should flow
                        format!("in:REFUSED-THOUGH-AUTHORISED({s})")
                    } else {
                        format!("in:refused-session-alive({})", self.rf.why_unauth(j))
                    }
                }
                SrvIn::Panic(m) => {
                    out.viol(format!("panic@{}", vpc::last_panic_location()), m);
                    "in:panic".to_string()
                }
            };
            out.classes.push(class);
            self.pump(out, a, &[j], &mut q);
        }
    }

    fn data_out(&mut self, out: &mut StepOut, a: usize) {
        self.seq += 1;
        let payload = format!("C09 outbound payload towards {} #{}", ADDRS[a], self.seq).into_bytes();
        let to = self.c.addrs[a];
        let server = &mut self.server;
        let pkt = Packet::copy_from(&payload[..]);
        let r = match vpc::catch(|| server.handle_outgoing_packet_with_session(pkt, to)) {
            Ok(r) => r,
            Err(m) => {
                out.viol(format!("panic@{}", vpc::last_panic_location()), m);
                return;
            }
        };
        let asked = self.take_asked();
        let owner = self.rf.owner[a];
        let established: Vec<usize> = (0..3).filter(|j| self.rf.client[a][*j] == 2).collect();
        let expect_flow = owner.is_some_and(|o| self.rf.auth(o) && self.rf.client[a][o] == 2);
        let class = match r {
            None => {
                out.obs.push(format!("out -> None asked[{}]", self.asked_text(&asked)));
                match owner {
                    None => "out:no-tunnel".to_string(),
                    Some(_) if expect_flow => "out:REFUSED-THOUGH-AUTHORISED".to_string(),
                    Some(o) => format!("out:refused-session-alive({})", self.rf.why_unauth(o)),
                }
            }
            Some(h) => {
                let session = *h.session_data;
                match h.network_packet {
                    Some(k @ WgKind::Data(_)) => {
                        let mut q = VecDeque::new();
                        let before = out.viols.len();
                        let (d, _) = self.deliver(out, a, &established, k, &mut q, Some(&payload), Some(&session));
                        if !d.contains("payload(") {
                            // ciphertext nobody could open: still judged by owner / named identity
                            self.check_outbound_flow(out, a, &[], None, Some(&session));
                        }
                        out.obs.push(format!("out -> ciphertext session={} asked[{}] {d}", self.c.label(&session), self.asked_text(&asked)));
                        self.pump(out, a, &established, &mut q);
                        if out.viols.len() > before { "out:ENCRYPTED-UNAUTHORISED-OR-MISATTRIBUTED".to_string() } else { "out:encrypted-authorised".to_string() }
                    }
                    Some(k) => {
                        out.obs.push(format!("out -> {k:?} session={}", self.c.label(&session)));
                        out.diverged = Some("server started its own handshake (no current session); payload queued".into());
                        "out:server-initiated-handshake".to_string()
                    }
                    None => {
                        out.obs.push(format!("out -> admitted, queued session={}", self.c.label(&session)));
                        out.diverged = Some("payload queued inside the server tunnel".into());
                        "out:queued".to_string()
                    }
                }
            }
        };
        out.classes.push(class);
    }
}

// ---------------------------------------------------------------------------------------------
// Replay of one history on fresh real objects
// ---------------------------------------------------------------------------------------------

struct Replayed {
    prefix_key: String,
    key: String,
    /// reference client table after the history (decides which events are enabled next)
    clients: [[u8; 3]; 2],
    last: StepOut,
    /// a prefix step diverged/was non-deterministic
    prefix_problem: Option<String>,
}

fn replay(c: &Consts, hist: &[Ev]) -> Replayed {
    let mut sys = Sys::new(c);
    let mut prefix_problem = None;
    let mut prefix_key = sys.rf.key();
    let mut last = StepOut::default();
    for (n, ev) in hist.iter().enumerate() {
        if n + 1 == hist.len() {
            prefix_key = sys.rf.key();
        }
        let out = sys.step(*ev);
        if n + 1 < hist.len() {
            if let Some(d) = &out.diverged {
                prefix_problem.get_or_insert(format!("prefix step {} ({}) diverged: {d}", n + 1, ev.text()));
            }
        }
        last = out;
    }
    Replayed { prefix_key, key: sys.rf.key(), clients: sys.rf.client, last, prefix_problem }
}

fn enabled(parent_key_clients: &[[u8; 3]; 2], ev: Ev) -> bool {
    match ev {
        // nothing to send without an established client on that address
        Ev::In { a } => parent_key_clients[a].iter().any(|s| *s == 2),
        _ => true,
    }
}

// ---------------------------------------------------------------------------------------------
// The exploration
// ---------------------------------------------------------------------------------------------

struct Node {
    key: String,
    hist: Vec<Ev>,
    clients: [[u8; 3]; 2],
    /// second, different history into an already known state (de-dup validation)
    alt: bool,
}

struct Succ {
    ev: Ev,
    r: Replayed,
}

struct StateInfo {
    succ_sig: Option<Vec<(String, u64)>>, // (event, hash of observation + successor key)
    first_hist: Vec<Ev>,
    has_alt: bool,
}

pub fn run(args: &vpc::Args) -> ! {
    vpc::quiet_panics();
    let consts = Consts::new();
    if let Some(file) = &args.replay {
        replay_file(&consts, file);
    }
    let run = vpc::Run::new(args);
    let mut depth: usize = run.tier.pick(5, 7);
    let mut validate_dedup = true;
    for x in &args.extra {
        if let Some(d) = x.strip_prefix("--depth=") {
            depth = d.parse().unwrap_or_else(|_| vpc::machinery_failure("bad --depth"));
        }
        if x == "--no-dedup-validation" {
            validate_dedup = false;
        }
    }
    let events = all_events();
    let mut states: BTreeMap<String, StateInfo> = BTreeMap::new();
    let root = Ref::new();
    states.insert(root.key(), StateInfo { succ_sig: None, first_hist: vec![], has_alt: false });
    let mut frontier = vec![Node { key: root.key(), hist: vec![], clients: root.client, alt: false }];
    let (mut transitions, mut alt_transitions, mut histories) = (0u64, 0u64, 0u64);
    let (mut cut, mut nondet, mut dedup_mismatch, mut dedup_checked) = (0u64, 0u64, 0u64, 0u64);
    let mut per_depth = vec![];
    let mut notes: Vec<Value> = vec![];
    let mut tally: BTreeMap<String, u64> = BTreeMap::new();
    let sample_classes = ["in:forwarded-authorised", "in:refused-session-alive(at-expiry-instant)", "in:refused-session-alive(superseded)", "out:refused-session-alive(superseded)", "out:encrypted-authorised", "hs:refused-owner-unauthorised", "hs:refused-foreign-tunnel", "reg:moves-key+supersedes"];

    for d in 0..depth {
        // quick tier: second-history validation stops one level early (the last level is ~40 % of
        // the cost); thorough validates every revisited state that is expanded at all
        if run.tier == vpc::Tier::Quick && d + 1 == depth {
            frontier.retain(|n| !n.alt);
        }
        let expanded: Vec<Vec<Succ>> = frontier
            .par_iter()
            .map(|node| {
                events
                    .iter()
                    .filter(|ev| enabled(&node.clients, **ev))
                    .map(|ev| {
                        let mut h = node.hist.clone();
                        h.push(*ev);
                        let r = replay(&consts, &h);
                        Succ { ev: *ev, r }
                    })
                    .collect()
            })
            .collect();

        // sequential, deterministic post-processing in frontier order
        let mut next = vec![];
        for (node, succs) in frontier.iter().zip(expanded) {
            let mut sig = vec![];
            for s in succs {
                histories += 1;
                if node.alt {
                    alt_transitions += 1;
                } else {
                    transitions += 1;
                }
                let mut h = node.hist.clone();
                h.push(s.ev);
                if s.r.prefix_problem.is_some() || s.r.prefix_key != node.key {
                    nondet += 1;
                    if notes.len() < 10 {
                        notes.push(json!({"kind": "replay-not-reproducible", "history": hist_text(&h), "expected_prefix_state": node.key, "got": s.r.prefix_key, "problem": s.r.prefix_problem}));
                    }
                    continue;
                }
                sig.push((s.ev.text(), vpc::fnv64(format!("{} => {}", s.r.last.obs.join(" / "), s.r.key).as_bytes())));
                if !node.alt {
                    for c in &s.r.last.classes {
                        run.outcome(c);
                        *tally.entry(c.clone()).or_default() += 1;
                    }
                    if s.r.last.classes.iter().any(|c| sample_classes.contains(&c.as_str()) && tally[c] == 1) {
                        run.sample(sample_classes.len(), || json!({"history": hist_text(&h), "class": s.r.last.classes, "observed_last_step": s.r.last.obs, "state_after": s.r.key}));
                    }
                }
                for (class, what) in &s.r.last.viols {
                    run.violation(class, what, json!({"history": hist_text(&h), "violating_step": h.len(), "observed_last_step": s.r.last.obs, "state_before": node.key, "state_after": s.r.key}));
                }
                if let Some(why) = &s.r.last.diverged {
                    cut += 1;
                    if notes.len() < 10 {
                        notes.push(json!({"kind": "branch-cut", "history": hist_text(&h), "why": why}));
                    }
                    continue;
                }
                match states.get_mut(&s.r.key) {
                    None => {
                        states.insert(s.r.key.clone(), StateInfo { succ_sig: None, first_hist: h.clone(), has_alt: false });
                        next.push(Node { key: s.r.key, hist: h, clients: s.r.clients, alt: false });
                    }
                    Some(info) => {
                        if validate_dedup && !info.has_alt && info.first_hist != h && s.r.key != node.key {
                            info.has_alt = true;
                            next.push(Node { key: s.r.key, hist: h, clients: s.r.clients, alt: true });
                        }
                    }
                }
            }
            let info = states.get_mut(&node.key).expect("frontier node is a known state");
            if node.alt {
                if let Some(primary) = &info.succ_sig {
                    dedup_checked += 1;
                    if *primary != sig {
                        dedup_mismatch += 1;
                        if notes.len() < 10 {
                            let diff: Vec<&String> = primary.iter().zip(&sig).filter(|(p, q)| p != q).map(|(p, _)| &p.0).collect();
                            notes.push(json!({"kind": "state-key-not-behavioural", "state": node.key, "history_1": hist_text(&info.first_hist), "history_2": hist_text(&node.hist), "events_that_differ": diff}));
                        }
                    }
                }
            } else {
                info.succ_sig = Some(sig);
            }
        }
        per_depth.push(json!({"depth": d + 1, "new_states": next.iter().filter(|n| !n.alt).count(), "states_total": states.len(), "histories_executed_so_far": histories}));
        eprintln!("[C09] depth {} done: states={} frontier={} histories={} t={:.1}s", d + 1, states.len(), next.len(), histories, run.elapsed_s());
        frontier = next;
    }

    let forwarded = ["in:forwarded-authorised", "out:encrypted-authorised", "in:refused-session-alive(at-expiry-instant)", "in:refused-session-alive(superseded)"];
    let liveness_misses: u64 = tally.iter().filter(|(k, _)| k.contains("REFUSED-THOUGH")).map(|(_, n)| *n).sum();
    let exhaustive = cut == 0 && nondet == 0 && dedup_mismatch == 0;
    let coverage = json!({
        "states": states.len(),
        "transitions": transitions,
        "dedup_validation_transitions": alt_transitions,
        "traces_validated_against_impl": histories,
        "exhaustive": exhaustive,
        "bound": format!("all histories of length <= {depth} over 25 events (Reg 2 keys x 3 identities x lifetimes {{1,3}}, Tick, Purge, Hs 2 addresses x 3 identities, In x2, Out x2, Timers), BFS with canonical-state de-duplication; every history replayed on fresh real SnapTunServer + IdentityRegistry + Tunn clients"),
        "per_depth": per_depth,
        "branches_cut_unexpected_refusal": cut,
        "replays_not_reproducible": nondet,
        "dedup_validation": {"states_expanded_from_a_second_history": dedup_checked, "successor_signature_mismatches": dedup_mismatch},
        "notes": notes,
        "required_outcome_classes": forwarded,
        "authorised_and_established_but_refused": liveness_misses,
    });
    // a run in which nothing ever flowed, or no revocation with a live session was ever seen,
    // proves nothing: that is a machinery failure, not a pass
    if liveness_misses > 0 {
        println!("NOTE C09: {liveness_misses} transitions refused traffic of an authorised identity with an established session (not a C09 violation; see observed_outcomes *REFUSED-THOUGH-AUTHORISED*)");
    }
    if run.violation_count() == 0 && depth >= 4 {
        let have = |c: &str| -> bool { tally.get(c).copied().unwrap_or(0) > 0 };
        for c in forwarded {
            if !have(c) {
                vpc::machinery_failure(&format!("C09 exploration is vacuous: outcome class {c} never observed"));
            }
        }
        if dedup_mismatch > 0 {
            vpc::machinery_failure(&format!("C09 state key is not behavioural: {dedup_mismatch} states behaved differently when reached by a second history (see notes)"));
        }
    }
    run.finish(
        "model_checking",
        coverage,
        &[
            "the authorization adapter stands in for the 3-line `impl SnapTunAuthorization for IdentityRegistry`: it calls that very impl, with base + logical clock in place of the Instant::now() the server passes",
            "each registry operation is one atomic ArcSwap load/store with writers serialised by a mutex, so the sequential interleavings explored are its linearisations; arc_swap itself is trusted",
            "WireGuard real-time behaviour (rekey after 120 s, session expiry after 180 s, keepalive after 10 s, cookie/rate limiting under load) is not explored: replays take milliseconds and use a fresh server and rate limiter each",
            "canonical key = reference registry (key->identity, identity->remaining lifetime) + per address tunnel owner and per (address,identity) client state; validated by expanding every revisited state from a second history and comparing all successor observations",
        ],
    );
}

fn replay_file(c: &Consts, file: &std::path::Path) -> ! {
    let v = vpc::read_replay(file);
    let w = v.get("witness").unwrap_or(&v);
    let hist: Vec<Ev> = w
        .get("history")
        .and_then(|h| h.as_array())
        .unwrap_or_else(|| vpc::machinery_failure("replay file has no witness.history"))
        .iter()
        .map(|s| Ev::parse(s.as_str().unwrap_or("")).unwrap_or_else(|| vpc::machinery_failure(&format!("bad event {s}"))))
        .collect();
    println!("replaying {} events on fresh real objects: {}", hist.len(), hist_text(&hist).join(", "));
    // every prefix is judged, not only the last step
    let mut nviol = 0;
    let mut sys = Sys::new(c);
    for (n, ev) in hist.iter().enumerate() {
        let out = sys.step(*ev);
        println!("step {:>2}  {:<12} t={}  {}", n + 1, ev.text(), sys.rf.now, out.classes.join(" "));
        for o in &out.obs {
            println!("           . {o}");
        }
        for (cl, what) in &out.viols {
            nviol += 1;
            println!("           ! VIOLATION [{cl}] {what}");
        }
        if let Some(d) = &out.diverged {
            println!("           ~ branch cut here during exploration: {d}");
        }
        println!("           state: {}", sys.rf.key());
    }
    println!("replay finished: {nviol} violation(s) reproduced");
    std::process::exit(if nviol > 0 { 1 } else { 0 })
}
