mod c09;

fn main() {
    let args = vpc::Args::parse();
    match args.prop.as_str() {
        "C09" => c09::run(&args),
        p => vpc::machinery_failure(&format!("property {p} is not served by this binary")),
    }
}
