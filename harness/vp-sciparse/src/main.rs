mod c02;
mod c03;
mod c04;
mod c11;
mod c12;
mod c15;
mod c16;
mod c18;
mod c19;

fn main() {
    let args = vpc::Args::parse();
    match args.prop.as_str() {
        "C02" => c02::run(&args),
        "C03" => c03::run(&args),
        "C04" => c04::run(&args),
        "C11" => c11::run(&args),
        "C12" => c12::run(&args),
        "C15" => c15::run(&args),
        "C16" => c16::run(&args),
        "C18" => c18::run(&args),
        "C19" => c19::run(&args),
        p => vpc::machinery_failure(&format!("property {p} is not served by this binary")),
    }
}
