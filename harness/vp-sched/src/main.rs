mod c20;

fn main() {
    let args = vpc::Args::parse();
    match args.prop.as_str() {
        "C20" => c20::run(&args),
        p => vpc::machinery_failure(&format!("property {p} is not served by this binary")),
    }
}
